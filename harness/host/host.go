// Package host manages emuhost child processes: control channel, hook events,
// exit status / panic / race-report collection.
package host

import (
	"bufio"
	"errors"
	"fmt"
	"io"
	"math/rand"
	"net"
	"os"
	"os/exec"
	"path/filepath"
	"regexp"
	"sort"
	"strconv"
	"strings"
	"sync"
	"syscall"
	"time"
)

type Event struct {
	Kind   string // ready, parked, hit, crash
	Token  int64  // parked
	Point  string
	ID     int64
	Detail string
}

type Child struct {
	Cmd   *exec.Cmd
	Dir   string
	Race  bool
	stdin io.WriteCloser

	mu      sync.Mutex
	seq     int
	pending map[int]chan string

	evMu   sync.Mutex
	evCond *sync.Cond
	evLog  []Event

	exited   chan struct{}
	exitErr  error
	emuSeq   int
	stopping bool
}

var BinDir = func() string {
	if d := os.Getenv("VERIF_BIN"); d != "" {
		return d
	}
	exe, err := os.Executable()
	if err != nil {
		return "bin"
	}
	return filepath.Dir(exe)
}()

var scratchRoot string
var scratchOnce sync.Once

// ScratchRoot returns the per-process scratch directory (under $TMPDIR).
func ScratchRoot() string {
	scratchOnce.Do(func() {
		d, err := os.MkdirTemp("", "verif-run-")
		if err != nil {
			panic(err)
		}
		scratchRoot = d
	})
	return scratchRoot
}

// Cleanup removes the per-process scratch directory.
func Cleanup() {
	if scratchRoot != "" {
		os.RemoveAll(scratchRoot)
	}
}

var childSeq int
var childSeqMu sync.Mutex

type Options struct {
	Race bool
	Env  []string
	// Wrap, when set, is a command prefix (e.g. strace ...) put before the emuhost binary.
	Wrap []string
}

func StartChild(o Options) (*Child, error) {
	childSeqMu.Lock()
	childSeq++
	n := childSeq
	childSeqMu.Unlock()
	dir := filepath.Join(ScratchRoot(), fmt.Sprintf("child%04d", n))
	if err := os.MkdirAll(dir, 0o755); err != nil {
		return nil, err
	}
	bin := filepath.Join(BinDir, "emuhost")
	if o.Race {
		bin = filepath.Join(BinDir, "emuhost-race")
	}
	argv := append(append([]string{}, o.Wrap...), bin)
	cmd := exec.Command(argv[0], argv[1:]...)
	cmd.Dir = dir
	stdout, _ := os.Create(filepath.Join(dir, "stdout.txt"))
	stderr, _ := os.Create(filepath.Join(dir, "stderr.txt"))
	cmd.Stdout = stdout
	cmd.Stderr = stderr
	pr, pw, err := os.Pipe()
	if err != nil {
		return nil, err
	}
	cmd.ExtraFiles = []*os.File{pw}
	cmd.Env = append(os.Environ(), "GOTRACEBACK=all")
	if o.Race {
		cmd.Env = append(cmd.Env, "GORACE=halt_on_error=0 log_path="+filepath.Join(dir, "race"))
	}
	cmd.Env = append(cmd.Env, o.Env...)
	stdin, err := cmd.StdinPipe()
	if err != nil {
		return nil, err
	}
	if err := cmd.Start(); err != nil {
		return nil, err
	}
	pw.Close()
	stdout.Close()
	stderr.Close()
	c := &Child{Cmd: cmd, Dir: dir, Race: o.Race, stdin: stdin, pending: map[int]chan string{}, exited: make(chan struct{})}
	c.evCond = sync.NewCond(&c.evMu)
	go c.readLoop(pr)
	go func() {
		c.exitErr = cmd.Wait()
		close(c.exited)
		c.evMu.Lock()
		c.evCond.Broadcast()
		c.evMu.Unlock()
		// fail all pending requests
		c.mu.Lock()
		for k, ch := range c.pending {
			close(ch)
			delete(c.pending, k)
		}
		c.mu.Unlock()
	}()
	if _, _, ok := c.WaitEvent(0, func(e Event) bool { return e.Kind == "ready" }, 20*time.Second); !ok {
		c.Kill()
		return nil, errors.New("emuhost did not become ready: " + c.StderrTail(2000))
	}
	return c, nil
}

func (c *Child) readLoop(r *os.File) {
	br := bufio.NewReaderSize(r, 1<<20)
	for {
		line, err := br.ReadString('\n')
		if err != nil {
			r.Close()
			return
		}
		line = strings.TrimRight(line, "\n")
		if strings.HasPrefix(line, "r ") {
			rest := line[2:]
			sp := strings.IndexByte(rest, ' ')
			if sp < 0 {
				continue
			}
			seq, _ := strconv.Atoi(rest[:sp])
			c.mu.Lock()
			ch := c.pending[seq]
			delete(c.pending, seq)
			c.mu.Unlock()
			if ch != nil {
				ch <- rest[sp+1:]
			}
		} else if strings.HasPrefix(line, "e ") {
			f := strings.SplitN(line[2:], " ", 5)
			ev := Event{Kind: f[0]}
			switch ev.Kind {
			case "parked":
				if len(f) >= 5 {
					ev.Token, _ = strconv.ParseInt(f[1], 10, 64)
					ev.Point = f[2]
					ev.ID, _ = strconv.ParseInt(f[3], 10, 64)
					ev.Detail, _ = strconv.Unquote(f[4])
				}
			case "hit", "crash":
				if len(f) >= 4 {
					ev.Point = f[1]
					ev.ID, _ = strconv.ParseInt(f[2], 10, 64)
					ev.Detail, _ = strconv.Unquote(strings.Join(f[3:], " "))
				}
			}
			c.evMu.Lock()
			c.evLog = append(c.evLog, ev)
			c.evCond.Broadcast()
			c.evMu.Unlock()
		}
	}
}

// WaitEvent waits for an event at index >= from satisfying pred.
func (c *Child) WaitEvent(from int, pred func(Event) bool, timeout time.Duration) (Event, int, bool) {
	deadline := time.Now().Add(timeout)
	timer := time.AfterFunc(timeout, func() {
		c.evMu.Lock()
		c.evCond.Broadcast()
		c.evMu.Unlock()
	})
	defer timer.Stop()
	c.evMu.Lock()
	defer c.evMu.Unlock()
	i := from
	for {
		for ; i < len(c.evLog); i++ {
			if pred(c.evLog[i]) {
				return c.evLog[i], i, true
			}
		}
		if time.Now().After(deadline) {
			return Event{}, i, false
		}
		select {
		case <-c.exited:
			// drain what is there, then give up
			for ; i < len(c.evLog); i++ {
				if pred(c.evLog[i]) {
					return c.evLog[i], i, true
				}
			}
			return Event{}, i, false
		default:
		}
		c.evCond.Wait()
	}
}

// EventCount returns the current length of the event log (use as `from`).
func (c *Child) EventCount() int {
	c.evMu.Lock()
	defer c.evMu.Unlock()
	return len(c.evLog)
}

// EventsSince returns a copy of events from index from.
func (c *Child) EventsSince(from int) []Event {
	c.evMu.Lock()
	defer c.evMu.Unlock()
	if from > len(c.evLog) {
		from = len(c.evLog)
	}
	return append([]Event(nil), c.evLog[from:]...)
}

var ErrChildDead = errors.New("emuhost child exited")
var ErrCtlTimeout = errors.New("emuhost control request timed out")

// Do sends a control request and waits for the reply.
func (c *Child) Do(timeout time.Duration, format string, a ...any) (string, error) {
	ch := make(chan string, 1)
	c.mu.Lock()
	select {
	case <-c.exited:
		c.mu.Unlock()
		return "", ErrChildDead
	default:
	}
	c.seq++
	seq := c.seq
	c.pending[seq] = ch
	_, err := fmt.Fprintf(c.stdin, "%d "+format+"\n", append([]any{seq}, a...)...)
	c.mu.Unlock()
	if err != nil {
		return "", ErrChildDead
	}
	select {
	case r, ok := <-ch:
		if !ok {
			return "", ErrChildDead
		}
		if strings.HasPrefix(r, "ok") {
			return strings.TrimSpace(strings.TrimPrefix(r, "ok")), nil
		}
		return "", errors.New("emuhost: " + r)
	case <-time.After(timeout):
		c.mu.Lock()
		delete(c.pending, seq)
		c.mu.Unlock()
		return "", ErrCtlTimeout
	}
}

// MustDo is Do with a 10 s timeout, returning only the error.
func (c *Child) Ctl(format string, a ...any) error {
	_, err := c.Do(10*time.Second, format, a...)
	return err
}

var portMu sync.Mutex
var portRng = rand.New(rand.NewSource(time.Now().UnixNano() ^ int64(os.Getpid())<<20))
var recentPorts = map[int]time.Time{}

// FreePort picks a listening port below the kernel's ephemeral range (so that no outgoing connection of a
// concurrently running shard can take it as its source port between this probe and the child's listen).
func FreePort() (int, error) {
	portMu.Lock()
	defer portMu.Unlock()
	for i := 0; i < 2000; i++ {
		p := 10000 + portRng.Intn(22000)
		if t, used := recentPorts[p]; used && time.Since(t) < 2*time.Minute {
			continue
		}
		l, err := net.Listen("tcp", fmt.Sprintf(":%d", p))
		if err != nil {
			continue
		}
		l.Close()
		recentPorts[p] = time.Now()
		return p, nil
	}
	return 0, errors.New("no free port found")
}

// StartEmu starts a fresh emulator instance in the child on a kernel-chosen
// port. persist may be "".
func (c *Child) StartEmu(persist string) (name string, port int, err error) {
	c.mu.Lock()
	c.emuSeq++
	name = fmt.Sprintf("e%d", c.emuSeq)
	c.mu.Unlock()
	port, err = FreePort()
	if err != nil {
		return
	}
	err = c.StartEmuOn(name, port, persist)
	return
}

func (c *Child) StartEmuOn(name string, port int, persist string) error {
	_, err := c.Do(20*time.Second, "start %s %d %s", name, port, persist)
	if err != nil {
		return err
	}
	// wait until the port accepts
	for i := 0; i < 200; i++ {
		cn, e := net.DialTimeout("tcp", fmt.Sprintf("127.0.0.1:%d", port), time.Second)
		if e == nil {
			cn.Close()
			return nil
		}
		if !c.Alive() {
			return ErrChildDead
		}
		time.Sleep(5 * time.Millisecond)
	}
	return errors.New("emulator port does not accept connections")
}

func (c *Child) CloseEmu(name string, timeout time.Duration) (time.Duration, error) {
	r, err := c.Do(timeout, "close %s", name)
	if err != nil {
		return 0, err
	}
	us, _ := strconv.ParseInt(r, 10, 64)
	c.Ctl("forget %s", name)
	return time.Duration(us) * time.Microsecond, nil
}

func (c *Child) Alive() bool {
	select {
	case <-c.exited:
		return false
	default:
		return true
	}
}

func (c *Child) WaitExit(timeout time.Duration) bool {
	select {
	case <-c.exited:
		return true
	case <-time.After(timeout):
		return false
	}
}

// ExitStatus describes how the child ended ("" while alive).
func (c *Child) ExitStatus() string {
	select {
	case <-c.exited:
	default:
		return ""
	}
	if c.exitErr == nil {
		return "exit 0"
	}
	return c.exitErr.Error()
}

func (c *Child) Kill() {
	c.mu.Lock()
	c.stopping = true
	c.mu.Unlock()
	if c.Cmd.Process != nil {
		c.Cmd.Process.Kill()
	}
	c.WaitExit(5 * time.Second)
}

// Stop terminates the child (SIGKILL) and removes its scratch directory.
func (c *Child) Stop() {
	c.Kill()
	c.stdin.Close()
	os.RemoveAll(c.Dir)
}

// StopKeep terminates the child but keeps its directory (race logs).
func (c *Child) StopKeep() {
	c.Kill()
	c.stdin.Close()
}

// QuitGracefully asks the child to exit(0) so that the race detector flushes.
func (c *Child) QuitGracefully() {
	c.mu.Lock()
	fmt.Fprintf(c.stdin, "0 quit\n")
	c.mu.Unlock()
	if !c.WaitExit(10 * time.Second) {
		c.Kill()
	}
	c.stdin.Close()
}

// SigQuitDump sends SIGQUIT (goroutine dump to stderr) and returns the dump.
func (c *Child) SigQuitDump() string {
	if c.Alive() {
		c.Cmd.Process.Signal(syscall.SIGQUIT)
		c.WaitExit(10 * time.Second)
	}
	return c.StderrTail(60000)
}

func (c *Child) StderrTail(n int) string {
	b, err := os.ReadFile(filepath.Join(c.Dir, "stderr.txt"))
	if err != nil {
		return ""
	}
	if len(b) > n {
		b = b[len(b)-n:]
	}
	return string(b)
}

func (c *Child) StderrHead(n int) string {
	b, err := os.ReadFile(filepath.Join(c.Dir, "stderr.txt"))
	if err != nil {
		return ""
	}
	if len(b) > n {
		b = b[:n]
	}
	return string(b)
}

func (c *Child) StdoutTail(n int) string {
	b, err := os.ReadFile(filepath.Join(c.Dir, "stdout.txt"))
	if err != nil {
		return ""
	}
	if len(b) > n {
		b = b[len(b)-n:]
	}
	return string(b)
}

// ---- crash signatures --------------------------------------------------------

var reFrame = regexp.MustCompile(`(?m)^github\.com/jimsnab/go-redisemu\.(\(\*?\w+\)\.[\w.]+|[\w.]+)\(`)
var rePanic = regexp.MustCompile(`(?m)^(panic: |fatal error: )(.*)$`)

// CrashSignature condenses a Go panic trace into "class@function".
func CrashSignature(stderr string) (sig string, msg string) {
	m := rePanic.FindStringSubmatch(stderr)
	if m == nil {
		return "", ""
	}
	msg = m[2]
	class := panicClass(msg)
	fn := "?"
	// first repo frame after the panic line
	idx := strings.Index(stderr, m[0])
	// fatal errors print the runtime stack first; the faulting goroutine follows as "[running]"
	if j := strings.Index(stderr[idx:], "[running]:"); j >= 0 {
		idx += j
	}
	if fm := reFrame.FindStringSubmatch(stderr[idx:]); fm != nil {
		fn = cleanFn(fm[1])
	}
	return class + "@" + fn, msg
}

func cleanFn(s string) string {
	s = strings.ReplaceAll(s, "(*", "")
	s = strings.ReplaceAll(s, ")", "")
	s = strings.ReplaceAll(s, "(", "")
	// strip closure suffixes .func1.2
	re := regexp.MustCompile(`(\.func\d+)(\.\d+)*`)
	s = re.ReplaceAllString(s, "")
	return s
}

func panicClass(msg string) string {
	switch {
	case strings.Contains(msg, "index out of range"):
		return "index-out-of-range"
	case strings.Contains(msg, "slice bounds out of range"):
		return "slice-bounds"
	case strings.Contains(msg, "interface conversion"):
		return "interface-conversion"
	case strings.Contains(msg, "nil pointer dereference"):
		return "nil-deref"
	case strings.Contains(msg, "makeslice") || strings.Contains(msg, "len out of range") || strings.Contains(msg, "cap out of range"):
		return "makeslice"
	case strings.Contains(msg, "unhashable"):
		return "unhashable-key"
	case strings.Contains(msg, "out of memory") || strings.Contains(msg, "cannot allocate"):
		return "out-of-memory"
	case strings.Contains(msg, "all goroutines are asleep"):
		return "deadlock"
	case strings.Contains(msg, "concurrent map"):
		return "concurrent-map"
	case strings.Contains(msg, "integer divide by zero"):
		return "div-by-zero"
	case strings.Contains(msg, "stack overflow") || strings.Contains(msg, "stack exceeds"):
		return "stack-overflow"
	case strings.Contains(msg, "unlock of unlocked"):
		return "unlock-of-unlocked"
	case strings.Contains(msg, "close of closed channel"):
		return "close-of-closed-channel"
	case strings.Contains(msg, "send on closed channel"):
		return "send-on-closed-channel"
	}
	// explicit panic("...") in the code: use a slug of the message
	slug := regexp.MustCompile(`[^a-zA-Z]+`).ReplaceAllString(msg, "-")
	if len(slug) > 40 {
		slug = slug[:40]
	}
	return "panic-" + strings.Trim(slug, "-")
}

// ---- race reports ------------------------------------------------------------

type RaceReport struct {
	Sig  string // sorted pair of innermost repo functions
	Text string
}

var reRaceFn = regexp.MustCompile(`(?m)^\s+github\.com/jimsnab/go-redisemu\.(\(\*?\w+\)\.[\w.]+|[\w.]+)\(`)

// RaceReports parses race logs written by the child (call after it exited).
func (c *Child) RaceReports() []RaceReport {
	files, _ := filepath.Glob(filepath.Join(c.Dir, "race.*"))
	var out []RaceReport
	for _, f := range files {
		b, err := os.ReadFile(f)
		if err != nil {
			continue
		}
		out = append(out, ParseRaceLog(string(b))...)
	}
	return out
}

func ParseRaceLog(s string) []RaceReport {
	var out []RaceReport
	blocks := strings.Split(s, "WARNING: DATA RACE")
	for _, b := range blocks[1:] {
		if i := strings.Index(b, "=================="); i >= 0 {
			b = b[:i]
		}
		// sections: first access, "Previous ..." access; take innermost repo fn of each
		secs := regexp.MustCompile(`(?m)^(Previous [a-z ]+ at|Goroutine \d+ \(|\s*$)`).Split(b, -1)
		_ = secs
		parts := strings.SplitN(b, "\nPrevious ", 2)
		var fns []string
		for i, p := range parts {
			if i == 1 {
				if j := strings.Index(p, "\nGoroutine "); j >= 0 {
					p = p[:j]
				}
			}
			if m := reRaceFn.FindStringSubmatch(p); m != nil {
				fns = append(fns, cleanFn(m[1]))
			}
		}
		if len(fns) == 0 {
			// no repo frame in the access stacks: look anywhere (goroutine creation stacks)
			if m := reRaceFn.FindStringSubmatch(b); m != nil {
				fns = append(fns, "via:"+cleanFn(m[1]))
			} else {
				fns = append(fns, "no-repo-frame")
			}
		}
		sort.Strings(fns)
		out = append(out, RaceReport{Sig: strings.Join(fns, "<->"), Text: "WARNING: DATA RACE" + b})
	}
	return out
}
