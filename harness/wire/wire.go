// Package wire is a raw TCP client for the emulator with full control over
// how request bytes are cut into writes, and strict reply parsing.
package wire

import (
	"errors"
	"fmt"
	"io"
	"net"
	"os"
	"sync/atomic"
	"time"

	"verif/harness/resp"
)

var start = time.Now()

// Now is the single monotonic clock used for all history timestamps (ns).
func Now() int64 { return int64(time.Since(start)) }

var ErrTimeout = errors.New("timeout waiting for reply")

type Conn struct {
	C       net.Conn
	Proto   int
	buf     []byte
	Timeout time.Duration
	Port    int
	// Raw accumulates every byte received (when KeepRaw is set)
	KeepRaw bool
	Raw     []byte
	sent    atomic.Int64
}

func Dial(port int) (*Conn, error) {
	var c net.Conn
	var err error
	for i := 0; i < 3; i++ {
		c, err = net.DialTimeout("tcp", fmt.Sprintf("127.0.0.1:%d", port), 2*time.Second)
		if err == nil {
			break
		}
		time.Sleep(10 * time.Millisecond)
	}
	if err != nil {
		return nil, err
	}
	if tc, ok := c.(*net.TCPConn); ok {
		tc.SetNoDelay(true)
	}
	return &Conn{C: c, Proto: 2, Timeout: 5 * time.Second, Port: port}, nil
}

func (c *Conn) Close() { c.C.Close() }

// CloseRST closes the connection with SO_LINGER 0 (sends RST).
func (c *Conn) CloseRST() {
	if tc, ok := c.C.(*net.TCPConn); ok {
		tc.SetLinger(0)
	}
	c.C.Close()
}

func (c *Conn) CloseWrite() {
	if tc, ok := c.C.(*net.TCPConn); ok {
		tc.CloseWrite()
	}
}

func (c *Conn) Send(b []byte) error {
	c.C.SetWriteDeadline(time.Now().Add(10 * time.Second))
	n, err := c.C.Write(b)
	c.sent.Add(int64(n))
	return err
}

// SentBytes: bytes written so far (readable from another goroutine while SendCuts runs).
func (c *Conn) SentBytes() int64 { return c.sent.Load() }

// SendCuts writes b in segments ending at the given offsets (ascending,
// exclusive ends), sleeping delay between segments.
func (c *Conn) SendCuts(b []byte, cuts []int, delay time.Duration) error {
	prev := 0
	for _, cut := range cuts {
		if cut <= prev || cut >= len(b) {
			continue
		}
		if err := c.Send(b[prev:cut]); err != nil {
			return err
		}
		prev = cut
		if delay > 0 {
			time.Sleep(delay)
		}
	}
	return c.Send(b[prev:])
}

func (c *Conn) SendCmd(args ...string) error { return c.Send(resp.Cmd(args...)) }

// ReadValue reads exactly one reply value; returns the value and its raw bytes.
func (c *Conn) ReadValue(timeout time.Duration) (resp.Value, []byte, error) {
	deadline := time.Now().Add(timeout)
	for {
		if len(c.buf) > 0 {
			v, n, err := resp.Parse(c.buf, c.Proto)
			if err == nil {
				raw := append([]byte(nil), c.buf[:n]...)
				c.buf = c.buf[n:]
				return v, raw, nil
			}
			if err != resp.ErrIncomplete {
				return resp.Value{}, append([]byte(nil), c.buf...), err
			}
		}
		c.C.SetReadDeadline(deadline)
		tmp := make([]byte, 64*1024)
		n, err := c.C.Read(tmp)
		if n > 0 {
			c.buf = append(c.buf, tmp[:n]...)
			if c.KeepRaw {
				c.Raw = append(c.Raw, tmp[:n]...)
			}
			continue
		}
		if err != nil {
			if errors.Is(err, os.ErrDeadlineExceeded) {
				return resp.Value{}, nil, ErrTimeout
			}
			return resp.Value{}, nil, err
		}
	}
}

// Pending returns unparsed bytes currently buffered.
func (c *Conn) Pending() []byte { return c.buf }

// Quiet reads for d and returns any bytes that arrived (none expected).
func (c *Conn) Quiet(d time.Duration) []byte {
	c.C.SetReadDeadline(time.Now().Add(d))
	tmp := make([]byte, 4096)
	n, _ := c.C.Read(tmp)
	if n > 0 {
		c.buf = append(c.buf, tmp[:n]...)
	}
	return c.buf
}

func (c *Conn) Do(args ...string) (resp.Value, error) {
	if err := c.SendCmd(args...); err != nil {
		return resp.Value{}, err
	}
	v, _, err := c.ReadValue(c.Timeout)
	return v, err
}

// DoT is Do with timestamps from the shared clock.
func (c *Conn) DoT(args ...string) (v resp.Value, t0, t1 int64, err error) {
	t0 = Now()
	v, err = c.Do(args...)
	t1 = Now()
	return
}

// Pipeline sends all commands in one write and reads one reply per command.
func (c *Conn) Pipeline(cmds [][]string) ([]resp.Value, error) {
	var b []byte
	for _, cmd := range cmds {
		b = append(b, resp.Cmd(cmd...)...)
	}
	if err := c.Send(b); err != nil {
		return nil, err
	}
	out := make([]resp.Value, 0, len(cmds))
	for range cmds {
		v, _, err := c.ReadValue(c.Timeout)
		if err != nil {
			return out, err
		}
		out = append(out, v)
	}
	return out, nil
}

// IsClosedErr reports whether err means the peer closed/reset the connection.
func IsClosedErr(err error) bool {
	if err == nil {
		return false
	}
	if errors.Is(err, io.EOF) || errors.Is(err, net.ErrClosed) {
		return true
	}
	var ne *net.OpError
	if errors.As(err, &ne) {
		return !ne.Timeout()
	}
	return false
}

// Hello3 switches the connection to RESP3.
func (c *Conn) Hello3() error {
	c.Proto = 3 // the reply itself is RESP3
	v, err := c.Do("HELLO", "3")
	if err != nil {
		return err
	}
	if v.IsError() {
		c.Proto = 2
		return errors.New("HELLO 3 refused: " + v.String())
	}
	return nil
}

// ClientID returns CLIENT ID.
func (c *Conn) ClientID() (int64, error) {
	v, err := c.Do("CLIENT", "ID")
	if err != nil {
		return 0, err
	}
	if v.Kind != ':' {
		return 0, errors.New("CLIENT ID: unexpected reply " + v.String())
	}
	return v.Int, nil
}
