// Package resp is a strict RESP2/RESP3 reply parser and a request encoder.
// It is independent of the emulator's codec: it accepts exactly what a
// conforming client must be able to frame and rejects everything else.
package resp

import (
	"bytes"
	"errors"
	"fmt"
	"sort"
	"strconv"
	"strings"
)

var ErrIncomplete = errors.New("incomplete")

type Value struct {
	Kind  byte // one of + - : $ * _ , # ( ! = % ~ | >
	Str   []byte
	Int   int64
	Null  bool
	Elems []Value // arrays, sets, pushes; maps as k,v,k,v
}

type FrameError struct {
	Off int
	Msg string
}

func (e *FrameError) Error() string {
	return fmt.Sprintf("framing error at offset %d: %s", e.Off, e.Msg)
}

const maxLen = 1 << 30

// Parse parses one value from buf. proto is 2 or 3; with 2 any RESP3-only
// type byte is a framing error. Returns ErrIncomplete when more bytes are
// needed.
func Parse(buf []byte, proto int) (Value, int, error) {
	return parse(buf, 0, proto, 0)
}

func line(buf []byte, off int) ([]byte, int, error) {
	// a line ends with CRLF; a bare CR or LF inside is a framing error
	for i := off; i < len(buf); i++ {
		c := buf[i]
		if c == '\n' {
			return nil, 0, &FrameError{i, "bare LF inside a line"}
		}
		if c == '\r' {
			if i+1 >= len(buf) {
				return nil, 0, ErrIncomplete
			}
			if buf[i+1] != '\n' {
				return nil, 0, &FrameError{i, "bare CR inside a line"}
			}
			return buf[off:i], i + 2, nil
		}
	}
	return nil, 0, ErrIncomplete
}

func parseInt(b []byte, off int) (int64, error) {
	if len(b) == 0 {
		return 0, &FrameError{off, "empty integer"}
	}
	s := string(b)
	// canonical: optional '-', digits, no leading '+', no spaces
	for i, c := range b {
		if c == '-' && i == 0 && len(b) > 1 {
			continue
		}
		if c < '0' || c > '9' {
			return 0, &FrameError{off, "non-canonical integer " + strconv.Quote(s)}
		}
	}
	n, err := strconv.ParseInt(s, 10, 64)
	if err != nil {
		return 0, &FrameError{off, "integer out of range " + strconv.Quote(s)}
	}
	return n, nil
}

func parse(buf []byte, off int, proto int, depth int) (Value, int, error) {
	if depth > 64 {
		return Value{}, 0, &FrameError{off, "nesting too deep"}
	}
	if off >= len(buf) {
		return Value{}, 0, ErrIncomplete
	}
	k := buf[off]
	switch k {
	case '+', '-', ':', '$', '*':
	case '_', ',', '#', '(', '!', '=', '%', '~', '|', '>':
		if proto < 3 {
			return Value{}, 0, &FrameError{off, fmt.Sprintf("RESP3 type byte %q on a RESP2 connection", k)}
		}
	default:
		return Value{}, 0, &FrameError{off, fmt.Sprintf("unknown type byte %q", k)}
	}
	ln, next, err := line(buf, off+1)
	if err != nil {
		return Value{}, 0, err
	}
	v := Value{Kind: k}
	switch k {
	case '+', '-':
		v.Str = append([]byte(nil), ln...)
		return v, next, nil
	case ':':
		n, err := parseInt(ln, off+1)
		if err != nil {
			return Value{}, 0, err
		}
		v.Int = n
		return v, next, nil
	case '_':
		if len(ln) != 0 {
			return Value{}, 0, &FrameError{off, "null with payload"}
		}
		v.Null = true
		return v, next, nil
	case '#':
		if len(ln) != 1 || (ln[0] != 't' && ln[0] != 'f') {
			return Value{}, 0, &FrameError{off, "bad boolean"}
		}
		if ln[0] == 't' {
			v.Int = 1
		}
		return v, next, nil
	case ',':
		s := string(ln)
		if s != "inf" && s != "-inf" && s != "nan" {
			if _, err := strconv.ParseFloat(s, 64); err != nil || strings.ContainsAny(s, " +") && !strings.Contains(s, "e+") {
				return Value{}, 0, &FrameError{off, "bad double " + strconv.Quote(s)}
			}
		}
		v.Str = append([]byte(nil), ln...)
		return v, next, nil
	case '(':
		s := ln
		if len(s) > 0 && (s[0] == '-' || s[0] == '+') {
			s = s[1:]
		}
		if len(s) == 0 {
			return Value{}, 0, &FrameError{off, "bad big number"}
		}
		for _, c := range s {
			if c < '0' || c > '9' {
				return Value{}, 0, &FrameError{off, "bad big number"}
			}
		}
		v.Str = append([]byte(nil), ln...)
		return v, next, nil
	case '$', '!', '=':
		n, err := parseInt(ln, off+1)
		if err != nil {
			return Value{}, 0, err
		}
		if n == -1 && k == '$' {
			v.Null = true
			return v, next, nil
		}
		if n < 0 || n > maxLen {
			return Value{}, 0, &FrameError{off, "bad bulk length"}
		}
		end := next + int(n)
		if end+2 > len(buf) {
			return Value{}, 0, ErrIncomplete
		}
		if buf[end] != '\r' || buf[end+1] != '\n' {
			return Value{}, 0, &FrameError{end, "bulk payload not terminated by CRLF"}
		}
		v.Str = append([]byte(nil), buf[next:end]...)
		if k == '=' {
			if len(v.Str) < 4 || v.Str[3] != ':' {
				return Value{}, 0, &FrameError{off, "verbatim string without format prefix"}
			}
		}
		return v, end + 2, nil
	case '*', '~', '>', '%', '|':
		n, err := parseInt(ln, off+1)
		if err != nil {
			return Value{}, 0, err
		}
		if n == -1 && k == '*' {
			v.Null = true
			return v, next, nil
		}
		if n < 0 || n > maxLen {
			return Value{}, 0, &FrameError{off, "bad aggregate count"}
		}
		cnt := int(n)
		if k == '%' || k == '|' {
			cnt *= 2
		}
		v.Elems = make([]Value, 0, min(cnt, 1024))
		pos := next
		for i := 0; i < cnt; i++ {
			e, p, err := parse(buf, pos, proto, depth+1)
			if err != nil {
				return Value{}, 0, err
			}
			v.Elems = append(v.Elems, e)
			pos = p
		}
		if k == '|' {
			// attribute: followed by the actual value; the attribute is dropped
			return parse(buf, pos, proto, depth)
		}
		return v, pos, nil
	}
	return Value{}, 0, &FrameError{off, "unreachable"}
}

// Cmd encodes a command as an array of bulk strings.
func Cmd(args ...string) []byte {
	var b bytes.Buffer
	b.WriteString("*" + strconv.Itoa(len(args)) + "\r\n")
	for _, a := range args {
		b.WriteString("$" + strconv.Itoa(len(a)) + "\r\n")
		b.WriteString(a)
		b.WriteString("\r\n")
	}
	return b.Bytes()
}

func (v Value) IsError() bool { return v.Kind == '-' || v.Kind == '!' }
func (v Value) IsNull() bool  { return v.Null }
func (v Value) IsString() bool {
	return !v.Null && (v.Kind == '+' || v.Kind == '$' || v.Kind == '=')
}

// Text returns the textual content of string-like values (verbatim prefix
// stripped).
func (v Value) Text() string {
	if v.Kind == '=' && len(v.Str) >= 4 {
		return string(v.Str[4:])
	}
	return string(v.Str)
}

// ErrClass returns the first token of an error reply.
func (v Value) ErrClass() string {
	s := string(v.Str)
	if i := strings.IndexByte(s, ' '); i >= 0 {
		s = s[:i]
	}
	return s
}

// String renders a compact, unambiguous debugging form.
func (v Value) String() string {
	var b strings.Builder
	v.write(&b)
	return b.String()
}

func (v Value) write(b *strings.Builder) {
	if v.Null {
		b.WriteString("nil")
		return
	}
	switch v.Kind {
	case '+':
		b.WriteString("+" + strconv.Quote(string(v.Str)))
	case '-', '!':
		b.WriteString("-ERR(" + strconv.Quote(string(v.Str)) + ")")
	case ':':
		b.WriteString(strconv.FormatInt(v.Int, 10))
	case '#':
		if v.Int != 0 {
			b.WriteString("#t")
		} else {
			b.WriteString("#f")
		}
	case '$':
		s := v.Str
		if len(s) > 200 {
			b.WriteString(strconv.Quote(string(s[:200])) + fmt.Sprintf("...(%d bytes)", len(s)))
		} else {
			b.WriteString(strconv.Quote(string(s)))
		}
	case '=':
		b.WriteString("=" + strconv.Quote(string(v.Str)))
	case ',':
		b.WriteString("," + string(v.Str))
	case '(':
		b.WriteString("(" + string(v.Str))
	case '*', '~', '>', '%':
		open, cl := "[", "]"
		if v.Kind == '~' {
			open, cl = "~{", "}"
		} else if v.Kind == '%' {
			open, cl = "%{", "}"
		} else if v.Kind == '>' {
			open = ">["
		}
		b.WriteString(open)
		for i, e := range v.Elems {
			if i > 0 {
				if v.Kind == '%' && i%2 == 1 {
					b.WriteString(":")
				} else {
					b.WriteString(" ")
				}
			}
			e.write(b)
		}
		b.WriteString(cl)
	}
}

// Canon returns a canonical string in which null forms are unified, string
// kinds (+ $ =) compare by content, and the elements of sets and maps are
// sorted. With flatten, maps are rendered as flat arrays and sets as arrays
// (RESP2 view) before sorting is applied where `unordered` says so.
func (v Value) Canon() string {
	var b strings.Builder
	v.canon(&b)
	return b.String()
}

func (v Value) canon(b *strings.Builder) {
	if v.Null {
		b.WriteString("nil")
		return
	}
	switch v.Kind {
	case '+', '$', '=':
		b.WriteString("s" + strconv.Quote(v.Text()))
	case '-', '!':
		b.WriteString("E(" + v.ErrClass() + ")")
	case ':':
		b.WriteString("i" + strconv.FormatInt(v.Int, 10))
	case '#':
		b.WriteString("b" + strconv.FormatInt(v.Int, 10))
	case ',':
		b.WriteString("d" + string(v.Str))
	case '(':
		b.WriteString("n" + string(v.Str))
	case '*', '>':
		b.WriteString("[")
		for i, e := range v.Elems {
			if i > 0 {
				b.WriteString(" ")
			}
			e.canon(b)
		}
		b.WriteString("]")
	case '~':
		parts := make([]string, len(v.Elems))
		for i, e := range v.Elems {
			parts[i] = e.Canon()
		}
		sort.Strings(parts)
		b.WriteString("~{" + strings.Join(parts, " ") + "}")
	case '%':
		parts := make([]string, 0, len(v.Elems)/2)
		for i := 0; i+1 < len(v.Elems); i += 2 {
			parts = append(parts, v.Elems[i].Canon()+":"+v.Elems[i+1].Canon())
		}
		sort.Strings(parts)
		b.WriteString("%{" + strings.Join(parts, " ") + "}")
	}
}

// SortedElems returns the Canon() of each element, sorted (multiset view of
// an array/set reply).
func (v Value) SortedElems() []string {
	parts := make([]string, len(v.Elems))
	for i, e := range v.Elems {
		parts[i] = e.Canon()
	}
	sort.Strings(parts)
	return parts
}

// OnlyResp2 reports whether the raw bytes of a value use RESP2 types only.
func (v Value) OnlyResp2() bool {
	switch v.Kind {
	case '+', '-', ':', '$', '*':
	default:
		return false
	}
	for _, e := range v.Elems {
		if !e.OnlyResp2() {
			return false
		}
	}
	return true
}
