package main

import (
	"fmt"
	"strconv"
	"strings"
	"sync"
	"sync/atomic"
	"time"

	"verif/harness/host"
	"verif/harness/resp"
	"verif/harness/verdict"
	"verif/harness/wire"
)

func init() { register("C12", "fault_enumeration", checkC12) }

// ---- 1. timeouts ---------------------------------------------------------------------

func c12Timeouts(r *verdict.Run) {
	c, err := startChild(false)
	if err != nil {
		r.Inconclusive("cannot start child")
		return
	}
	defer c.Stop()
	e, err := startEmu(c, "")
	if err != nil {
		r.Inconclusive("infra: " + err.Error())
		return
	}
	can := newCanary(e.port)
	defer can.close()
	// a canary loop records the worst response time during the whole window
	stop := make(chan struct{})
	loopDone := make(chan struct{})
	// (the loop has ended before the canary's connection is closed and the child stopped, whichever way this function returns)
	defer func() { close(stop); <-loopDone }()
	var worst time.Duration
	var cmu sync.Mutex
	go func() {
		defer close(loopDone)
		for {
			select {
			case <-stop:
				return
			default:
			}
			t0 := time.Now()
			ok, _ := can.check(2 * time.Second)
			d := time.Since(t0)
			cmu.Lock()
			if !ok {
				d = 10 * time.Second
			}
			if d > worst {
				worst = d
			}
			cmu.Unlock()
			time.Sleep(5 * time.Millisecond)
		}
	}()
	timeouts := []string{"0.05", "0.1", "0.25", "1", "1.5", "0.001", "0.5", "0.0005", "0.0001", "0.000001", "1e-9"} // (anything above 0 is a finite timeout)
	var wg sync.WaitGroup
	for fi, f := range blkForms {
		for ti, t := range timeouts {
			wg.Add(1)
			go func(f blkForm, t string, n int) {
				defer wg.Done()
				w, err := newWaiter(e)
				if err != nil {
					return
				}
				defer w.cn.Close()
				key := fmt.Sprintf("tq-%d", n)
				cmd := f.args([]string{key}, t)
				if f.name == "BLMOVE" || f.name == "BRPOPLPUSH" {
					cmd = f.args([]string{key}, t)
				}
				secs, _ := strconv.ParseFloat(t, 64)
				want := time.Duration(secs * float64(time.Second))
				w.issue(cmd, want+8*time.Second)
				<-w.done
				r.Eval(1)
				el := time.Duration(w.t1 - w.t0)
				rep := map[string]any{"command": cmd, "elapsed_ms": el.Milliseconds(), "timeout_s": t}
				if w.err != nil {
					cmu.Lock()
					wst := worst
					cmu.Unlock()
					if wst < 200*time.Millisecond {
						r.Report("timeout/not-answered/"+f.name, fmt.Sprintf("%s: no reply within timeout + 8 s (%v) although the canary always answered within %v", cmdString(cmd), w.err, wst), rep)
					} else {
						r.Inconclusive("machine overloaded during the timeout test")
					}
					return
				}
				if !w.reply.Null {
					r.Report("timeout/not-null/"+f.name, fmt.Sprintf("%s on an empty list replied %s instead of null", cmdString(cmd), w.reply), rep)
				}
				if el < want-time.Millisecond {
					r.Report("timeout/too-early/"+f.name, fmt.Sprintf("%s completed after %v, before its timeout", cmdString(cmd), el), rep)
				}
				if el > want+3*time.Second {
					cmu.Lock()
					wst := worst
					cmu.Unlock()
					if wst < 100*time.Millisecond {
						r.Report("timeout/too-late/"+f.name, fmt.Sprintf("%s completed after %v (timeout %s) while the canary always answered within %v", cmdString(cmd), el, t, wst), rep)
					} else {
						r.Inconclusive("machine overloaded during the timeout test")
					}
				}
				r.Distinct("timeout/" + f.name + "/" + t)
			}(f, t, fi*10+ti)
		}
		// timeout 0 waits: still blocked after 1.5 s, then served by a push
		wg.Add(1)
		go func(f blkForm, n int) {
			defer wg.Done()
			w, err := newWaiter(e)
			if err != nil {
				return
			}
			defer w.cn.Close()
			key := fmt.Sprintf("zq-%d", n)
			cmd := f.args([]string{key}, "0")
			w.issue(cmd, 20*time.Second)
			r.Eval(1)
			if w.finished(1500 * time.Millisecond) {
				r.Report("timeout/zero-does-not-wait/"+f.name, fmt.Sprintf("%s completed with %s after %v although timeout 0 means wait indefinitely", cmdString(cmd), w.reply, time.Duration(w.t1-w.t0)), nil)
				return
			}
			p, _ := e.dial()
			p.Do("RPUSH", key, "el-z")
			p.Close()
			if !w.finished(3*time.Second) || len(elements(w.reply)) != 1 {
				r.Report("timeout/zero-not-served/"+f.name, fmt.Sprintf("%s was not served by a push after waiting 1.5 s: %s %v", cmdString(cmd), w.reply, w.err), nil)
			}
			r.Distinct("timeout/" + f.name + "/0")
		}(f, fi)
	}
	// the deadline is fixed when the command is issued: wake-ups that find nothing (an element pushed and taken again
	// inside one MULTI/EXEC of another client) must not extend it
	c.Ctl("watch blk:retry-failed")
	for fi, f := range blkForms {
		for ti, t := range []string{"0.5", "1"} {
			wg.Add(1)
			go func(f blkForm, t string, n int) {
				defer wg.Done()
				w, err := newWaiter(e)
				if err != nil {
					return
				}
				defer w.cn.Close()
				waker, err := e.dial()
				if err != nil {
					return
				}
				defer waker.Close()
				key := fmt.Sprintf("wq-%d", n)
				cmd := f.args([]string{key}, t)
				secs, _ := strconv.ParseFloat(t, 64)
				want := time.Duration(secs * float64(time.Second))
				from := c.EventCount()
				w.issue(cmd, 6*want+8*time.Second)
				wakes := 0
				for start := time.Now(); time.Since(start) < 5*want+time.Second; {
					if w.finished(want / 3) {
						break
					}
					waker.Pipeline([][]string{{"MULTI"}, {"RPUSH", key, "ghost"}, {"LPOP", key}, {"EXEC"}})
					wakes++
				}
				<-w.done
				r.Eval(1)
				el := time.Duration(w.t1 - w.t0)
				failedRetries := 0
				for _, ev := range c.EventsSince(from) {
					if ev.Kind == "hit" && ev.Point == "blk:retry-failed" && ev.ID == w.id {
						failedRetries++
					}
				}
				rep := map[string]any{"command": cmd, "elapsed_ms": el.Milliseconds(), "timeout_s": t, "wakeups_sent": wakes, "retries_that_found_nothing": failedRetries}
				if w.err != nil || !w.reply.Null {
					r.Report("timeout/woken-without-element/wrong-ending/"+f.name, fmt.Sprintf("%s with empty wake-ups: reply %s %v", cmdString(cmd), w.reply, w.err), rep)
					return
				}
				if el < want-time.Millisecond {
					r.Report("timeout/too-early/"+f.name, fmt.Sprintf("%s completed after %v, before its timeout (after %d empty wake-ups)", cmdString(cmd), el, failedRetries), rep)
				}
				if failedRetries == 0 {
					r.Count("wakeup_cases_without_an_observed_empty_retry", 1)
				} else if el > want+1500*time.Millisecond {
					cmu.Lock()
					wst := worst
					cmu.Unlock()
					if wst < 100*time.Millisecond {
						r.Report("timeout/extended-by-empty-wakeups/"+f.name, fmt.Sprintf("%s completed after %v: %d wake-ups that found nothing (every %v) pushed its timeout of %s back, although the canary always answered within %v", cmdString(cmd), el, failedRetries, want/3, t, wst), rep)
					} else {
						r.Inconclusive("machine overloaded during the timeout test")
					}
				}
				r.Distinct("timeout-with-empty-wakeups/" + f.name + "/" + t)
			}(f, t, fi*10+ti)
		}
	}
	// invalid timeouts are errors (and do not block)
	for _, f := range blkForms {
		// (a negative timeout is rejected by Redis; the emulator answers null at once and its own tests pin that,
		// so only "answers at once" is required for it here)
		for _, t := range []string{"-1", "-0.5", "abc", "", "1e400"} {
			cn, err := e.dial()
			if err != nil {
				continue
			}
			cn.Timeout = 3 * time.Second
			cmd := f.args([]string{"iq"}, t)
			v, err := cn.Do(cmd...)
			r.Eval(1)
			if err != nil {
				r.Report("timeout/invalid-timeout-no-reply/"+f.name, fmt.Sprintf("%s: %v", cmdString(cmd), err), nil)
			} else if !v.IsError() && !(strings.HasPrefix(t, "-") && v.Null) {
				r.Report("timeout/invalid-timeout-accepted/"+f.name, fmt.Sprintf("%s replied %s instead of an error", cmdString(cmd), v), nil)
			}
			r.Distinct("timeout-invalid/" + f.name + "/" + t)
			cn.Close()
		}
	}
	wg.Wait()
}

// ---- 2. CLIENT UNBLOCK ------------------------------------------------------------------

func c12Unblock(r *verdict.Run, race bool) {
	type scn struct {
		form  blkForm
		where string // not-blocked | before-register | after-register | before-capture | waiting | with-push | unknown-id
		mode  string // "" TIMEOUT ERROR
	}
	var all []scn
	for _, f := range blkForms {
		for _, where := range []string{"not-blocked", "before-begin", "before-register", "after-register", "before-capture", "waiting", "with-push", "unknown-id", "stale-then-block", "in-empty-wakeup-transaction", "kill-in-empty-wakeup-transaction", "in-serving-transaction", "ended-then-pushed-in-one-transaction", "killed-then-pushed-in-one-transaction"} {
			for _, mode := range []string{"", "TIMEOUT", "ERROR"} {
				if (where == "kill-in-empty-wakeup-transaction" || where == "killed-then-pushed-in-one-transaction") && mode != "" {
					continue
				}
				all = append(all, scn{f, where, mode})
			}
		}
	}
	r.Set("unblock_scenarios", len(all))
	parallel(len(all), 8, func(i int) {
		sc := all[i]
		c, err := startChild(race)
		if err != nil {
			r.Inconclusive("cannot start child")
			return
		}
		defer func() {
			if race {
				c.QuitGracefully()
				for _, rep := range c.RaceReports() {
					r.Report("race/"+rep.Sig, "race detector report during the CLIENT UNBLOCK scenarios:\n"+headLines(rep.Text, 40), nil)
				}
				os_RemoveAll(c.Dir)
			} else {
				c.Stop()
			}
		}()
		e, err := startEmu(c, "")
		if err != nil {
			r.Inconclusive("infra: " + err.Error())
			return
		}
		aux, _ := e.dial()
		defer aux.Close()
		s := &c11Scn{r: r, c: c, e: e, aux: aux, name: fmt.Sprintf("unblock/%s/%s/%s", sc.where, sc.form.name, sc.mode)}
		w, err := newWaiter(e)
		if err != nil {
			return
		}
		defer w.cn.Close()
		cmd := sc.form.args([]string{"q"}, "0")
		// every other scenario issues CLIENT UNBLOCK from a connection that has another database selected
		otherDB := i%2 == 1
		if otherDB {
			s.name += "/from-other-db"
		}
		unblock := func(id int64) resp.Value {
			a := []string{"CLIENT", "UNBLOCK", strconv.FormatInt(id, 10)}
			if sc.mode != "" {
				a = append(a, sc.mode)
			}
			if otherDB {
				s.do("SELECT", "3")
				defer s.do("SELECT", "0")
			}
			return s.do(a...)
		}
		// endedByUnblock: the target's command ended the way CLIENT UNBLOCK ends it
		endedBy := func() (bool, string) {
			if sc.mode == "ERROR" {
				return w.reply.IsError() && w.reply.ErrClass() == "UNBLOCKED", "an UNBLOCKED error"
			}
			return w.reply.Null, "a null reply"
		}
		// nextBlockIsClean: whatever happened to the request, it is used up: a new block on the same connection waits
		// (it is not ended by a leftover request) and is served by a push
		nextBlockIsClean := func() {
			s.do("DEL", "q", "dst")
			w.issue(cmd, 10*time.Second)
			if w.finished(c11Settle) {
				r.Report("unblock/leftover-request-ends-the-next-block", fmt.Sprintf("%s: the next blocking command on the same connection ended at once with %s although nobody unblocked it", s.name, w.reply), s.rep())
				return
			}
			s.do("RPUSH", "q", "el-9")
			s.expectServed(w, "el-9", "unblock/target-not-served-afterwards")
		}
		r.Eval(1)
		switch sc.where {
		case "ended-then-pushed-in-one-transaction", "killed-then-pushed-in-one-transaction":
			// the target's block is ended (CLIENT UNBLOCK / CLIENT KILL) by a transaction that pushes afterwards: while EXEC
			// owns the database the target cannot leave the wait queue, so the push still finds it at the head and hands it
			// the wake-up. The target leaves unserved - the element belongs to the second waiter behind it.
			second, err := newWaiter(e)
			if err != nil {
				return
			}
			defer second.cn.Close()
			// (a third client blocks first and is served before anything else happens: the target and the second waiter
			// have then joined a wait queue that existed already, and the target has become its head)
			front, err := newWaiter(e)
			if err != nil {
				return
			}
			defer front.cn.Close()
			for _, ww := range []*waiter{front, w, second} {
				from := c.EventCount()
				c.Ctl("watch blk:before-wait")
				ww.issue(cmd, 15*time.Second)
				if _, _, f := c.WaitEvent(from, func(ev host.Event) bool { return ev.Kind == "hit" && ev.Point == "blk:before-wait" && ev.ID == ww.id }, 5*time.Second); !f {
					r.Inconclusive("waiter did not reach blk:before-wait")
					return
				}
				time.Sleep(5 * time.Millisecond)
			}
			s.do("RPUSH", "q", "el-0")
			if !s.expectServed(front, "el-0", "unblock/first-waiter-not-served") {
				return
			}
			s.do("DEL", "dst")
			req := []string{"CLIENT", "UNBLOCK", strconv.FormatInt(w.id, 10)}
			if sc.mode != "" {
				req = append(req, sc.mode)
			}
			if sc.where == "killed-then-pushed-in-one-transaction" {
				req = []string{"CLIENT", "KILL", "ID", strconv.FormatInt(w.id, 10)}
			}
			s.do("MULTI")
			s.do(req...)
			for f := 0; f < 300; f++ {
				s.aux.SendCmd("SET", "filler", strconv.Itoa(f))
			}
			for f := 0; f < 300; f++ {
				s.aux.ReadValue(5 * time.Second)
			}
			s.do("RPUSH", "q", "el-1")
			ex := s.do("EXEC")
			if ex.Kind != '*' || len(ex.Elems) != 302 {
				r.Report("unblock/in-transaction/unexpected-exec-reply", fmt.Sprintf("%s: EXEC replied %s", s.name, ex), s.rep())
				return
			}
			w.finished(3 * time.Second)
			got := elements(w.reply)
			if len(got) == 1 && w.err == nil {
				// the target took the element after all (the request lost): the second waiter is served by the next push
				s.do("RPUSH", "q", "el-2")
				s.expectServed(second, "el-2", "unblock/second-waiter-not-served")
			} else {
				s.expectServed(second, "el-1", "unblock/element-stays-while-the-next-waiter-is-blocked")
			}
			r.Distinct(fmt.Sprintf("%s/target-took-the-element=%v", s.name, len(got) == 1))
		case "in-serving-transaction":
			// the request is accepted while the push that serves the target is already under way: one transaction pushes
			// (the target is woken but cannot pop before EXEC is over) and then unblocks the target. The target ends once
			// - served or unblocked, the element conserved - and the request must not linger for its next block.
			from := c.EventCount()
			c.Ctl("watch blk:before-wait")
			w.issue(cmd, 15*time.Second)
			if _, _, f := c.WaitEvent(from, func(ev host.Event) bool { return ev.Kind == "hit" && ev.Point == "blk:before-wait" && ev.ID == w.id }, 5*time.Second); !f {
				r.Inconclusive("waiter did not reach blk:before-wait")
				return
			}
			time.Sleep(5 * time.Millisecond)
			req := []string{"CLIENT", "UNBLOCK", strconv.FormatInt(w.id, 10)}
			if sc.mode != "" {
				req = append(req, sc.mode)
			}
			s.do("MULTI")
			s.do("RPUSH", "q", "el-1")
			for f := 0; f < 200; f++ {
				s.aux.SendCmd("SET", "filler", strconv.Itoa(f))
			}
			for f := 0; f < 200; f++ {
				s.aux.ReadValue(5 * time.Second)
			}
			s.do(req...)
			ex := s.do("EXEC")
			if ex.Kind != '*' || len(ex.Elems) != 202 {
				r.Report("unblock/in-transaction/unexpected-exec-reply", fmt.Sprintf("%s: EXEC replied %s", s.name, ex), s.rep())
				return
			}
			if !w.finished(3 * time.Second) {
				r.Report("unblock/race-with-push/target-stays-blocked", fmt.Sprintf("%s: after MULTI; RPUSH; CLIENT UNBLOCK (reply %s); EXEC the target is still blocked", s.name, ex.Elems[201]), s.rep())
				return
			}
			got := elements(w.reply)
			ll, dst := s.do("LLEN", "q"), s.do("LLEN", "dst")
			kept := ll.Int + dst.Int
			if sc.form.name != "BLMOVE" && sc.form.name != "BRPOPLPUSH" {
				kept += int64(len(got))
			}
			if kept != 1 {
				r.Report("unblock/race-with-push/element-lost-or-duplicated", fmt.Sprintf("%s: target reply %s, LLEN q = %s, LLEN dst = %s", s.name, w.reply, ll, dst), s.rep())
			}
			r.Distinct(fmt.Sprintf("%s/served=%v/unblock-reply=%d", s.name, len(got) == 1, ex.Elems[201].Int))
			nextBlockIsClean()
		case "unknown-id":
			if v := unblock(987654); v.Kind != ':' || v.Int != 0 {
				r.Report("unblock/unknown-id-not-0", fmt.Sprintf("%s: CLIENT UNBLOCK of an unknown id replied %s", s.name, v), s.rep())
			}
		case "not-blocked":
			// the target is connected and idle
			v := unblock(w.id)
			if v.Kind != ':' || v.Int != 0 {
				r.Report("unblock/reports-1-for-idle-client", fmt.Sprintf("%s: the target is not blocked but CLIENT UNBLOCK replied %s", s.name, v), s.rep())
			}
			// the target must be unaffected: a normal command works, and a later block is not ended by a stale token
			w.issue([]string{"PING"}, 3*time.Second)
			if !w.finished(3*time.Second) || w.reply.Text() != "PONG" {
				r.Report("unblock/idle-target-disturbed", fmt.Sprintf("%s: PING on the target afterwards: %s %v", s.name, w.reply, w.err), s.rep())
				return
			}
			w.issue(cmd, 10*time.Second)
			if w.finished(c11Settle) {
				r.Report("unblock/stale-unblock-ends-later-block", fmt.Sprintf("%s: a block started after the CLIENT UNBLOCK ended spontaneously with %s", s.name, w.reply), s.rep())
				return
			}
			s.do("RPUSH", "q", "el-1")
			s.expectServed(w, "el-1", "unblock/target-not-served-afterwards")
		case "stale-then-block":
			// unblock while idle, twice, then block: must wait and be served normally
			unblock(w.id)
			unblock(w.id)
			w.issue(cmd, 10*time.Second)
			if w.finished(c11Settle) {
				r.Report("unblock/stale-unblock-ends-later-block", fmt.Sprintf("%s: a block started after two CLIENT UNBLOCKs ended spontaneously with %s", s.name, w.reply), s.rep())
				return
			}
			s.do("RPUSH", "q", "el-1")
			s.expectServed(w, "el-1", "unblock/target-not-served-afterwards")
		case "before-begin", "before-register", "after-register", "before-capture":
			// the command has been issued but the client has not captured itself yet
			tok, parked := s.parkAt(w, "blk:"+sc.where, cmd)
			if !parked {
				r.Inconclusive("hook point blk:" + sc.where + " not reached")
				return
			}
			v := unblock(w.id)
			s.release(tok)
			if v.Kind == ':' && v.Int == 1 {
				// it claims to have unblocked the client: then the command must end because of it
				if !w.finished(3 * time.Second) {
					r.Report("unblock/reports-1-but-target-stays-blocked/"+sc.where, fmt.Sprintf("%s: CLIENT UNBLOCK replied 1 while the target was between issuing the command and waiting, but the target stays blocked", s.name), s.rep())
					return
				}
				if ok, what := endedBy(); !ok {
					r.Report("unblock/wrong-ending", fmt.Sprintf("%s: expected %s, the target got %s", s.name, what, w.reply), s.rep())
				}
			} else {
				// 0: the target must be unaffected: it blocks and is served by a push
				if w.finished(c11Settle) {
					r.Report("unblock/reports-0-but-target-ended", fmt.Sprintf("%s: CLIENT UNBLOCK replied %s but the target ended with %s", s.name, v, w.reply), s.rep())
					return
				}
				s.do("RPUSH", "q", "el-1")
				s.expectServed(w, "el-1", "unblock/target-not-served-afterwards")
			}
		case "in-empty-wakeup-transaction", "kill-in-empty-wakeup-transaction":
			// the request is accepted in the middle of a wake-up that finds nothing: one transaction of another client
			// pushes (which wakes the target), unblocks or kills the target, and takes the element away again. The target
			// cannot pop before EXEC is over; what CLIENT UNBLOCK replied must still decide how its block ends.
			from := c.EventCount()
			c.Ctl("watch blk:before-wait")
			w.issue(cmd, 15*time.Second)
			if _, _, f := c.WaitEvent(from, func(ev host.Event) bool { return ev.Kind == "hit" && ev.Point == "blk:before-wait" && ev.ID == w.id }, 5*time.Second); !f {
				r.Inconclusive("waiter did not reach blk:before-wait")
				return
			}
			time.Sleep(5 * time.Millisecond)
			req := []string{"CLIENT", "UNBLOCK", strconv.FormatInt(w.id, 10)}
			if sc.mode != "" {
				req = append(req, sc.mode)
			}
			kill := sc.where == "kill-in-empty-wakeup-transaction"
			if kill {
				req = []string{"CLIENT", "KILL", "ID", strconv.FormatInt(w.id, 10)}
			}
			s.do("MULTI")
			s.do("RPUSH", "q", "ghost")
			s.do(req...)
			s.do("LPOP", "q")
			ex := s.do("EXEC")
			if ex.Kind != '*' || len(ex.Elems) != 3 || ex.Elems[2].Text() != "ghost" {
				r.Report("unblock/in-transaction/unexpected-exec-reply", fmt.Sprintf("%s: EXEC replied %s", s.name, ex), s.rep())
				return
			}
			v := ex.Elems[1]
			if kill {
				// the killed client must stop competing: its connection ends, and a later push stays in the list
				w.finished(3 * time.Second)
				time.Sleep(100 * time.Millisecond)
				s.do("RPUSH", "q", "el-1")
				time.Sleep(c11Settle)
				ll := s.do("LLEN", "q")
				if ll.Int != 1 {
					r.Report("kill/in-transaction/killed-client-still-competes", fmt.Sprintf("%s: CLIENT KILL inside the transaction replied %s; a push after it: LLEN q = %s, LLEN dst = %s, the killed client read %s (%v)", s.name, v, ll, s.do("LLEN", "dst"), w.reply, w.err), s.rep())
				}
				break
			}
			if v.Kind == ':' && v.Int == 1 {
				if !w.finished(3 * time.Second) {
					r.Report("unblock/reports-1-but-target-stays-blocked/in-empty-wakeup-transaction", fmt.Sprintf("%s: CLIENT UNBLOCK inside MULTI; RPUSH; CLIENT UNBLOCK; LPOP; EXEC replied 1, but the target stays blocked", s.name), s.rep())
					return
				}
				if ok, what := endedBy(); !ok {
					r.Report("unblock/wrong-ending", fmt.Sprintf("%s: expected %s, the target got %s", s.name, what, w.reply), s.rep())
				}
			} else {
				if w.finished(c11Settle) {
					r.Report("unblock/reports-0-but-target-ended", fmt.Sprintf("%s: CLIENT UNBLOCK replied %s but the target ended with %s", s.name, v, w.reply), s.rep())
					return
				}
				s.do("RPUSH", "q", "el-1")
				s.expectServed(w, "el-1", "unblock/target-not-served-afterwards")
			}
		case "waiting", "with-push":
			from := c.EventCount()
			c.Ctl("watch blk:before-wait")
			w.issue(cmd, 10*time.Second)
			if _, _, f := c.WaitEvent(from, func(ev host.Event) bool { return ev.Kind == "hit" && ev.Point == "blk:before-wait" && ev.ID == w.id }, 5*time.Second); !f {
				r.Inconclusive("waiter did not reach blk:before-wait")
				return
			}
			time.Sleep(5 * time.Millisecond) // it is in (or entering) the select now
			if sc.where == "with-push" {
				// a push and an unblock race: the target ends exactly once, either served or unblocked; the element is conserved
				done := make(chan resp.Value, 1)
				go func() {
					p, _ := e.dial()
					defer p.Close()
					v, _ := p.Do("RPUSH", "q", "el-1")
					done <- v
				}()
				v := unblock(w.id)
				<-done
				if !w.finished(3 * time.Second) {
					r.Report("unblock/race-with-push/target-stays-blocked", fmt.Sprintf("%s: after a concurrent push and CLIENT UNBLOCK (reply %s) the target is still blocked", s.name, v), s.rep())
					return
				}
				got := elements(w.reply)
				ll := s.do("LLEN", "q")
				dst := s.do("LLEN", "dst")
				moves := sc.form.name == "BLMOVE" || sc.form.name == "BRPOPLPUSH"
				kept := ll.Int + dst.Int
				if !moves {
					kept += int64(len(got))
				}
				if kept != 1 {
					r.Report("unblock/race-with-push/element-lost-or-duplicated", fmt.Sprintf("%s: target reply %s, LLEN q = %s, LLEN dst = %s", s.name, w.reply, ll, dst), s.rep())
				}
				r.Distinct(fmt.Sprintf("%s/served=%v/unblock-reply=%d", s.name, len(got) == 1, v.Int))
				nextBlockIsClean()
				return
			}
			v := unblock(w.id)
			if v.Kind != ':' || v.Int != 1 {
				r.Report("unblock/reports-0-for-blocked-client", fmt.Sprintf("%s: the target is blocked but CLIENT UNBLOCK replied %s", s.name, v), s.rep())
			}
			if !w.finished(3 * time.Second) {
				r.Report("unblock/blocked-target-not-released", fmt.Sprintf("%s: the target is still blocked 3 s after CLIENT UNBLOCK (reply %s)", s.name, v), s.rep())
				return
			}
			if ok, what := endedBy(); !ok {
				r.Report("unblock/wrong-ending", fmt.Sprintf("%s: expected %s, the target got %s", s.name, what, w.reply), s.rep())
			}
			// afterwards the connection works normally and can block again
			w.issue([]string{"PING"}, 3*time.Second)
			if !w.finished(3*time.Second) || w.reply.Text() != "PONG" {
				r.Report("unblock/connection-unusable-afterwards", fmt.Sprintf("%s: PING afterwards: %s %v", s.name, w.reply, w.err), s.rep())
				return
			}
			w.issue(cmd, 10*time.Second)
			if w.finished(c11Settle) {
				r.Report("unblock/second-block-ended-spuriously", fmt.Sprintf("%s: blocking again ended at once with %s", s.name, w.reply), s.rep())
				return
			}
			s.do("RPUSH", "q", "el-2")
			s.expectServed(w, "el-2", "unblock/target-not-served-afterwards")
		}
		r.Distinct(s.name)
	})
}

// ---- 3. disconnect / kill of a blocked client ----------------------------------------------

func c12Disconnect(r *verdict.Run) {
	type scn struct {
		form  blkForm
		how   string // close | rst | half-close | kill
		where string // waiting | after-register | before-wait-parked
	}
	var all []scn
	for _, f := range blkForms {
		for _, how := range []string{"close", "rst", "half-close", "kill"} {
			for _, where := range []string{"waiting", "parked-before-begin", "parked-before-register", "parked-after-register", "parked-before-capture"} {
				all = append(all, scn{f, how, where})
			}
		}
	}
	r.Set("disconnect_scenarios", len(all))
	parallel(len(all), 8, func(i int) {
		sc := all[i]
		c, err := startChild(false)
		if err != nil {
			r.Inconclusive("cannot start child")
			return
		}
		defer c.Stop()
		e, err := startEmu(c, "")
		if err != nil {
			r.Inconclusive("infra: " + err.Error())
			return
		}
		aux, _ := e.dial()
		defer aux.Close()
		s := &c11Scn{r: r, c: c, e: e, aux: aux, name: fmt.Sprintf("disconnect/%s/%s/%s", sc.how, sc.where, sc.form.name)}
		w, err := newWaiter(e)
		if err != nil {
			return
		}
		cmd := sc.form.args([]string{"q"}, "0")
		var tok int64
		switch sc.where {
		case "waiting":
			from := c.EventCount()
			c.Ctl("watch blk:before-wait")
			w.issue(cmd, 10*time.Second)
			if _, _, f := c.WaitEvent(from, func(ev host.Event) bool { return ev.Kind == "hit" && ev.Point == "blk:before-wait" && ev.ID == w.id }, 5*time.Second); !f {
				r.Inconclusive("waiter did not reach blk:before-wait")
				return
			}
			time.Sleep(5 * time.Millisecond)
		default:
			point := "blk:" + strings.TrimPrefix(sc.where, "parked-")
			var parked bool
			tok, parked = s.parkAt(w, point, cmd)
			if !parked {
				r.Inconclusive("hook point " + point + " not reached")
				return
			}
		}
		// the fault
		switch sc.how {
		case "close":
			w.cn.Close()
		case "rst":
			w.cn.CloseRST()
		case "half-close":
			w.cn.CloseWrite()
		case "kill":
			if i%2 == 1 {
				// the killer has another database selected
				s.do("SELECT", "5")
			}
			s.do("CLIENT", "KILL", "ID", strconv.FormatInt(w.id, 10))
			s.do("SELECT", "0")
		}
		s.logf("fault %s applied to client %d", sc.how, w.id)
		if tok != 0 {
			time.Sleep(20 * time.Millisecond) // the emulator notices the fault while the client is parked
			s.release(tok)
		}
		time.Sleep(100 * time.Millisecond) // let the emulator notice (bounded observation)
		// now an element arrives: it must stay available for live consumers
		s.do("RPUSH", "q", "el-1")
		time.Sleep(150 * time.Millisecond)
		live, _ := e.dial()
		defer live.Close()
		live.Proto = 3
		live.Timeout = 3 * time.Second
		v, err := live.Do("BLPOP", "q", "1")
		r.Eval(1)
		s.logf("live consumer BLPOP q 1 -> %s %v", v, err)
		if err != nil || len(elements(v)) != 1 {
			dst := s.do("LRANGE", "dst", "0", "-1")
			r.Report("disconnect/element-swallowed-by-dead-client/"+sc.how+"/"+sc.where, fmt.Sprintf("%s: after the blocked client was %s, RPUSH q el-1 was not available to a live consumer (BLPOP q 1 -> %s %v; dst = %s): the dead client took it", s.name, sc.how, v, err, dst), s.rep())
		}
		if sc.how != "half-close" {
			w.cn.Close()
		} else {
			w.cn.Close()
		}
		r.Distinct(s.name)
	})
}

// ---- 4. re-use and MULTI ------------------------------------------------------------------------

func c12Reuse(r *verdict.Run) {
	c, err := startChild(false)
	if err != nil {
		r.Inconclusive("cannot start child")
		return
	}
	defer c.Stop()
	e, err := startEmu(c, "")
	if err != nil {
		r.Inconclusive("infra: " + err.Error())
		return
	}
	aux, _ := e.dial()
	defer aux.Close()
	for _, f := range blkForms {
		w, err := newWaiter(e)
		if err != nil {
			return
		}
		s := &c11Scn{r: r, c: c, e: e, aux: aux, name: "reuse/" + f.name}
		for cycle := 0; cycle < 20; cycle++ {
			r.Eval(1)
			switch cycle % 3 {
			case 0: // ends by timeout
				w.issue(f.args([]string{"rq"}, "0.02"), 5*time.Second)
				if !w.finished(5*time.Second) || !w.reply.Null {
					r.Report("reuse/timeout-cycle/"+f.name, fmt.Sprintf("cycle %d: %s %v", cycle, w.reply, w.err), s.rep())
					return
				}
			case 1: // ends by a push
				w.issue(f.args([]string{"rq"}, "0"), 5*time.Second)
				time.Sleep(3 * time.Millisecond)
				s.do("RPUSH", "rq", fmt.Sprintf("el-%d", cycle))
				if !w.finished(5*time.Second) || len(elements(w.reply)) != 1 {
					r.Report("reuse/push-cycle/"+f.name, fmt.Sprintf("cycle %d: %s %v", cycle, w.reply, w.err), s.rep())
					return
				}
				s.do("DEL", "dst")
			case 2: // ends by CLIENT UNBLOCK
				from := c.EventCount()
				c.Ctl("watch blk:before-wait")
				w.issue(f.args([]string{"rq"}, "0"), 5*time.Second)
				c.WaitEvent(from, func(ev host.Event) bool { return ev.Kind == "hit" && ev.Point == "blk:before-wait" && ev.ID == w.id }, 3*time.Second)
				time.Sleep(3 * time.Millisecond)
				s.do("CLIENT", "UNBLOCK", strconv.FormatInt(w.id, 10))
				if !w.finished(5 * time.Second) {
					r.Report("reuse/unblock-cycle/"+f.name, fmt.Sprintf("cycle %d: still blocked after CLIENT UNBLOCK", cycle), s.rep())
					return
				}
			}
			// a normal command in between
			w.issue([]string{"INCR", "reuse-counter"}, 3*time.Second)
			if !w.finished(3*time.Second) || w.reply.Kind != ':' {
				r.Report("reuse/normal-command-after-block/"+f.name, fmt.Sprintf("cycle %d: INCR -> %s %v", cycle, w.reply, w.err), s.rep())
				return
			}
		}
		r.Distinct("reuse/" + f.name)
		w.cn.Close()
		// inside MULTI/EXEC a blocking command never waits (null on an empty list, element otherwise), whatever else the
		// transaction contains before it: a queued SELECT to another (used, never used, or the own) database, WATCH before
		// MULTI, a long timeout instead of 0
		cn, _ := e.dial()
		cn.Timeout = 5 * time.Second
		cn.Proto = 3
		for pi, prelude := range [][][]string{nil, {{"SELECT", "1"}}, {{"SELECT", "1"}, {"SELECT", "0"}}, {{"SELECT", strconv.Itoa(5 + len(f.name)%9)}}, {{"SELECT", "0"}}, {{"SELECT", "2"}, {"SET", "other", "v"}}} {
			to := []string{"0", "30"}[pi%2]
			prog := [][]string{{"WATCH", "unrelated"}, {"MULTI"}}
			prog = append(prog, prelude...)
			prog = append(prog, f.args([]string{"emptyq"}, to), []string{"RPUSH", "mq", "el-m"}, f.args([]string{"mq"}, to), []string{"DEL", "mq", "dst"}, []string{"EXEC"})
			vs, err := cn.Pipeline(prog)
			r.Eval(1)
			tag := fmt.Sprintf("%s/prelude-%d", f.name, pi)
			if err != nil {
				r.Report("multi/blocking-command-blocks-inside-exec/"+tag, fmt.Sprintf("%s did not complete within 5 s (nobody pushes): %v", progString(prog), err), nil)
				cn.Close()
				cn, _ = e.dial()
				cn.Timeout = 5 * time.Second
				cn.Proto = 3
				continue
			}
			ex := vs[len(vs)-1]
			np := len(prelude)
			if ex.Kind != '*' || len(ex.Elems) != np+4 || !ex.Elems[np].Null || len(elements(ex.Elems[np+2])) != 1 {
				r.Report("multi/blocking-command-reply-inside-exec/"+tag, fmt.Sprintf("%s: EXEC replied %s (expected [.., null, 1, the element, n])", progString(prog), ex), nil)
			}
			cn.Do("SELECT", "0")
			r.Distinct("multi/" + tag)
		}
		r.Distinct("multi/" + f.name)
		cn.Close()
	}
}

var _ = wire.Now

func checkC12(r *verdict.Run) {
	r.Rule = "fault sequences against blocked clients, for all five blocking commands: (1) timeouts 1e-9..1.5 s (anything above 0 is finite) must end with null not before t and within t+3 s (late only counts when a canary loop answered within 100 ms throughout), also under wake-ups that find nothing (within t+1.5 s), timeout 0 still blocked after 1.5 s then served, invalid timeouts refused; " +
		"(2) CLIENT UNBLOCK [TIMEOUT|ERROR] - every other time from a connection in another database - delivered while the target is idle, parked before it counts as blocked / before registration / after registration / before capture, waiting, racing a push, unknown id, stale unblock before a later block: reply 1 iff the target's command ends because of it, 0 leaves it unaffected; " +
		"(3) TCP close / RST / half-close / CLIENT KILL of a blocked client (waiting or parked at any of those stages), then a push: the element must reach a live consumer; (4) 20 block cycles per connection ending by timeout, push and unblock with normal commands in between; blocking commands inside MULTI/EXEC return at once; " +
		"(6) clients that block for a few milliseconds over and over while others run CLIENT LIST in a loop (a yield inside the state check of CLIENT LIST lets a block begin in the middle of it): every block ends on time and the connections keep working; (5) three clients blocked on one key, the two later ones end their blocks in every pair of ways: the next push belongs to the first. distinct = scenarios"
	c12Timeouts(r)
	c12Unblock(r, false)
	c12Disconnect(r)
	c12Reuse(r)
	c12EndingsBehindLiveWaiter(r)
	c12InspectedWhileBlocking(r, tierPick(r, 150, 1500))
	if r.Tier == "thorough" {
		c12Unblock(r, true)
	}
	r.Assume("bounded observations: 400 ms for 'stays blocked', 3 s for 'is released/served', 100-150 ms for the emulator to notice a closed socket")
}

// c12EndingsBehindLiveWaiter: three clients block on one key; the two that came later end their blocks (by CLIENT
// UNBLOCK, timeout, disconnect, CLIENT KILL - the middle one first, then the last one) while the first keeps waiting.
// Ending blocks must not disturb the clients that are still waiting: the next push belongs to the first client.
func c12EndingsBehindLiveWaiter(r *verdict.Run) {
	ways := []string{"unblock", "timeout", "close", "kill"}
	type scn struct {
		form   blkForm
		b, c   string
		killer int
	}
	var all []scn
	for fi, f := range blkForms {
		for i, b := range ways {
			all = append(all, scn{f, b, ways[(i+1+fi)%len(ways)], fi})
		}
	}
	parallel(len(all), 8, func(i int) {
		sc := all[i]
		c, err := startChild(false)
		if err != nil {
			r.Inconclusive("cannot start child")
			return
		}
		defer c.Stop()
		e, err := startEmu(c, "")
		if err != nil {
			r.Inconclusive("infra: " + err.Error())
			return
		}
		aux, _ := e.dial()
		defer aux.Close()
		s := &c11Scn{r: r, c: c, e: e, aux: aux, name: fmt.Sprintf("endings-behind-live-waiter/%s/%s-then-%s", sc.form.name, sc.b, sc.c)}
		var ws []*waiter
		for k := 0; k < 3; k++ {
			w, err := newWaiter(e)
			if err != nil {
				return
			}
			defer w.cn.Close()
			ws = append(ws, w)
		}
		cmdFor := func(how string) []string {
			if how == "timeout" {
				return sc.form.args([]string{"q"}, "0.3")
			}
			return sc.form.args([]string{"q"}, "0")
		}
		for k, w := range ws {
			cmd := sc.form.args([]string{"q"}, "0")
			if k == 1 {
				cmd = cmdFor(sc.b)
			} else if k == 2 {
				cmd = cmdFor(sc.c)
			}
			w.issue(cmd, 30*time.Second)
			s.logf("client %d: %s", w.id, cmdString(cmd))
			blocked := false
			for t := time.Now(); time.Since(t) < 3*time.Second; time.Sleep(2 * time.Millisecond) {
				if n, _ := c11Blocked(aux); n >= k+1 {
					blocked = true
					break
				}
			}
			if !blocked {
				r.Inconclusive("waiters did not block")
				return
			}
		}
		end := func(w *waiter, how string) {
			switch how {
			case "unblock":
				s.do("CLIENT", "UNBLOCK", strconv.FormatInt(w.id, 10))
				w.finished(3 * time.Second)
			case "kill":
				s.do("CLIENT", "KILL", "ID", strconv.FormatInt(w.id, 10))
				time.Sleep(150 * time.Millisecond)
			case "close":
				w.cn.Close()
				time.Sleep(150 * time.Millisecond)
			case "timeout":
				w.finished(3 * time.Second)
			}
			s.logf("client %d ended its block by %s", w.id, how)
		}
		end(ws[1], sc.b)
		end(ws[2], sc.c)
		s.do("RPUSH", "q", "el-1")
		r.Eval(1)
		s.expectServed(ws[0], "el-1", "ending/live-waiter-dropped-when-two-behind-it-ended/"+sc.form.name)
		r.Distinct(s.name)
	})
}

func progString(prog [][]string) string {
	var parts []string
	for _, p := range prog {
		parts = append(parts, cmdString(p))
	}
	return strings.Join(parts, "; ")
}

// c12InspectedWhileBlocking: CLIENT LIST looks at (and briefly marks) the blocking state of every client. Clients that
// begin and end short blocks all the time are inspected at every instant of that cycle - also exactly when a wait
// begins (the hook cs:checking yields inside the inspection). Every block must still end after its timeout, and the
// connection must go on working.
func c12InspectedWhileBlocking(r *verdict.Run, rounds int) {
	c, err := startChild(false)
	if err != nil {
		r.Inconclusive("cannot start child")
		return
	}
	defer c.Stop()
	e, err := startEmu(c, "")
	if err != nil {
		r.Inconclusive("infra: " + err.Error())
		return
	}
	c.Ctl("seed %d", r.Seed*17+3)
	c.Ctl("yield cs:checking 600 300")
	var stop atomic.Bool
	var wg sync.WaitGroup
	var listed atomic.Int64
	for i := 0; i < 3; i++ {
		wg.Add(1)
		go func() {
			defer wg.Done()
			cn, err := e.dial()
			if err != nil {
				return
			}
			defer cn.Close()
			cn.Timeout = 5 * time.Second
			for !stop.Load() {
				if _, err := cn.Do("CLIENT", "LIST"); err != nil {
					return
				}
				listed.Add(1)
			}
		}()
	}
	var stuck atomic.Int64
	var blocks atomic.Int64
	var bw sync.WaitGroup
	example := make(chan string, 1)
	for i := 0; i < 8; i++ {
		bw.Add(1)
		go func(i int) {
			defer bw.Done()
			cn, err := e.dial()
			if err != nil {
				return
			}
			defer cn.Close()
			forms := [][]string{{"BLPOP", "iw-never", "0.002"}, {"BRPOP", "iw-never", "0.003"}, {"BLMOVE", "iw-never", "iw-dst", "LEFT", "LEFT", "0.002"}, {"BLMPOP", "0.002", "1", "iw-never", "LEFT"}}
			for k := 0; k < rounds && stuck.Load() == 0; k++ {
				f := forms[(i+k)%len(forms)]
				cn.SendCmd(f...)
				v, _, err := cn.ReadValue(4 * time.Second)
				if err != nil || !v.Null {
					if stuck.Add(1) == 1 {
						example <- fmt.Sprintf("%s (round %d of connection %d) -> %s %v", cmdString(f), k, i, v, err)
					}
					return
				}
				blocks.Add(1)
			}
			if v, err := cn.Do("PING"); err != nil || v.Text() != "PONG" {
				if stuck.Add(1) == 1 {
					example <- fmt.Sprintf("PING after the blocks of connection %d -> %s %v", i, v, err)
				}
			}
		}(i)
	}
	bw.Wait()
	stop.Store(true)
	wg.Wait()
	r.Eval(int(blocks.Load()))
	r.Count("blocks_ended_while_being_listed", blocks.Load())
	r.Count("client_list_calls_meanwhile", listed.Load())
	if stuck.Load() > 0 {
		dump := ""
		if c.Alive() {
			dump = stallSummary(c.SigQuitDump())
		}
		r.Report("timeout/block-never-ends-when-inspected-at-its-start", fmt.Sprintf("a block with a timeout of a few milliseconds did not end (4 s) while other clients ran CLIENT LIST: %s\n%s", <-example, dump), nil)
		return
	}
	r.Distinct("inspected-while-blocking")
}
