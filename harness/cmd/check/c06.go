package main

import (
	"fmt"
	"math/rand"
	"strconv"
	"strings"

	"verif/harness/model"
	"verif/harness/verdict"
)

func init() { register("C06", "exploration", checkC06) }

// canonical valid invocations of every data command; K is replaced by the target key
var c06Templates = [][]string{
	{"SET", "K", "v"}, {"SET", "K", "v", "GET"}, {"SET", "K", "v", "NX"}, {"SET", "K", "v", "XX", "KEEPTTL"}, {"SETNX", "K", "v"}, {"SETEX", "K", "100", "v"}, {"PSETEX", "K", "100000", "v"},
	{"GET", "K"}, {"GETSET", "K", "v"}, {"GETDEL", "K"}, {"GETEX", "K"}, {"GETEX", "K", "EX", "100"}, {"GETEX", "K", "PERSIST"}, {"MGET", "K", "other"}, {"MSET", "K", "v"}, {"MSETNX", "K", "v", "fresh", "w"},
	{"APPEND", "K", "x"}, {"STRLEN", "K"}, {"GETRANGE", "K", "0", "-1"}, {"SUBSTR", "K", "0", "1"}, {"SETRANGE", "K", "1", "x"}, {"INCR", "K"}, {"DECR", "K"}, {"INCRBY", "K", "5"}, {"DECRBY", "K", "5"}, {"INCRBYFLOAT", "K", "1.5"},
	{"LCS", "K", "other"}, {"LCS", "other", "K", "LEN"},
	{"LPUSH", "K", "x"}, {"RPUSH", "K", "x", "y"}, {"LPUSHX", "K", "x"}, {"RPUSHX", "K", "x"}, {"LPOP", "K"}, {"RPOP", "K"}, {"LPOP", "K", "2"}, {"RPOP", "K", "1"}, {"LLEN", "K"}, {"LINDEX", "K", "0"}, {"LRANGE", "K", "0", "-1"},
	{"LSET", "K", "0", "x"}, {"LINSERT", "K", "BEFORE", "a", "x"}, {"LREM", "K", "0", "a"}, {"LTRIM", "K", "0", "0"}, {"LPOS", "K", "a"}, {"LMOVE", "K", "lother", "LEFT", "RIGHT"}, {"LMOVE", "lother", "K", "LEFT", "RIGHT"},
	{"RPOPLPUSH", "K", "lother"}, {"RPOPLPUSH", "lother", "K"}, {"LMPOP", "1", "K", "LEFT"}, {"LMPOP", "2", "nokey", "K", "RIGHT", "COUNT", "2"},
	{"BLPOP", "K", "0.01"}, {"BRPOP", "K", "0.01"}, {"BLMOVE", "K", "lother", "LEFT", "LEFT", "0.01"}, {"BRPOPLPUSH", "K", "lother", "0.01"}, {"BLMPOP", "0.01", "1", "K", "LEFT"},
	{"HSET", "K", "f", "v"}, {"HMSET", "K", "f", "v"}, {"HSETNX", "K", "f", "v"}, {"HGET", "K", "f1"}, {"HMGET", "K", "f1", "zz"}, {"HGETALL", "K"}, {"HKEYS", "K"}, {"HVALS", "K"}, {"HLEN", "K"}, {"HEXISTS", "K", "f1"}, {"HSTRLEN", "K", "f1"},
	{"HDEL", "K", "f1"}, {"HINCRBY", "K", "n", "2"}, {"HINCRBYFLOAT", "K", "n", "1.5"}, {"HRANDFIELD", "K"}, {"HRANDFIELD", "K", "2", "WITHVALUES"}, {"HSCAN", "K", "0"},
	{"SADD", "K", "x"}, {"SREM", "K", "a"}, {"SCARD", "K"}, {"SISMEMBER", "K", "a"}, {"SMISMEMBER", "K", "a", "zz"}, {"SMEMBERS", "K"}, {"SMOVE", "K", "sother", "a"}, {"SMOVE", "sother", "K", "a"}, {"SRANDMEMBER", "K"}, {"SRANDMEMBER", "K", "2"},
	{"SSCAN", "K", "0"}, {"SINTER", "K", "sother"}, {"SINTER", "sother", "K"}, {"SUNION", "K", "sother"}, {"SUNION", "sother", "K"}, {"SDIFF", "K", "sother"}, {"SDIFF", "sother", "K"},
	{"SINTERSTORE", "dst", "K", "sother"}, {"SUNIONSTORE", "dst", "sother", "K"}, {"SDIFFSTORE", "dst", "K"}, {"SINTERSTORE", "K", "sother", "sother"}, {"SUNIONSTORE", "K", "sother"}, {"SDIFFSTORE", "K", "sother", "nokey"},
	{"SINTERCARD", "2", "K", "sother"}, {"SINTERCARD", "1", "K", "LIMIT", "1"},
	{"DEL", "K"}, {"UNLINK", "K"}, {"EXISTS", "K", "K"}, {"TYPE", "K"}, {"TOUCH", "K"}, {"RENAME", "K", "dst"}, {"RENAME", "other", "K"}, {"RENAMENX", "K", "dst"}, {"RENAMENX", "other", "K"}, {"RENAME", "K", "K"},
	{"COPY", "K", "dst"}, {"COPY", "K", "other"}, {"COPY", "K", "other", "REPLACE"}, {"COPY", "other", "K", "REPLACE"}, {"COPY", "K", "K"},
	{"EXPIRE", "K", "100"}, {"PEXPIRE", "K", "100000"}, {"EXPIREAT", "K", "4102444800"}, {"PEXPIREAT", "K", "4102444800000"}, {"PERSIST", "K"}, {"TTL", "K"}, {"PTTL", "K"}, {"EXPIRETIME", "K"}, {"PEXPIRETIME", "K"},
	{"SORT", "K"}, {"SORT", "K", "ALPHA"}, {"SORT", "K", "ALPHA", "DESC", "LIMIT", "0", "2"}, {"SORT", "K", "ALPHA", "STORE", "dst"}, {"SORT", "lother", "ALPHA", "STORE", "K"},
	{"SETBIT", "K", "3", "1"}, {"GETBIT", "K", "3"}, {"BITCOUNT", "K"}, {"BITCOUNT", "K", "0", "-1"}, {"BITPOS", "K", "1"}, {"BITOP", "AND", "dst", "K", "other"}, {"BITOP", "NOT", "dst", "K"}, {"BITOP", "OR", "K", "other", "other"},
	{"BITFIELD", "K", "GET", "u8", "0"}, {"BITFIELD", "K", "SET", "u8", "0", "7"}, {"BITFIELD", "K", "INCRBY", "i8", "0", "1"}, {"BITFIELD_RO", "K", "GET", "i8", "0"},
	{"KEYS", "*"}, {"DBSIZE"}, {"RANDOMKEY"}, {"SCAN", "0"},
	// valid invocations with extreme index / count arguments (most of them change nothing)
	{"LTRIM", "K", "0", "9223372036854775807"}, {"LTRIM", "K", "-9223372036854775808", "9223372036854775807"}, {"LRANGE", "K", "-9223372036854775808", "9223372036854775807"}, {"LINDEX", "K", "9223372036854775807"},
	{"LTRIM", "K", "-2", "9223372036854775807"}, {"LPOP", "K", "9223372036854775807"}, {"LREM", "K", "-9223372036854775808", "a"}, {"LREM", "K", "9223372036854775807", "a"}, {"LSET", "K", "-9223372036854775808", "x"},
	{"GETRANGE", "K", "-9223372036854775808", "9223372036854775807"}, {"GETRANGE", "K", "0", "9223372036854775807"}, {"LPOS", "K", "a", "RANK", "9223372036854775807"}, {"LPOS", "K", "a", "MAXLEN", "9223372036854775807"},
	{"LMPOP", "1", "K", "LEFT", "COUNT", "9223372036854775807"}, {"SRANDMEMBER", "K", "9223372036854775807"}, {"HRANDFIELD", "K", "9223372036854775807", "WITHVALUES"}, {"BITCOUNT", "K", "-9223372036854775808", "9223372036854775807"},
	{"BITPOS", "K", "1", "-9223372036854775808", "9223372036854775807"}, {"SORT", "K", "ALPHA", "LIMIT", "0", "9223372036854775807"}, {"SINTERCARD", "1", "K", "LIMIT", "9223372036854775807"},
}

// invocations that must fail on their arguments (or, on some key types, on the type): whichever error it is, no key
// may change, appear or disappear ("a failed command leaves every key unchanged")
var c06FailTemplates = [][]string{
	{"INCRBY", "K", "abc"}, {"INCRBY", "K", "9223372036854775808"}, {"DECRBY", "K", "1.5"}, {"INCRBYFLOAT", "K", "inf"}, {"INCRBYFLOAT", "K", "-inf"}, {"INCRBYFLOAT", "K", "nan"}, {"INCRBYFLOAT", "K", "abc"},
	{"HINCRBY", "K", "n", "abc"}, {"HINCRBY", "K", "newf", "1.5"}, {"HINCRBY", "K", "f1", "1"}, {"HINCRBYFLOAT", "K", "n", "inf"}, {"HINCRBYFLOAT", "K", "newf", "-inf"}, {"HINCRBYFLOAT", "K", "newf", "Infinity"}, {"HINCRBYFLOAT", "K", "n", "nan"},
	{"HINCRBYFLOAT", "K", "newf", "abc"}, {"HINCRBYFLOAT", "K", "f1", "1.5"}, {"HSET", "K", "f"}, {"HSET", "K", "f", "v", "g"}, {"HMSET", "K", "f", "v", "g"}, {"HSETNX", "K", "f"},
	{"SETEX", "K", "0", "v"}, {"SETEX", "K", "abc", "v"}, {"PSETEX", "K", "-1", "v"}, {"SET", "K", "v", "EX", "0"}, {"SET", "K", "v", "EX", "abc"}, {"SET", "K", "v", "NX", "XX"}, {"SET", "K", "v", "EX", "10", "PX", "10"}, {"SET", "K", "v", "BOGUS"},
	{"SET", "K", "v", "EX"}, {"SET", "K", "v", "GET", "EX", "-5"}, {"GETEX", "K", "EX", "0"}, {"GETEX", "K", "EX", "abc"}, {"GETEX", "K", "PERSIST", "EX", "5"}, {"SETRANGE", "K", "-1", "x"}, {"SETRANGE", "K", "536870912", "x"}, {"SETRANGE", "K", "abc", "x"},
	{"SETBIT", "K", "3", "2"}, {"SETBIT", "K", "-1", "1"}, {"SETBIT", "K", "4294967296", "1"}, {"SETBIT", "K", "abc", "1"},
	{"LSET", "K", "99", "x"}, {"LSET", "K", "abc", "x"}, {"LINSERT", "K", "MIDDLE", "a", "x"}, {"LPOP", "K", "-1"}, {"RPOP", "K", "abc"}, {"LMOVE", "K", "lother", "UP", "LEFT"}, {"LMOVE", "lother", "K", "LEFT", "DOWN"},
	{"LMPOP", "0", "K", "LEFT"}, {"LMPOP", "1", "K", "MIDDLE"}, {"LMPOP", "1", "K", "LEFT", "COUNT", "0"}, {"LMPOP", "2", "K", "LEFT"}, {"BLPOP", "K", "abc"}, {"BLPOP", "K", "-1"}, {"BLMOVE", "K", "lother", "LEFT", "LEFT", "abc"}, {"BLMPOP", "abc", "1", "K", "LEFT"},
	{"LTRIM", "K", "a", "b"}, {"LREM", "K", "abc", "a"}, {"LPOS", "K", "a", "RANK", "0"}, {"LPOS", "K", "a", "COUNT", "-1"}, {"LRANGE", "K", "a", "b"}, {"LINDEX", "K", "abc"},
	{"EXPIRE", "K", "abc"}, {"EXPIRE", "K", "100", "NX", "XX"}, {"EXPIRE", "K", "100", "GT", "LT"}, {"EXPIRE", "K", "100", "BOGUS"}, {"PEXPIRE", "K", "9223372036854775807"}, {"EXPIRE", "K", "9223372036854775807"}, {"EXPIREAT", "K", "abc"}, {"PEXPIREAT", "K", "1.5"},
	{"SINTERCARD", "0", "K"}, {"SINTERCARD", "2", "K"}, {"SINTERCARD", "1", "K", "LIMIT", "-1"}, {"SINTERCARD", "abc", "K"}, {"SINTERSTORE", "K"}, {"SUNIONSTORE", "K"}, {"SDIFFSTORE", "K"}, {"SMOVE", "K", "sother"}, {"SRANDMEMBER", "K", "abc"}, {"SSCAN", "K", "abc"}, {"SSCAN", "K", "0", "COUNT", "0"},
	{"SORT", "K", "LIMIT", "0"}, {"SORT", "K", "STORE"}, {"SORT", "K", "ALPHA", "STORE", "dst", "LIMIT", "a", "b"}, {"SORT", "lother", "STORE", "K"}, {"SORT", "K", "BOGUS"},
	{"BITOP", "NOT", "dst", "K", "other"}, {"BITOP", "XAND", "dst", "K"}, {"BITOP", "NOT", "K", "other", "other"}, {"BITFIELD", "K", "SET", "u64", "0", "1"}, {"BITFIELD", "K", "SET", "u8", "0", "1", "INCRBY", "i99", "0", "1"}, {"BITFIELD", "K", "INCRBY", "u8", "-1", "1"},
	{"BITFIELD", "K", "SET", "u8", "0", "abc"}, {"BITFIELD", "K", "SET", "u8", "0", "1", "OVERFLOW", "BOGUS"}, {"BITFIELD", "K", "SET", "u8", "0", "1", "GET"}, {"BITFIELD_RO", "K", "SET", "u8", "0", "1"}, {"BITCOUNT", "K", "0"}, {"BITCOUNT", "K", "a", "b"}, {"BITPOS", "K", "2"}, {"GETBIT", "K", "-1"},
	{"COPY", "K", "dst", "DB", "abc"}, {"COPY", "K", "dst", "BOGUS"}, {"COPY", "other", "K", "DB"}, {"RENAME", "nokey", "K"}, {"RENAMENX", "nokey", "K"}, {"RENAME", "nokey", "nokey"}, {"MSET", "K", "v", "fresh"}, {"MSETNX", "K", "v", "fresh"}, {"MSETNX", "fresh", "w", "K"},
	{"HRANDFIELD", "K", "abc"}, {"HRANDFIELD", "K", "2", "WITHVALUE"}, {"HSCAN", "K", "abc"}, {"SCAN", "abc"}, {"SCAN", "0", "COUNT", "0"}, {"GETRANGE", "K", "a", "b"}, {"LCS", "K", "other", "IDX", "LEN"}, {"LCS", "K", "other", "MINMATCHLEN"},
}

var c06Setup = [][]string{
	{"SET", "other", "ostr"}, {"RPUSH", "lother", "a", "b"}, {"SADD", "sother", "a", "b"},
}

func c06TypeSetup(t string) [][]string {
	switch t {
	case "string":
		return [][]string{{"SET", "tk", "10"}}
	case "list":
		return [][]string{{"RPUSH", "tk", "a", "b", "c"}}
	case "hash":
		return [][]string{{"HSET", "tk", "f1", "v1", "n", "3"}}
	case "set":
		return [][]string{{"SADD", "tk", "a", "b", "c"}}
	case "string-empty":
		return [][]string{{"SET", "tk", ""}}
	case "string+ttl":
		return [][]string{{"SET", "tk", "10", "EX", "100"}}
	case "list+ttl":
		return [][]string{{"RPUSH", "tk", "a", "b", "c"}, {"EXPIRE", "tk", "100"}}
	case "hash+ttl":
		return [][]string{{"HSET", "tk", "f1", "v1", "n", "3"}, {"EXPIRE", "tk", "100"}}
	case "set+ttl":
		return [][]string{{"SADD", "tk", "a", "b", "c"}, {"EXPIRE", "tk", "100"}}
	}
	return nil
}

// c06Matrix: every command template x every type of target key on a fresh emulator.
func c06Matrix(r *verdict.Run, types []string) {
	type cell struct {
		tmpl []string
		typ  string
	}
	var cells []cell
	for _, t := range types {
		for _, tm := range c06Templates {
			cells = append(cells, cell{tm, t})
		}
		for _, tm := range c06FailTemplates {
			cells = append(cells, cell{tm, t})
		}
	}
	universe := []string{"tk", "other", "lother", "sother", "dst", "fresh", "nokey"}
	nsh := 16
	parallel(nsh, 16, func(shard int) {
		c, err := startChild(false)
		if err != nil {
			r.Inconclusive("cannot start child")
			return
		}
		defer func() { c.Stop() }()
		for i := shard; i < len(cells); i += nsh {
			ce := cells[i]
			if !c.Alive() {
				c.Stop()
				if c, err = startChild(false); err != nil {
					return
				}
			}
			d, err := newDiffEnv(r, c, universe)
			if err != nil {
				r.Inconclusive("infra: " + err.Error())
				c.Stop()
				c, _ = startChild(false)
				continue
			}
			d.monitor = "matrix"
			ok := true
			for _, s := range append(append([][]string{}, c06Setup...), c06TypeSetup(ce.typ)...) {
				if _, ok = d.step(s); !ok {
					break
				}
			}
			if ok {
				args := make([]string, len(ce.tmpl))
				for j, a := range ce.tmpl {
					if a == "K" {
						a = "tk"
					}
					args[j] = a
				}
				got, _ := d.step(args)
				r.Eval(1)
				r.Distinct(fmt.Sprintf("matrix/%s/%s/%s", strings.Join(ce.tmpl, " "), ce.typ, model.Class(got)))
			}
			d.close()
		}
	})
	r.Set("matrix_cells", len(cells))
}

// c06LastElement removes the last element of an aggregate through every door.
func c06LastElement(r *verdict.Run) {
	type door struct {
		name  string
		setup [][]string
		cmd   []string
		key   string
	}
	doors := []door{
		{"LPOP", [][]string{{"RPUSH", "k", "a"}}, []string{"LPOP", "k"}, "k"},
		{"RPOP", [][]string{{"RPUSH", "k", "a"}}, []string{"RPOP", "k"}, "k"},
		{"LPOP-count", [][]string{{"RPUSH", "k", "a", "b"}}, []string{"LPOP", "k", "5"}, "k"},
		{"RPOP-count", [][]string{{"RPUSH", "k", "a", "b"}}, []string{"RPOP", "k", "2"}, "k"},
		{"LREM", [][]string{{"RPUSH", "k", "a", "a"}}, []string{"LREM", "k", "0", "a"}, "k"},
		{"LREM-exact-count", [][]string{{"RPUSH", "k", "a", "a"}}, []string{"LREM", "k", "2", "a"}, "k"},
		{"LREM-count-above-occurrences", [][]string{{"RPUSH", "k", "a", "a"}}, []string{"LREM", "k", "5", "a"}, "k"},
		{"LREM-negative-count-above-occurrences", [][]string{{"RPUSH", "k", "a"}}, []string{"LREM", "k", "-3", "a"}, "k"},
		{"LPOP-exact-count", [][]string{{"RPUSH", "k", "a", "b"}}, []string{"LPOP", "k", "2"}, "k"},
		{"LMPOP-exact-count", [][]string{{"RPUSH", "k", "a", "b"}}, []string{"LMPOP", "1", "k", "RIGHT", "COUNT", "2"}, "k"},
		{"HDEL-repeated-field", [][]string{{"HSET", "k", "f", "v"}}, []string{"HDEL", "k", "f", "f"}, "k"},
		{"SREM-repeated-member", [][]string{{"SADD", "k", "a"}}, []string{"SREM", "k", "a", "a", "zz"}, "k"},
		{"LTRIM-empty-range", [][]string{{"RPUSH", "k", "a", "b"}}, []string{"LTRIM", "k", "5", "9"}, "k"},
		{"LTRIM-reversed", [][]string{{"RPUSH", "k", "a", "b"}}, []string{"LTRIM", "k", "1", "0"}, "k"},
		{"LMOVE-source", [][]string{{"RPUSH", "k", "a"}}, []string{"LMOVE", "k", "d", "LEFT", "LEFT"}, "k"},
		{"RPOPLPUSH-source", [][]string{{"RPUSH", "k", "a"}}, []string{"RPOPLPUSH", "k", "d"}, "k"},
		{"LMPOP", [][]string{{"RPUSH", "k", "a", "b"}}, []string{"LMPOP", "1", "k", "LEFT", "COUNT", "9"}, "k"},
		{"BLPOP", [][]string{{"RPUSH", "k", "a"}}, []string{"BLPOP", "k", "0.01"}, "k"},
		{"BRPOP", [][]string{{"RPUSH", "k", "a"}}, []string{"BRPOP", "k", "0.01"}, "k"},
		{"BLMOVE", [][]string{{"RPUSH", "k", "a"}}, []string{"BLMOVE", "k", "d", "RIGHT", "LEFT", "0.01"}, "k"},
		{"BRPOPLPUSH", [][]string{{"RPUSH", "k", "a"}}, []string{"BRPOPLPUSH", "k", "d", "0.01"}, "k"},
		{"BLMPOP", [][]string{{"RPUSH", "k", "a"}}, []string{"BLMPOP", "0.01", "1", "k", "RIGHT"}, "k"},
		{"HDEL", [][]string{{"HSET", "k", "f", "v", "g", "w"}}, []string{"HDEL", "k", "f", "g", "zz"}, "k"},
		{"SREM", [][]string{{"SADD", "k", "a", "b"}}, []string{"SREM", "k", "a", "b"}, "k"},
		{"SMOVE-source", [][]string{{"SADD", "k", "a"}}, []string{"SMOVE", "k", "d", "a"}, "k"},
		{"SMOVE-source-dest-has-member", [][]string{{"SADD", "k", "a"}, {"SADD", "d", "a"}}, []string{"SMOVE", "k", "d", "a"}, "k"},
		{"SDIFFSTORE-empty", [][]string{{"SADD", "k", "a"}, {"SADD", "o", "a"}}, []string{"SDIFFSTORE", "k", "k", "o"}, "k"},
		{"SINTERSTORE-empty", [][]string{{"SADD", "k", "a"}, {"SADD", "o", "b"}}, []string{"SINTERSTORE", "k", "k", "o"}, "k"},
		{"SUNIONSTORE-empty", [][]string{{"SADD", "k", "a"}}, []string{"SUNIONSTORE", "k", "nokey", "nokey2"}, "k"},
		{"SINTERSTORE-empty-over-string", [][]string{{"SET", "k", "str"}, {"SADD", "o", "b"}}, []string{"SINTERSTORE", "k", "o", "nokey"}, "k"},
		{"SORT-STORE-empty", [][]string{{"RPUSH", "k", "a"}}, []string{"SORT", "nokey", "STORE", "k"}, "k"},
		{"BITOP-empty", [][]string{{"SET", "k", "x"}}, []string{"BITOP", "AND", "k", "nokey", "nokey2"}, "k"},
		{"GETDEL", [][]string{{"SET", "k", "x"}}, []string{"GETDEL", "k"}, "k"},
		{"EXPIRE-negative", [][]string{{"RPUSH", "k", "a"}}, []string{"EXPIRE", "k", "-1"}, "k"},
		{"PEXPIREAT-past", [][]string{{"SADD", "k", "a"}}, []string{"PEXPIREAT", "k", "1"}, "k"},
		{"UNLINK", [][]string{{"HSET", "k", "f", "v"}}, []string{"UNLINK", "k"}, "k"},
		{"RENAME-away", [][]string{{"RPUSH", "k", "a"}}, []string{"RENAME", "k", "d"}, "k"},
	}
	c, err := startChild(false)
	if err != nil {
		r.Inconclusive("cannot start child")
		return
	}
	defer c.Stop()
	for _, dr := range doors {
		d, err := newDiffEnv(r, c, []string{"k", "d", "o", "nokey", "nokey2", "pad"})
		if err != nil {
			r.Inconclusive("infra: " + err.Error())
			return
		}
		d.monitor = "last-element"
		ok := true
		if _, ok = d.step([]string{"SET", "pad", "1"}); ok {
			for _, s := range dr.setup {
				if _, ok = d.step(s); !ok {
					break
				}
			}
		}
		if ok {
			if _, ok = d.step(dr.cmd); ok {
				// afterwards: EXISTS 0, TYPE none, absent from KEYS/SCAN, DBSIZE decremented (all via the model)
				for _, probe := range [][]string{{"EXISTS", dr.key}, {"TYPE", dr.key}, {"KEYS", "*"}, {"DBSIZE"}, {"LLEN", dr.key}, {"HLEN", dr.key}, {"SCARD", dr.key}} {
					if _, ok = d.step(probe); !ok {
						break
					}
				}
				if ok {
					// SCAN must not list the key
					v, err := d.cn.Do("SCAN", "0", "COUNT", "1000")
					if err == nil && len(v.Elems) == 2 {
						for _, e := range v.Elems[1].Elems {
							if e.Text() == dr.key {
								r.Report("last-element/"+dr.name+"/scan-lists-removed-key", fmt.Sprintf("after %s SCAN still lists %q", cmdString(dr.cmd), dr.key), d.replay(nil))
							}
						}
					}
				}
			}
		}
		r.Eval(1)
		r.Distinct("last-element/" + dr.name)
		d.close()
	}
	r.Set("last_element_doors", len(doors))
}

// c06SparseRandomKey: RANDOMKEY on keyspaces that hold very few live keys - one to three survivors of a larger
// population whose other members were deleted, unlinked or expired (dead entries may stay in the table) - asked many
// times, so that every start position of the emulator's random walk over its table is drawn: each reply must be a
// live key (model predicate), never nil. distinct = (survivors, population, removal door).
func c06SparseRandomKey(r *verdict.Run) {
	c, err := startChild(false)
	if err != nil {
		r.Inconclusive("cannot start child")
		return
	}
	defer c.Stop()
	cases, draws := 0, 0
	for _, pop := range []int{0, 6, 15, 40} {
		for _, live := range []int{1, 2, 3} {
			for _, door := range []string{"DEL", "UNLINK", "PEXPIREAT", "RENAME"} {
				if pop == 0 && door != "DEL" {
					continue
				}
				d, err := newDiffEnv(r, c, c06ChurnKeys)
				if err != nil {
					r.Inconclusive("infra: " + err.Error())
					return
				}
				d.monitor = "sparse-randomkey"
				ok := true
				for i := 0; ok && i < live+pop; i++ {
					_, ok = d.step([]string{"SET", c06ChurnKeys[(i*7+cases)%len(c06ChurnKeys)], "v"})
				}
				// the model decides which names are distinct; remove all but the first `live` created ones
				for i := live; ok && i < live+pop; i++ {
					k := c06ChurnKeys[(i*7+cases)%len(c06ChurnKeys)]
					switch door {
					case "PEXPIREAT":
						_, ok = d.step([]string{"PEXPIREAT", k, "1"})
					case "RENAME":
						// renaming onto a survivor removes one name and keeps the survivor's name alive
						_, ok = d.step([]string{"RENAME", k, c06ChurnKeys[cases%len(c06ChurnKeys)]})
					default:
						_, ok = d.step([]string{door, k})
					}
				}
				n := tierPick(r, 120, 600)
				for i := 0; ok && i < n; i++ {
					_, ok = d.step([]string{"RANDOMKEY"})
					draws++
				}
				if ok {
					_, ok = d.step([]string{"DBSIZE"})
				}
				r.Eval(1)
				r.Distinct(fmt.Sprintf("sparse-randomkey/live%d/pop%d/%s", live, pop, door))
				d.close()
				cases++
			}
		}
	}
	r.Set("sparse_randomkey_cases", cases)
	r.Set("sparse_randomkey_draws", draws)
}

var c06Patterns = []string{"*", "k*", "?1", "k[ab]*", "k[a-c]1", "k[^a]1", "k\\*", "*1", "k?1", "[a-z]*", "kb*", "*[0-9]", "k**1", "nomatch", "k[b-a]1", "K*", "k[abc", "*\\", "k[]1", "*a*",
	// names are bytes: one multi-byte character is several positions, two different bytes that are not UTF-8 are different
	"w?", "w??", "w???", "w\xc3\xa9*", "w\xff*", "w\xfe*", "w[\xfe]*", "w[^\xff]*", "w[\xfd-\xff]?", "*\xa9?"}

func c06Gen(rng *rand.Rand, m *model.Model, keys []string) []string {
	k := pick(rng, keys)
	k2 := pick(rng, keys)
	if rng.Intn(40) == 0 {
		// wide commands: 65-200 keys in one command
		w := 65 + rng.Intn(136)
		a := []string{pick(rng, []string{"DEL", "UNLINK", "EXISTS", "TOUCH", "MGET"})}
		for i := 0; i < w; i++ {
			if i%9 == 0 {
				a = append(a, pick(rng, keys))
			} else {
				a = append(a, "nokey"+strconv.Itoa(i))
			}
		}
		return a
	}
	switch rng.Intn(40) {
	case 0:
		return []string{"SET", k, pick(rng, []string{"v", "10", "3", "b"})}
	case 1:
		return []string{"RPUSH", k, pick(rng, []string{"3", "1", "2", "b", "a"}), pick(rng, []string{"10", "c", "2"})}
	case 2:
		return []string{"HSET", k, "f", "v", "g", "2"}
	case 3:
		return []string{"SADD", k, pick(rng, []string{"3", "1", "a"}), pick(rng, []string{"2", "b"})}
	case 4, 5:
		a := []string{pick(rng, []string{"DEL", "UNLINK"})}
		for i := 0; i < 1+rng.Intn(3); i++ {
			a = append(a, pick(rng, keys))
		}
		return a
	case 6, 7:
		a := []string{pick(rng, []string{"EXISTS", "TOUCH"})}
		for i := 0; i < 1+rng.Intn(3); i++ {
			a = append(a, pick(rng, keys))
		}
		return a
	case 8:
		return []string{"TYPE", k}
	case 9, 10, 11:
		return []string{"RENAME", k, k2}
	case 12, 13:
		return []string{"RENAMENX", k, k2}
	case 14, 15, 16, 17:
		a := []string{"COPY", k, k2}
		if rng.Intn(2) == 0 {
			a = append(a, randCase(rng, "REPLACE"))
		}
		if rng.Intn(6) == 0 {
			a = append(a, "DB", pick(rng, []string{"0", "1", "16", "-1", "x"}))
		}
		return a
	case 18, 19, 20:
		return []string{"KEYS", pick(rng, c06Patterns)}
	case 21:
		return []string{"RANDOMKEY"}
	case 22:
		return []string{"DBSIZE"}
	case 23:
		return []string{"EXPIRE", k, pick(rng, []string{"100", "200", "-1"})}
	case 24:
		return []string{"PERSIST", k}
	case 25:
		return []string{"PTTL", k}
	case 26, 27, 28, 29, 30, 31, 32:
		a := []string{"SORT", k}
		var opts [][]string
		if rng.Intn(2) == 0 {
			opts = append(opts, []string{"ALPHA"})
		}
		if rng.Intn(3) == 0 {
			opts = append(opts, []string{pick(rng, []string{"DESC", "ASC"})})
		}
		if rng.Intn(3) == 0 {
			opts = append(opts, []string{"LIMIT", strconv.Itoa(rng.Intn(4) - 1), strconv.Itoa(rng.Intn(5) - 1)})
		}
		if rng.Intn(4) == 0 {
			opts = append(opts, []string{"BY", pick(rng, []string{"nosort", "w_*", "w_*", "nokey_*"})})
		}
		if rng.Intn(4) == 0 {
			opts = append(opts, []string{"GET", pick(rng, []string{"#", "w_*", "d_*"})})
			if rng.Intn(2) == 0 {
				opts = append(opts, []string{"GET", "#"})
			}
		}
		if rng.Intn(4) == 0 {
			opts = append(opts, []string{"STORE", k2})
		}
		for _, o := range opts {
			o[0] = randCase(rng, o[0])
			a = append(a, o...)
		}
		return a
	case 33:
		return []string{"SET", "w_" + pick(rng, []string{"1", "2", "3", "a", "b", "c", "10"}), pick(rng, []string{"5", "1", "9", "x", "2"})}
	case 34:
		return []string{"LPOP", k}
	case 35:
		return []string{"SREM", k, "a", "b", "1", "2", "3"}
	case 36:
		return []string{"HDEL", k, "f", "g"}
	case 37:
		return []string{"APPEND", k, "z"}
	case 38:
		return []string{"LPUSH", k, "z"}
	case 39:
		return []string{"SET", k, "v", "EX", "100"}
	}
	return []string{"TYPE", k}
}

func checkC06(r *verdict.Run) {
	r.Rule = "(1) exhaustive matrix: every data-command template (a canonical valid invocation of each command plus 130 invocations that fail on their arguments) x target key of every type (missing, string, list, hash, set, a string holding the empty value, and the typed ones with a TTL) on a fresh emulator, reply and full state vs the reference model, failed commands inert; " +
		"(2) removing the last element through 30 different doors, then EXISTS/TYPE/KEYS/SCAN/DBSIZE/LLEN/HLEN/SCARD vs model; " +
		"(3) random keyspace sequences (DEL/UNLINK/EXISTS/TOUCH/TYPE/RENAME/RENAMENX/COPY/KEYS with glob patterns/RANDOMKEY/DBSIZE/SORT with options) mixed with writes of every type; (4) keyspace churn: sequences of 400-1200 steps creating, deleting, renaming, copying and expiring 41 key names so that the keyspace table grows, shrinks and ages, KEYS */DBSIZE compared after every step; (5) sparse keyspaces: one to three survivors of populations of 0-40 keys removed by DEL/UNLINK/PEXPIREAT/RENAME, RANDOMKEY drawn 120 (thorough 600) times, every reply must be a live key. distinct = matrix cells + doors + (command+options, prior class, outcome)"
	types := []string{"missing", "string", "list", "hash", "set", "string-empty", "string+ttl", "list+ttl", "hash+ttl", "set+ttl"}
	c06Matrix(r, types)
	r.SetExhaustive(false)
	c06LastElement(r)
	c06SparseRandomKey(r)
	runDiffSequences(r, tierPick(r, 200, 4000), func(rng *rand.Rand) int { return 40 + rng.Intn(40) },
		[]string{"ka1", "kb1", "kc1", "ka2", "w_1", "w_2", "w_3", "w_a", "w_b", "w\xc3\xa9", "w\xffz", "w\xfez"}, [][]string{{"SET", "ka1", "s"}, {"RPUSH", "kb1", "3", "1", "2"}, {"SADD", "kc1", "2", "3", "1"}, {"HSET", "ka2", "f", "v"}, {"SET", "w_1", "30"}, {"SET", "w_2", "20"}, {"SET", "w_3", "10"}}, c06Gen)
	runDiffSequencesN(r, tierPick(r, 24, 240), 2, 10000, func(rng *rand.Rand) int { return 400 + rng.Intn(800) },
		append([]string{"churn"}, c06ChurnKeys...), [][]string{{"MSET", "key:apple", "1", "key:banana", "2", "key:cherry", "3", "key:date", "4", "key:fig", "5", "key:grape", "6", "k1", "7"}}, c06ChurnGen)
}

// c06ChurnGen: the keyspace itself under churn: 36 key names created, deleted, renamed, copied and expired over a
// long sequence (the keyspace table grows, shrinks and ages), with KEYS / DBSIZE / EXISTS / RANDOMKEY in between;
// the observer's dump compares KEYS * and DBSIZE with the model after every step.
var c06ChurnKeys = func() []string {
	var ks []string
	for _, m := range c05ChurnMembers {
		ks = append(ks, "key:"+m)
	}
	return append(ks, "k1", "k2", "k3", "k4", "k5", "k6", "0aaaaaaa", "8aaaaaaa", "aaaaaaaaAbbbbbbb", "aaaaaaaaQbbbbbbb")
}()

func c06ChurnGen(rng *rand.Rand, m *model.Model, keys []string) []string {
	span := []int{9, 14, len(c06ChurnKeys)}[rng.Intn(3)]
	k := func() string { return c06ChurnKeys[rng.Intn(span)] }
	switch x := rng.Intn(40); {
	case x < 8:
		return []string{"SET", k(), "v"}
	case x < 10:
		return []string{"RPUSH", k(), "a", "b"}
	case x < 12:
		return []string{"SADD", k(), "a", "b"}
	case x < 14:
		return []string{"HSET", k(), "f", "v"}
	case x < 24:
		a := []string{pick(rng, []string{"DEL", "UNLINK"})}
		for i := 0; i < 1+rng.Intn(2)*rng.Intn(4); i++ {
			a = append(a, k())
		}
		return a
	case x < 26:
		if rng.Intn(2) == 0 {
			return []string{"SET", "churn", "1"}
		}
		return []string{"DEL", "churn"}
	case x < 28:
		return []string{"RENAME", k(), k()}
	case x < 29:
		return []string{"RENAMENX", k(), k()}
	case x < 31:
		return []string{"COPY", k(), k(), "REPLACE"}
	case x < 32:
		return []string{"GETDEL", k()}
	case x < 33:
		return []string{"LPOP", k()}
	case x < 34:
		return []string{"SREM", k(), "a", "b"}
	case x < 35:
		return []string{"PEXPIREAT", k(), "1"}
	case x < 36:
		return []string{"KEYS", pick(rng, []string{"*", "key:*", "k?", "key:[a-m]*", "*e*"})}
	case x < 37:
		return []string{"DBSIZE"}
	case x < 38:
		return []string{"RANDOMKEY"}
	case x < 39:
		return []string{"EXISTS", k(), k(), k()}
	}
	return []string{"TYPE", k()}
}
