package main

import (
	"math/rand"
	"strconv"

	"verif/harness/model"
	"verif/harness/verdict"
)

func init() { register("C05", "exploration", checkC05) }

var c05Members = []string{"a", "b", "c", "d", "e", "f", "", "m\r\n", "m\xc3\xa9", "\xff", "\xfe"}

func c05Gen(rng *rand.Rand, m *model.Model, keys []string) []string {
	sets := []string{"s0", "s1", "s2", "s3"}
	k := pick(rng, sets)
	if rng.Intn(8) == 0 {
		k = pick(rng, keys)
	}
	mem := func() string { return pick(rng, c05Members) }
	operand := func() string {
		if rng.Intn(7) == 0 {
			return pick(rng, keys) // missing / wrong-typed sometimes
		}
		return pick(rng, sets)
	}
	n := modelLen(m, 0, k)
	if rng.Intn(30) == 0 {
		// the key's deadline has passed but its object is still stored: every command must treat it as missing
		return []string{pick(rng, []string{"PEXPIREAT", "EXPIREAT"}), k, "1"}
	}
	if rng.Intn(40) == 0 {
		// wide commands: 65-200 members / operands in one command
		w := 65 + rng.Intn(136)
		switch rng.Intn(3) {
		case 0:
			a := []string{pick(rng, []string{"SADD", "SREM", "SMISMEMBER"}), k}
			for i := 0; i < w; i++ {
				a = append(a, "wm"+strconv.Itoa(i))
			}
			return a
		case 1:
			a := []string{pick(rng, []string{"SUNION", "SINTER", "SDIFF"})}
			for i := 0; i < w; i++ {
				a = append(a, pick(rng, sets))
			}
			return a
		}
		a := []string{pick(rng, []string{"SUNIONSTORE", "SDIFFSTORE"}), pick(rng, sets)}
		for i := 0; i < w; i++ {
			a = append(a, pick(rng, sets))
		}
		return a
	}
	switch rng.Intn(30) {
	case 0, 1, 2, 3:
		a := []string{"SADD", k}
		for i := 0; i < 1+rng.Intn(4); i++ {
			a = append(a, mem())
		}
		return a
	case 4, 5, 6:
		a := []string{"SREM", k}
		for i := 0; i < 1+rng.Intn(5); i++ {
			a = append(a, mem())
		}
		return a
	case 7:
		return []string{"SCARD", k}
	case 8:
		return []string{"SISMEMBER", k, mem()}
	case 9:
		return []string{"SMISMEMBER", k, mem(), mem(), "zz"}
	case 10, 11:
		return []string{"SMEMBERS", k}
	case 12, 13, 14:
		dst := pick(rng, sets)
		if rng.Intn(4) == 0 {
			dst = k
		}
		if rng.Intn(8) == 0 {
			dst = pick(rng, keys)
		}
		return []string{"SMOVE", k, dst, mem()}
	case 15, 16:
		a := []string{"SRANDMEMBER", k}
		if rng.Intn(4) > 0 {
			a = append(a, pick(rng, []string{"0", "1", strconv.Itoa(n - 1), strconv.Itoa(n), strconv.Itoa(n + 5), "-1", strconv.Itoa(-n - 5), "x", "-3", "-9223372036854775808", "9223372036854775807", "4611686018427387904", "2147483648"}))
		}
		return a
	case 17, 18, 19, 20, 21:
		a := []string{pick(rng, []string{"SINTER", "SUNION", "SDIFF"})}
		for i := 0; i < 1+rng.Intn(4); i++ {
			a = append(a, operand())
		}
		return a
	case 22, 23, 24, 25, 26:
		dst := pick(rng, sets)
		a := []string{pick(rng, []string{"SINTERSTORE", "SUNIONSTORE", "SDIFFSTORE"})}
		var ops []string
		for i := 0; i < 1+rng.Intn(4); i++ {
			ops = append(ops, operand())
		}
		if rng.Intn(2) == 0 {
			dst = ops[rng.Intn(len(ops))] // destination among the operands
		}
		if rng.Intn(10) == 0 {
			dst = pick(rng, []string{"ws", "wl", "km"}) // destination of another type / missing
		}
		return append(append(a, dst), ops...)
	case 27, 28:
		nk := 1 + rng.Intn(3)
		a := []string{"SINTERCARD", strconv.Itoa(nk)}
		if rng.Intn(12) == 0 {
			a[1] = pick(rng, []string{"0", "-1", "9", "x"})
		}
		for i := 0; i < nk; i++ {
			a = append(a, operand())
		}
		if rng.Intn(2) == 0 {
			a = append(a, randCase(rng, "LIMIT"), pick(rng, []string{"0", "1", "2", "3", "100", "-1"}))
		}
		return a
	case 29:
		if rng.Intn(2) == 0 {
			return []string{"DEL", k}
		}
		return []string{"EXPIRE", k, "100"}
	}
	return []string{"SCARD", k}
}

func checkC05(r *verdict.Run) {
	r.Rule = "random sequences of set commands over 4 set keys with members a..f + wrong-typed/missing keys; algebra commands draw 1-4 operands with replacement (repeated, missing, wrong-typed operands), STORE destinations are an operand half of the time; " +
		"oracle per step: reply = exact mathematical result (multiset compare; SRANDMEMBER by predicate), every operand and the destination compared with the model afterwards (operands unchanged, destination replaced or removed when empty), failed commands inert. " +
		"plus churn sequences of 600-1800 steps over three long-lived sets and 31 members (SADD/SREM cycles, repeated add/remove of one member, algebra and STORE forms in between) so that table growth, shrinking and ageing precede the algebra commands. " +
		"distinct = (command+options, prior key class, outcome class)"
	runDiffSequences(r, tierPick(r, 300, 6000), func(rng *rand.Rand) int { return 30 + rng.Intn(50) },
		[]string{"s0", "s1", "s2", "s3", "ws", "wl", "wh", "km"}, [][]string{{"SET", "ws", "str"}, {"RPUSH", "wl", "a"}, {"HSET", "wh", "a", "1", "b", "2"}, {"SADD", "s0", "a", "b", "c"}, {"SADD", "s1", "b", "c", "d"}}, c05Gen)
	// churn: few long sequences (the structure's history matters, not the number of fresh starts)
	runDiffSequencesN(r, tierPick(r, 32, 320), 2, 10000, func(rng *rand.Rand) int { return 600 + rng.Intn(1200) },
		[]string{"c0", "c1", "c2", "cd"}, [][]string{{"SADD", "c0", "apple", "banana", "cherry", "date", "elderberry", "fig", "grape", "honeydew", "kiwi"}, {"SADD", "c1", "banana", "kiwi", "m1"}}, c05ChurnGen)
}

// c05Churn: long-lived sets over a larger member universe with add/remove churn, so that the sets' backing
// tables grow, shrink and age before the algebra commands run (defects that need a structure's history, not one
// command, to show). Never DEL: the same objects live through the whole sequence.
var c05ChurnMembers = []string{"apple", "banana", "cherry", "date", "elderberry", "fig", "grape", "honeydew", "kiwi", "lemon", "mango", "nectarine", "orange", "papaya", "quince",
	"raspberry", "strawberry", "tangerine", "ugli", "vanilla", "watermelon", "xigua", "yam", "zucchini", "m1", "m2", "m3", "m4", "m5", "m6",
	// names of exactly one and two hash blocks (8, 16 bytes) that differ in one bit of the first byte of the last block
	"0aaaaaaa", "8aaaaaaa", "aaaaaaaaAbbbbbbb", "aaaaaaaaQbbbbbbb"}

func c05ChurnGen(rng *rand.Rand, m *model.Model, keys []string) []string {
	sets := []string{"c0", "c1", "c2"}
	k := pick(rng, sets)
	// each key draws from a prefix of the universe of a different size, so that small, medium and large tables coexist
	span := map[string]int{"c0": 9, "c1": 14, "c2": len(c05ChurnMembers)}[k]
	mem := func() string { return c05ChurnMembers[rng.Intn(span)] }
	switch x := rng.Intn(40); {
	case x < 13:
		a := []string{"SADD", k}
		for i := 0; i < 1+rng.Intn(3)*rng.Intn(3); i++ {
			a = append(a, mem())
		}
		return a
	case x < 25:
		a := []string{"SREM", k}
		for i := 0; i < 1+rng.Intn(2)*rng.Intn(3); i++ {
			a = append(a, mem())
		}
		return a
	case x < 27:
		// the same member added and removed repeatedly: removal bookkeeping without size change
		return []string{pick(rng, []string{"SADD", "SREM"}), k, "churn"}
	case x < 32:
		a := []string{pick(rng, []string{"SINTER", "SUNION", "SDIFF"})}
		for _, i := range rng.Perm(3)[:2+rng.Intn(2)] {
			a = append(a, sets[i])
		}
		return a
	case x < 34:
		a := []string{pick(rng, []string{"SINTERSTORE", "SUNIONSTORE", "SDIFFSTORE"}), pick(rng, []string{"cd", "cd", "c2"})}
		for _, i := range rng.Perm(3)[:2+rng.Intn(2)] {
			a = append(a, sets[i])
		}
		return a
	case x < 35:
		return []string{"SINTERCARD", "2", sets[rng.Intn(3)], sets[rng.Intn(3)]}
	case x < 36:
		return []string{"SMEMBERS", k}
	case x < 37:
		return []string{"SMOVE", k, pick(rng, sets), mem()}
	case x < 38:
		return []string{"SMISMEMBER", k, mem(), mem(), mem()}
	case x < 39:
		if rng.Intn(2) == 0 {
			// random members, counts chosen around the current cardinality (the selection has different strategies for
			// small and large fractions of the set)
			return []string{"SRANDMEMBER", k, countAround(rng, modelCard(m, k))}
		}
		return []string{"COPY", k, "cd", "REPLACE"}
	}
	return []string{"SCARD", k}
}

// modelCard: number of elements the model holds under the key in database 0 (0 if missing).
func modelCard(m *model.Model, k string) int {
	o := m.DB[0][k]
	if o == nil {
		return 0
	}
	return len(o.L) + len(o.H) + len(o.Set)
}

// countAround: a count argument near the size n of the collection: n, just below, a large and a small fraction, beyond, negated.
func countAround(rng *rand.Rand, n int) string {
	c := []int{n, n - 1, n - 2, n - 3, n * 9 / 10, n * 7 / 8, n / 2, n + 1, n + 7, 2, -n, -n - 3, -2 * n}[rng.Intn(13)]
	return strconv.Itoa(c)
}
