package main

import (
	"math/rand"
	"strconv"

	"verif/harness/model"
	"verif/harness/verdict"
)

func init() { register("C05", "exploration", checkC05) }

var c05Members = []string{"a", "b", "c", "d", "e", "f", "", "m\r\n"}

func c05Gen(rng *rand.Rand, m *model.Model, keys []string) []string {
	sets := []string{"s0", "s1", "s2", "s3"}
	k := pick(rng, sets)
	if rng.Intn(8) == 0 {
		k = pick(rng, keys)
	}
	mem := func() string { return pick(rng, c05Members) }
	operand := func() string {
		if rng.Intn(7) == 0 {
			return pick(rng, keys) // missing / wrong-typed sometimes
		}
		return pick(rng, sets)
	}
	n := modelLen(m, 0, k)
	switch rng.Intn(30) {
	case 0, 1, 2, 3:
		a := []string{"SADD", k}
		for i := 0; i < 1+rng.Intn(4); i++ {
			a = append(a, mem())
		}
		return a
	case 4, 5, 6:
		a := []string{"SREM", k}
		for i := 0; i < 1+rng.Intn(5); i++ {
			a = append(a, mem())
		}
		return a
	case 7:
		return []string{"SCARD", k}
	case 8:
		return []string{"SISMEMBER", k, mem()}
	case 9:
		return []string{"SMISMEMBER", k, mem(), mem(), "zz"}
	case 10, 11:
		return []string{"SMEMBERS", k}
	case 12, 13, 14:
		dst := pick(rng, sets)
		if rng.Intn(4) == 0 {
			dst = k
		}
		if rng.Intn(8) == 0 {
			dst = pick(rng, keys)
		}
		return []string{"SMOVE", k, dst, mem()}
	case 15, 16:
		a := []string{"SRANDMEMBER", k}
		if rng.Intn(4) > 0 {
			a = append(a, pick(rng, []string{"0", "1", strconv.Itoa(n - 1), strconv.Itoa(n), strconv.Itoa(n + 5), "-1", strconv.Itoa(-n - 5), "x", "-3"}))
		}
		return a
	case 17, 18, 19, 20, 21:
		a := []string{pick(rng, []string{"SINTER", "SUNION", "SDIFF"})}
		for i := 0; i < 1+rng.Intn(4); i++ {
			a = append(a, operand())
		}
		return a
	case 22, 23, 24, 25, 26:
		dst := pick(rng, sets)
		a := []string{pick(rng, []string{"SINTERSTORE", "SUNIONSTORE", "SDIFFSTORE"})}
		var ops []string
		for i := 0; i < 1+rng.Intn(4); i++ {
			ops = append(ops, operand())
		}
		if rng.Intn(2) == 0 {
			dst = ops[rng.Intn(len(ops))] // destination among the operands
		}
		if rng.Intn(10) == 0 {
			dst = pick(rng, []string{"ws", "wl", "km"}) // destination of another type / missing
		}
		return append(append(a, dst), ops...)
	case 27, 28:
		nk := 1 + rng.Intn(3)
		a := []string{"SINTERCARD", strconv.Itoa(nk)}
		if rng.Intn(12) == 0 {
			a[1] = pick(rng, []string{"0", "-1", "9", "x"})
		}
		for i := 0; i < nk; i++ {
			a = append(a, operand())
		}
		if rng.Intn(2) == 0 {
			a = append(a, randCase(rng, "LIMIT"), pick(rng, []string{"0", "1", "2", "3", "100", "-1"}))
		}
		return a
	case 29:
		if rng.Intn(2) == 0 {
			return []string{"DEL", k}
		}
		return []string{"EXPIRE", k, "100"}
	}
	return []string{"SCARD", k}
}

func checkC05(r *verdict.Run) {
	r.Rule = "random sequences of set commands over 4 set keys with members a..f + wrong-typed/missing keys; algebra commands draw 1-4 operands with replacement (repeated, missing, wrong-typed operands), STORE destinations are an operand half of the time; " +
		"oracle per step: reply = exact mathematical result (multiset compare; SRANDMEMBER by predicate), every operand and the destination compared with the model afterwards (operands unchanged, destination replaced or removed when empty), failed commands inert. " +
		"distinct = (command+options, prior key class, outcome class)"
	runDiffSequences(r, tierPick(r, 300, 6000), func(rng *rand.Rand) int { return 30 + rng.Intn(50) },
		[]string{"s0", "s1", "s2", "s3", "ws", "wl", "km"}, [][]string{{"SET", "ws", "str"}, {"RPUSH", "wl", "a"}, {"SADD", "s0", "a", "b", "c"}, {"SADD", "s1", "b", "c", "d"}}, c05Gen)
}
