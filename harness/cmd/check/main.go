// check is the monitor/driver process: `check <ID> <quick|thorough>`.
package main

import (
	"fmt"
	"math/rand"
	"os"
	"os/signal"
	"sort"
	"sync"
	"syscall"

	"verif/harness/host"
	"verif/harness/model"
	"verif/harness/verdict"
)

type checkFn func(r *verdict.Run)

type checkDef struct {
	level string
	fn    checkFn
}

var registry = map[string]checkDef{}

func register(id, level string, fn checkFn) { registry[id] = checkDef{level, fn} }

func main() {
	if len(os.Args) >= 2 && os.Args[1] == "probe" {
		probeMain()
		host.Cleanup()
		return
	}
	if len(os.Args) >= 3 && os.Args[1] == "replay" {
		code := replayMain(os.Args[2])
		host.Cleanup()
		os.Exit(code)
	}
	if len(os.Args) < 3 {
		ids := []string{}
		for k := range registry {
			ids = append(ids, k)
		}
		sort.Strings(ids)
		fmt.Fprintf(os.Stderr, "usage: check <ID> <quick|thorough>\nIDs: %v\n", ids)
		os.Exit(2)
	}
	id, tier := os.Args[1], os.Args[2]
	if t := os.Getenv("VERIF_TIER"); t != "" && len(os.Args) < 4 {
		_ = t // explicit argument wins; VERIF_TIER is informational
	}
	def, ok := registry[id]
	if !ok {
		fmt.Fprintf(os.Stderr, "unknown check %s\n", id)
		os.Exit(2)
	}
	if tier != "quick" && tier != "thorough" {
		fmt.Fprintf(os.Stderr, "tier must be quick or thorough\n")
		os.Exit(2)
	}
	sigs := make(chan os.Signal, 1)
	signal.Notify(sigs, syscall.SIGINT, syscall.SIGTERM)
	go func() {
		<-sigs
		host.Cleanup()
		os.Exit(130)
	}()
	r := verdict.NewRun(id, tier, def.level)
	code := 2
	func() {
		defer host.Cleanup()
		def.fn(r)
		for _, p := range model.ModelPanics {
			r.Inconclusive("reference model panicked: " + p)
		}
		infraMu.Lock()
		for what, n := range infraNotes {
			for i := 0; i < n; i++ {
				r.Inconclusive("infra: " + what)
			}
		}
		infraMu.Unlock()
		code = r.Finish()
		if len(model.ModelPanics) > 0 && code == 0 {
			code = 2
		}
	}()
	os.Exit(code)
}

// shardRng returns the PRNG of a shard: a pure function of (seed, property, shard).
func shardRng(r *verdict.Run, shard int) *rand.Rand {
	h := int64(1469598103934665603)
	for _, c := range r.Prop {
		h = (h ^ int64(c)) * 1099511628211
	}
	return rand.New(rand.NewSource(r.Seed*1000003 ^ h ^ int64(shard)*7919))
}

// parallel runs fn(shard) for shard in [0,n) on up to `workers` goroutines.
func parallel(n, workers int, fn func(shard int)) {
	if workers > n {
		workers = n
	}
	if workers < 1 {
		workers = 1
	}
	var wg sync.WaitGroup
	ch := make(chan int)
	for w := 0; w < workers; w++ {
		wg.Add(1)
		go func() {
			defer wg.Done()
			for s := range ch {
				fn(s)
			}
		}()
	}
	for s := 0; s < n; s++ {
		ch <- s
	}
	close(ch)
	wg.Wait()
}

func tierPick(r *verdict.Run, quick, thorough int) int {
	if r.Tier == "thorough" {
		return thorough
	}
	return quick
}
