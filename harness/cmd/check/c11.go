package main

import (
	"fmt"
	"math/rand"
	"sort"
	"strconv"
	"strings"
	"sync"
	"sync/atomic"
	"time"

	"verif/harness/host"
	"verif/harness/model"
	"verif/harness/resp"
	"verif/harness/verdict"
	"verif/harness/wire"
)

func init() { register("C11", "exploration", checkC11) }

type blkForm struct {
	name  string
	args  func(keys []string, timeout string) []string
	multi bool // accepts several keys
}

var blkForms = []blkForm{
	{"BLPOP", func(k []string, t string) []string { return append(append([]string{"BLPOP"}, k...), t) }, true},
	{"BRPOP", func(k []string, t string) []string { return append(append([]string{"BRPOP"}, k...), t) }, true},
	{"BLMOVE", func(k []string, t string) []string { return []string{"BLMOVE", k[0], "dst", "LEFT", "RIGHT", t} }, false},
	{"BRPOPLPUSH", func(k []string, t string) []string { return []string{"BRPOPLPUSH", k[0], "dst", t} }, false},
	{"BLMPOP", func(k []string, t string) []string {
		return append(append([]string{"BLMPOP", t, strconv.Itoa(len(k))}, k...), "LEFT")
	}, true},
}

// elements returns the "el-..." strings found anywhere in a reply.
func elements(v resp.Value) []string {
	var out []string
	var walk func(x resp.Value)
	walk = func(x resp.Value) {
		if x.Kind == '*' || x.Kind == '~' || x.Kind == '%' || x.Kind == '>' {
			for _, e := range x.Elems {
				walk(e)
			}
		} else if x.IsString() && strings.HasPrefix(x.Text(), "el-") {
			out = append(out, x.Text())
		}
	}
	walk(v)
	return out
}

// waiter is a client issuing one blocking command; the reply is collected asynchronously.
type waiter struct {
	cn    *wire.Conn
	id    int64
	cmd   []string
	done  chan struct{}
	reply resp.Value
	err   error
	t0    int64
	t1    int64
}

func newWaiter(e *emu) (*waiter, error) {
	cn, err := e.dial()
	if err != nil {
		noteInfra("a scenario was skipped: cannot connect a client")
		return nil, err
	}
	cn.Proto = 3
	id, err := cn.ClientID()
	if err != nil {
		noteInfra("a scenario was skipped: no CLIENT ID reply on a new connection")
		cn.Close()
		return nil, err
	}
	return &waiter{cn: cn, id: id}, nil
}

func (w *waiter) issue(cmd []string, watchdog time.Duration) {
	w.cmd = cmd
	w.done = make(chan struct{})
	w.t0 = wire.Now()
	w.cn.SendCmd(cmd...)
	go func() {
		w.reply, _, w.err = w.cn.ReadValue(watchdog)
		w.t1 = wire.Now()
		close(w.done)
	}()
}

func (w *waiter) finished(within time.Duration) bool {
	select {
	case <-w.done:
		return true
	case <-time.After(within):
		return false
	}
}

type c11Scn struct {
	r    *verdict.Run
	c    *host.Child
	e    *emu
	aux  *wire.Conn
	log  []string
	name string
}

func (s *c11Scn) logf(f string, a ...any) { s.log = append(s.log, fmt.Sprintf(f, a...)) }

func (s *c11Scn) do(args ...string) resp.Value {
	v, err := s.aux.Do(args...)
	if err != nil {
		s.logf("aux %s -> ERROR %v", cmdString(args), err)
		return resp.Value{}
	}
	s.logf("aux %s -> %s", cmdString(args), v)
	return v
}

// parkAt arms a park rule for the waiter at point, issues the blocking command and waits until it is parked there.
func (s *c11Scn) parkAt(w *waiter, point string, cmd []string) (token int64, ok bool) {
	from := s.c.EventCount()
	s.c.Ctl("park %s %d once", point, w.id)
	w.issue(cmd, 30*time.Second)
	s.logf("client %d: %s (to be parked at %s)", w.id, cmdString(cmd), point)
	ev, _, found := s.c.WaitEvent(from, func(e host.Event) bool { return e.Kind == "parked" && e.Point == point && e.ID == w.id }, 5*time.Second)
	if !found {
		s.logf("client %d never reached %s", w.id, point)
		return 0, false
	}
	return ev.Token, true
}

// waitPoint waits until the waiter passes point (observed through a watch rule).
func (s *c11Scn) release(token int64) { s.c.Ctl("release %d", token) }

func (s *c11Scn) rep() map[string]any { return map[string]any{"scenario": s.name, "script": s.log} }

const c11Settle = 400 * time.Millisecond

// expectServed: the waiter must complete with exactly the element el within the watchdog.
func (s *c11Scn) expectServed(w *waiter, el string, sig string) bool {
	if !w.finished(3 * time.Second) {
		// is the process responsive? (otherwise inconclusive)
		can := newCanary(s.e.port)
		alive, why := can.check(3 * time.Second)
		can.close()
		if !alive {
			s.r.Inconclusive("emulator unresponsive while waiting for a blocked client: " + why)
			return false
		}
		ll := s.do("LLEN", "q")
		s.logf("client %d still blocked after 3 s; LLEN q = %s", w.id, ll)
		s.r.Report(sig, fmt.Sprintf("%s: client %d (%s) is still blocked 3 s after an element was pushed for it (LLEN q = %s) although the emulator answers other clients", s.name, w.id, cmdString(w.cmd), ll), s.rep())
		return false
	}
	got := elements(w.reply)
	s.logf("client %d: reply %s", w.id, w.reply)
	if w.err != nil || len(got) != 1 || got[0] != el {
		s.r.Report(sig+"/wrong-reply", fmt.Sprintf("%s: client %d (%s) expected element %s, got %s (%v)", s.name, w.id, cmdString(w.cmd), el, w.reply, w.err), s.rep())
		return false
	}
	return true
}

func (s *c11Scn) expectStillBlocked(w *waiter, sig string) bool {
	if w.finished(c11Settle) {
		s.logf("client %d: unexpected reply %s", w.id, w.reply)
		s.r.Report(sig, fmt.Sprintf("%s: client %d (%s) completed with %s although nothing was pushed for it", s.name, w.id, cmdString(w.cmd), w.reply), s.rep())
		return false
	}
	return true
}

// conservation over q, dst and the replies
func (s *c11Scn) conserve(pushed []string, delivered map[string]int) {
	for _, k := range []string{"q", "a", "dst", "q2"} {
		v := s.do("LRANGE", k, "0", "-1")
		for _, e := range v.Elems {
			delivered[e.Text()]++
		}
	}
	for _, p := range pushed {
		if delivered[p] != 1 {
			s.r.Report("sched/conservation/"+s.name, fmt.Sprintf("%s: element %s was delivered or kept %d times (must be exactly once)", s.name, p, delivered[p]), s.rep())
			return
		}
	}
}

func c11Scenarios(r *verdict.Run, race bool) {
	type scn struct {
		kind     string
		form     blkForm
		multi    bool
		consumer []string // scenario d: the competing non-blocking consumer
	}
	var all []scn
	consumers := [][]string{{"LPOP", "q"}, {"RPOP", "q"}, {"LMOVE", "q", "other", "LEFT", "LEFT"}, {"DEL", "q"}, {"LTRIM", "q", "1", "0"}, {"RENAME", "q", "renamed"}, {"LPOP", "q", "5"}, {"LMPOP", "1", "q", "RIGHT"}}
	for _, f := range blkForms {
		for _, kind := range []string{"a:push-before-register", "b:push-after-register", "c:push-before-wait", "e:fifo-two-waiters", "e:fifo-multi-push"} {
			all = append(all, scn{kind: kind, form: f})
			if f.multi && kind[0] != 'e' {
				all = append(all, scn{kind: kind, form: f, multi: true})
			}
		}
		for _, cons := range consumers {
			all = append(all, scn{kind: "d:stolen-after-wake", form: f, consumer: cons})
		}
		for _, pusher := range [][]string{{"RPUSH", "q", "el-2"}, {"LPUSH", "q", "el-2"}, {"RPUSHX", "q", "el-2"}, {"LPUSHX", "q", "el-2"}, {"LMOVE", "src", "q", "LEFT", "RIGHT"}, {"RPOPLPUSH", "src", "q"}} {
			all = append(all, scn{kind: "g:second-push-while-first-waiter-woken", form: f, consumer: pusher})
		}
		for _, leave := range []string{"timeout", "unblock", "close", "other-key"} {
			if leave == "other-key" && !f.multi {
				continue
			}
			all = append(all, scn{kind: "h:newest-waiter-leaves", form: f, consumer: []string{leave}})
		}
		if f.multi {
			// a waiter that names the same key twice is still one client: a two-element push serves it and the next waiter
			all = append(all, scn{kind: "k:waiter-names-key-twice", form: f})
		}
		for _, fl := range [][]string{{"FLUSHDB"}, {"FLUSHALL"}, {"MULTI+FLUSHDB"}, {"SELECT1+FLUSHALL"}} {
			all = append(all, scn{kind: "i:flush-while-blocked", form: f, consumer: fl})
		}
		for _, leave := range []string{"unblock+unblock", "timeout+close", "close+unblock", "kill+timeout"} {
			all = append(all, scn{kind: "j:middle-then-last-waiter-leave", form: f, consumer: []string{leave}})
		}
		for _, leave := range []string{"unblock", "timeout", "kill", "close"} {
			for rep := 0; rep < 3; rep++ { // the outcome of the race inside the waiter is random: three attempts each
				all = append(all, scn{kind: "l:signalled-head-ends-otherwise", form: f, consumer: []string{leave, strconv.Itoa(rep)}})
				if f.multi && rep < 2 {
					// the same with waiters that name a missing key first and are woken through their second key
					all = append(all, scn{kind: "l:signalled-head-ends-otherwise", form: f, multi: true, consumer: []string{leave, strconv.Itoa(rep)}})
				}
			}
		}
		if f.name == "BLMPOP" {
			// a waiter that may take several elements (COUNT) from the first non-empty of several keys, woken by one
			// transaction that fills two of its keys
			for _, side := range []string{"LEFT", "RIGHT"} {
				all = append(all, scn{kind: "m:count-across-keys", form: f, consumer: []string{side}})
			}
		}
		if f.multi {
			all = append(all, scn{kind: "f:multi-key-woken-once", form: f, multi: true})
			all = append(all, scn{kind: "d:stolen-after-wake", form: f, multi: true, consumer: consumers[0]})
		}
	}
	r.Set("scheduled_scenarios", len(all))
	hit := map[string]bool{}
	var hitMu sync.Mutex
	parallel(len(all), 8, func(i int) {
		sc := all[i]
		c, err := startChild(race)
		if err != nil {
			r.Inconclusive("cannot start child")
			return
		}
		defer func() {
			if race {
				c.QuitGracefully()
				for _, rep := range c.RaceReports() {
					r.Report("race/"+rep.Sig, "race detector report during the blocking-pop schedules:\n"+headLines(rep.Text, 40), nil)
				}
				os_RemoveAll(c.Dir)
			} else {
				c.Stop()
			}
		}()
		e, err := startEmu(c, "")
		if err != nil {
			r.Inconclusive("infra: " + err.Error())
			return
		}
		aux, err := e.dial()
		if err != nil {
			return
		}
		defer aux.Close()
		s := &c11Scn{r: r, c: c, e: e, aux: aux, name: sc.kind + "/" + sc.form.name}
		if sc.multi {
			s.name += "/multi-key"
		}
		if sc.consumer != nil {
			s.name += "/" + strings.ToLower(sc.consumer[0])
			if len(sc.consumer) > 2 && sc.consumer[0] == "LPOP" {
				s.name += "-count"
			}
		}
		keys := []string{"q"}
		if sc.multi {
			keys = []string{"a", "q"} // "a" stays empty; the element arrives through the second key
		}
		w1, err := newWaiter(e)
		if err != nil {
			return
		}
		defer w1.cn.Close()
		delivered := map[string]int{}
		var pushed []string
		push := func(key string, els ...string) {
			s.do(append([]string{"RPUSH", key}, els...)...)
			pushed = append(pushed, els...)
		}
		moves := sc.form.name == "BLMOVE" || sc.form.name == "BRPOPLPUSH" // the element is also kept in dst
		_ = "right-popping forms take the other end of the list"
		note := func(w *waiter) {
			if moves {
				return
			}
			for _, el := range elements(w.reply) {
				delivered[el]++
			}
		}
		cmd := sc.form.args(keys, "0")
		ok := true
		switch sc.kind[0] {
		case 'a', 'b', 'c':
			point := map[byte]string{'a': "blk:before-register", 'b': "blk:after-register", 'c': "blk:before-wait"}[sc.kind[0]]
			tok, parked := s.parkAt(w1, point, cmd)
			if !parked {
				r.Inconclusive("hook point " + point + " not reached")
				return
			}
			push("q", "el-1")
			s.release(tok)
			ok = s.expectServed(w1, "el-1", "sched/lost-wakeup/"+sc.kind[2:]+"/"+sc.form.name)
			note(w1)
		case 'd':
			tok, parked := s.parkAt(w1, "blk:after-wake", cmd) // parks only once it has been woken
			_ = tok
			if parked {
				r.Inconclusive("unexpected immediate wake")
				return
			}
			// not parked yet: it is blocked. Arm was consumed? re-arm is not needed: the rule fires when the wake happens.
			push("q", "el-1")
			from := 0
			ev, _, found := c.WaitEvent(from, func(ev host.Event) bool { return ev.Kind == "parked" && ev.Point == "blk:after-wake" && ev.ID == w1.id }, 5*time.Second)
			if !found {
				r.Inconclusive("blk:after-wake not reached after a push")
				return
			}
			s.logf("client %d woken and parked before its retry", w1.id)
			// a competing consumer takes the element while the woken waiter has not retried yet
			cv := s.do(sc.consumer...)
			for _, el := range elements(cv) {
				delivered[el]++
			}
			if sc.consumer[0] == "DEL" || sc.consumer[0] == "LTRIM" {
				delivered["el-1"]++ // destroyed on purpose
			}
			if sc.consumer[0] == "RENAME" {
				s.do("DEL", "renamed")
				delivered["el-1"]++
			}
			if sc.consumer[0] == "LMOVE" {
				s.do("DEL", "other")
			}
			c.Ctl("watch blk:retry-failed")
			s.release(ev.Token)
			if _, _, f := c.WaitEvent(0, func(ev host.Event) bool { return ev.Kind == "hit" && ev.Point == "blk:retry-failed" && ev.ID == w1.id }, 5*time.Second); !f {
				s.logf("client %d: retry-failed point not observed", w1.id)
			}
			if !s.expectStillBlocked(w1, "sched/spurious-completion/"+sc.form.name) {
				return
			}
			// a second push: the waiter is the only blocked client and must be served
			push("q", "el-2")
			ok = s.expectServed(w1, "el-2", "sched/lost-wakeup/retry-failed-not-reregistered/"+sc.form.name)
			note(w1)
		case 'e':
			w2, err := newWaiter(e)
			if err != nil {
				return
			}
			defer w2.cn.Close()
			w3, err := newWaiter(e)
			if err != nil {
				return
			}
			defer w3.cn.Close()
			// registration order is confirmed through the blk:before-wait events
			for _, w := range []*waiter{w1, w2, w3} {
				from := c.EventCount()
				c.Ctl("watch blk:before-wait")
				w.issue(cmd, 30*time.Second)
				s.logf("client %d: %s", w.id, cmdString(cmd))
				if _, _, f := c.WaitEvent(from, func(ev host.Event) bool { return ev.Kind == "hit" && ev.Point == "blk:before-wait" && ev.ID == w.id }, 5*time.Second); !f {
					r.Inconclusive("waiter did not reach blk:before-wait")
					return
				}
			}
			if sc.kind == "e:fifo-two-waiters" {
				push("q", "el-1")
				ok = s.expectServed(w1, "el-1", "sched/fifo/longest-waiter-not-served/"+sc.form.name)
				note(w1)
				if ok {
					ok = s.expectStillBlocked(w2, "sched/fifo/second-waiter-completed/"+sc.form.name) && s.expectStillBlocked(w3, "sched/fifo/third-waiter-completed/"+sc.form.name)
				}
				if ok {
					push("q", "el-2")
					ok = s.expectServed(w2, "el-2", "sched/fifo/second-waiter-not-served/"+sc.form.name)
					note(w2)
					push("q", "el-3")
					s.expectServed(w3, "el-3", "sched/fifo/third-waiter-not-served/"+sc.form.name)
					note(w3)
				}
			} else {
				// two elements in one push: the two longest waiters get them, in order; the third stays blocked
				push("q", "el-1", "el-2")
				// both elements are available at once: the two longest waiters must be served (which of the two
				// elements each of them gets is not prescribed), the third must stay blocked
				a := w1.finished(3 * time.Second)
				b := w2.finished(3 * time.Second)
				if !a || !b {
					s.r.Report("sched/fifo/multi-push/waiter-not-served/"+sc.form.name, fmt.Sprintf("%s: two elements were pushed in one command but of the two longest waiters served=%v,%v", s.name, a, b), s.rep())
				} else {
					s.logf("client %d: reply %s; client %d: reply %s", w1.id, w1.reply, w2.id, w2.reply)
					got := append(elements(w1.reply), elements(w2.reply)...)
					sort.Strings(got)
					if strings.Join(got, ",") != "el-1,el-2" {
						s.r.Report("sched/fifo/multi-push/wrong-elements/"+sc.form.name, fmt.Sprintf("%s: the two waiters received %v", s.name, got), s.rep())
					}
					note(w1)
					note(w2)
				}
				if a && b {
					s.expectStillBlocked(w3, "sched/fifo/multi-push/third-completed/"+sc.form.name)
					push("q", "el-3")
					if w3.finished(3 * time.Second) {
						note(w3)
					}
				}
				ok = a && b
			}
			// right-popping forms take the other end: only conservation is asserted for element identity
		case 'g':
			// two waiters; the first is woken by a push and parked before its retry, so the list is non-empty while the
			// second waiter is still blocked; a second, separate push must wake the second waiter
			w2, err := newWaiter(e)
			if err != nil {
				return
			}
			defer w2.cn.Close()
			if sc.consumer[0] == "LMOVE" || sc.consumer[0] == "RPOPLPUSH" {
				s.do("RPUSH", "src", "el-2")
				pushed = append(pushed, "el-2")
			}
			c.Ctl("watch blk:before-wait")
			if tok, parked := s.parkAt(w1, "blk:after-wake", cmd); parked {
				_ = tok
				r.Inconclusive("unexpected immediate wake")
				return
			}
			from := c.EventCount()
			w2.issue(cmd, 30*time.Second)
			s.logf("client %d: %s", w2.id, cmdString(cmd))
			if _, _, f := c.WaitEvent(from, func(ev host.Event) bool { return ev.Kind == "hit" && ev.Point == "blk:before-wait" && ev.ID == w2.id }, 5*time.Second); !f {
				r.Inconclusive("second waiter did not reach blk:before-wait")
				return
			}
			push("q", "el-1")
			ev, _, found := c.WaitEvent(0, func(ev host.Event) bool { return ev.Kind == "parked" && ev.Point == "blk:after-wake" && ev.ID == w1.id }, 5*time.Second)
			if !found {
				r.Inconclusive("blk:after-wake not reached after a push")
				return
			}
			s.logf("client %d woken and parked before its retry; the list holds el-1", w1.id)
			s.do(sc.consumer...)
			if sc.consumer[0] != "LMOVE" && sc.consumer[0] != "RPOPLPUSH" {
				pushed = append(pushed, "el-2")
			}
			if !w2.finished(3 * time.Second) {
				can := newCanary(s.e.port)
				alive, why := can.check(3 * time.Second)
				can.close()
				if !alive {
					s.r.Inconclusive("emulator unresponsive while waiting for a blocked client: " + why)
					return
				}
				ll := s.do("LLEN", "q")
				s.r.Report("sched/lost-wakeup/second-push-while-first-waiter-woken/"+sc.form.name, fmt.Sprintf("%s: client %d is still blocked 3 s after %s although the list holds %s elements and the only other waiter (client %d) was already woken by the first push", s.name, w2.id, cmdString(sc.consumer), ll, w1.id), s.rep())
				s.release(ev.Token)
				return
			}
			s.logf("client %d: reply %s", w2.id, w2.reply)
			note(w2)
			s.release(ev.Token)
			if !w1.finished(3 * time.Second) {
				ll := s.do("LLEN", "q")
				s.r.Report("sched/lost-wakeup/woken-waiter-not-served-after-second-push/"+sc.form.name, fmt.Sprintf("%s: the first waiter (client %d) did not complete after its release although two elements had been pushed for two waiters (LLEN q = %s)", s.name, w1.id, ll), s.rep())
				return
			}
			s.logf("client %d: reply %s", w1.id, w1.reply)
			note(w1)
			if len(elements(w1.reply)) != 1 || len(elements(w2.reply)) != 1 {
				s.r.Report("sched/lost-wakeup/second-push/wrong-reply/"+sc.form.name, fmt.Sprintf("%s: replies %s and %s (each waiter must get one element)", s.name, w1.reply, w2.reply), s.rep())
			}
		case 'm':
			// BLMPOP 0 3 a q q2 <side> COUNT 5 is blocked; one transaction pushes one element to q and two to q2. The
			// waiter takes what the FIRST non-empty key holds (at most COUNT) and nothing else: every element is either
			// in its reply or still in its list.
			side := sc.consumer[0]
			cmdM := []string{"BLMPOP", "0", "3", "a", "q", "q2", side, "COUNT", "5"}
			from := c.EventCount()
			c.Ctl("watch blk:before-wait")
			w1.issue(cmdM, 30*time.Second)
			s.logf("client %d: %s", w1.id, cmdString(cmdM))
			if _, _, f := c.WaitEvent(from, func(ev host.Event) bool { return ev.Kind == "hit" && ev.Point == "blk:before-wait" && ev.ID == w1.id }, 5*time.Second); !f {
				r.Inconclusive("waiter did not reach blk:before-wait")
				return
			}
			time.Sleep(5 * time.Millisecond)
			s.do("MULTI")
			s.do("RPUSH", "q", "el-1")
			s.do("RPUSH", "q2", "el-2", "el-3")
			s.do("EXEC")
			pushed = append(pushed, "el-1", "el-2", "el-3")
			if !w1.finished(3 * time.Second) {
				r.Report("sched/lost-wakeup/count-across-keys/"+side, fmt.Sprintf("%s: the waiter was not served", s.name), s.rep())
				ok = false
				break
			}
			note(w1)
			got := elements(w1.reply)
			if len(got) != 1 || got[0] != "el-1" {
				r.Report("sched/multi-key/count-reaches-into-later-keys/"+side, fmt.Sprintf("%s: the waiter's reply is %s; it must be the one element of q, the first non-empty key", s.name, w1.reply), s.rep())
				ok = false
			}
		case 'l':
			// A (head of the queue) is held just before its wait; B blocks behind it. A push wakes A (it is taken out of the
			// queue and handed the wake-up) and at the same moment A's block ends for another reason (CLIENT UNBLOCK, its
			// timeout, CLIENT KILL, its connection closing). When A is let go it either takes the element - fine - or ends
			// without it: then the element belongs to B. What must not happen: the element stays in the list while B
			// keeps waiting for it.
			wB, err := newWaiter(e)
			if err != nil {
				return
			}
			defer wB.cn.Close()
			leave := sc.consumer[0]
			cmdA := cmd
			if leave == "timeout" {
				cmdA = sc.form.args(keys, "0.05")
			}
			tok, parked := s.parkAt(w1, "blk:before-wait", cmdA)
			if !parked {
				r.Inconclusive("hook point blk:before-wait not reached")
				return
			}
			from := c.EventCount()
			c.Ctl("watch blk:before-wait")
			wB.issue(cmd, 30*time.Second)
			s.logf("client %d: %s", wB.id, cmdString(cmd))
			if _, _, f := c.WaitEvent(from, func(ev host.Event) bool { return ev.Kind == "hit" && ev.Point == "blk:before-wait" && ev.ID == wB.id }, 5*time.Second); !f {
				r.Inconclusive("second waiter did not reach blk:before-wait")
				return
			}
			time.Sleep(5 * time.Millisecond)
			push("q", "el-1")
			switch leave {
			case "unblock":
				s.do("CLIENT", "UNBLOCK", strconv.FormatInt(w1.id, 10))
			case "timeout":
				time.Sleep(80 * time.Millisecond) // its 50 ms are over
			case "kill":
				s.do("CLIENT", "KILL", "ID", strconv.FormatInt(w1.id, 10))
				time.Sleep(20 * time.Millisecond)
			case "close":
				w1.cn.Close()
				time.Sleep(150 * time.Millisecond)
			}
			s.release(tok)
			w1.finished(3 * time.Second)
			got1 := len(elements(w1.reply)) == 1 && w1.err == nil
			if moves && w1.err == nil && !w1.reply.Null && w1.reply.Kind == '$' {
				got1 = true
			}
			s.logf("client %d (woken and ended by %s at the same moment): reply %s err %v", w1.id, leave, w1.reply, w1.err)
			time.Sleep(c11Settle)
			ll := s.do("LLEN", "q")
			if ll.Int > 0 && !wB.finished(10*time.Millisecond) {
				r.Report("sched/lost-wakeup/wake-up-spent-on-a-client-that-ended-otherwise/"+sc.form.name+"/"+leave,
					fmt.Sprintf("%s: the head waiter was woken by the push and ended by %s without taking the element (its reply: %s %v); LLEN q = %s and the second waiter is still blocked", s.name, leave, w1.reply, w1.err, ll), s.rep())
				ok = false
				break
			}
			r.Distinct(fmt.Sprintf("schedule/%s/head-took-the-element=%v", s.name, got1))
			if wB.finished(10 * time.Millisecond) {
				note(wB)
				if got1 || leave == "kill" || leave == "close" {
					// (a killed or closed head may have taken the element with it into a reply nobody reads: conservation
					// is checked below only where every reply can be read)
				}
			} else {
				// the head took it: B is served by the next push
				push("q", "el-2")
				ok = s.expectServed(wB, "el-2", "sched/lost-wakeup/second-waiter-not-served/"+sc.form.name)
				note(wB)
			}
			if got1 {
				note(w1)
			}
		case 'h':
			// A (oldest) and B block on q; B - the newest entry of the wait queue - leaves without being served (timeout,
			// CLIENT UNBLOCK, disconnect, or served through its other key) while A stays; then C blocks. The next push
			// belongs to A, the one after it to C; nobody may be orphaned.
			wB, err := newWaiter(e)
			if err != nil {
				return
			}
			defer wB.cn.Close()
			wC, err := newWaiter(e)
			if err != nil {
				return
			}
			defer wC.cn.Close()
			leave := sc.consumer[0]
			waitBlocked := func(w *waiter, cmd []string) bool {
				from := c.EventCount()
				c.Ctl("watch blk:before-wait")
				w.issue(cmd, 30*time.Second)
				s.logf("client %d: %s", w.id, cmdString(cmd))
				_, _, f := c.WaitEvent(from, func(ev host.Event) bool { return ev.Kind == "hit" && ev.Point == "blk:before-wait" && ev.ID == w.id }, 5*time.Second)
				return f
			}
			if !waitBlocked(w1, cmd) {
				r.Inconclusive("waiter did not reach blk:before-wait")
				return
			}
			cmdB := cmd
			switch leave {
			case "timeout":
				cmdB = sc.form.args(keys, "0.2")
			case "other-key":
				cmdB = sc.form.args([]string{"other", "q"}, "0")
			}
			if !waitBlocked(wB, cmdB) {
				r.Inconclusive("second waiter did not reach blk:before-wait")
				return
			}
			switch leave {
			case "timeout":
				if !wB.finished(3*time.Second) || !wB.reply.Null {
					r.Inconclusive("the short-timeout waiter did not time out")
					return
				}
			case "unblock":
				s.do("CLIENT", "UNBLOCK", strconv.FormatInt(wB.id, 10))
				wB.finished(3 * time.Second)
			case "close":
				wB.cn.Close()
				time.Sleep(150 * time.Millisecond)
			case "other-key":
				s.do("RPUSH", "other", "el-other")
				pushed = append(pushed, "el-other")
				if !wB.finished(3 * time.Second) {
					r.Inconclusive("the multi-key waiter was not served through its other key")
					return
				}
				note(wB)
			}
			s.logf("client %d (newest waiter on q) left by %s", wB.id, leave)
			if !waitBlocked(wC, cmd) {
				r.Inconclusive("third waiter did not reach blk:before-wait")
				return
			}
			push("q", "el-1")
			ok = s.expectServed(w1, "el-1", "sched/fifo/oldest-waiter-skipped-after-newest-left/"+sc.form.name)
			note(w1)
			if ok {
				ok = s.expectStillBlocked(wC, "sched/fifo/newcomer-completed-early/"+sc.form.name)
			}
			if ok {
				push("q", "el-2")
				ok = s.expectServed(wC, "el-2", "sched/lost-wakeup/waiter-orphaned-after-newest-left/"+sc.form.name)
				note(wC)
			}
		case 'k':
			wB, err := newWaiter(e)
			if err != nil {
				return
			}
			defer wB.cn.Close()
			wC, err := newWaiter(e)
			if err != nil {
				return
			}
			defer wC.cn.Close()
			c.Ctl("watch blk:before-wait")
			for k, w := range []*waiter{w1, wB, wC} {
				from := c.EventCount()
				wcmd := cmd
				if k == 0 {
					wcmd = sc.form.args([]string{"q", "q", "q"}, "0")
				}
				w.issue(wcmd, 30*time.Second)
				s.logf("client %d: %s", w.id, cmdString(wcmd))
				if _, _, f := c.WaitEvent(from, func(ev host.Event) bool { return ev.Kind == "hit" && ev.Point == "blk:before-wait" && ev.ID == w.id }, 5*time.Second); !f {
					r.Inconclusive("waiter did not reach blk:before-wait")
					return
				}
			}
			push("q", "el-1", "el-2")
			a := w1.finished(3 * time.Second)
			b := wB.finished(3 * time.Second)
			if !a || !b {
				ll := s.do("LLEN", "q")
				s.r.Report("sched/lost-wakeup/waiter-naming-a-key-twice-uses-two-wakeups/"+sc.form.name, fmt.Sprintf("%s: the first waiter names q three times, a second and a third client wait on q; RPUSH q el-1 el-2 served first=%v second=%v (LLEN q = %s)", s.name, a, b, ll), s.rep())
				ok = false
			} else {
				note(w1)
				note(wB)
				s.expectStillBlocked(wC, "sched/fifo/third-waiter-completed/"+sc.form.name)
				push("q", "el-3")
				if wC.finished(3 * time.Second) {
					note(wC)
				}
			}
		case 'i':
			// the database is flushed while a client is blocked on q (and a second client blocks after the flush): pushes
			// afterwards must serve them in the order in which they started to wait
			wB, err := newWaiter(e)
			if err != nil {
				return
			}
			defer wB.cn.Close()
			from := c.EventCount()
			c.Ctl("watch blk:before-wait")
			w1.issue(cmd, 30*time.Second)
			if _, _, f := c.WaitEvent(from, func(ev host.Event) bool { return ev.Kind == "hit" && ev.Point == "blk:before-wait" && ev.ID == w1.id }, 5*time.Second); !f {
				r.Inconclusive("waiter did not reach blk:before-wait")
				return
			}
			switch sc.consumer[0] {
			case "FLUSHDB", "FLUSHALL":
				s.do(sc.consumer[0])
			case "MULTI+FLUSHDB":
				s.do("MULTI")
				s.do("FLUSHDB")
				s.do("EXEC")
			case "SELECT1+FLUSHALL":
				s.do("SELECT", "1")
				s.do("FLUSHALL")
				s.do("SELECT", "0")
			}
			from = c.EventCount()
			wB.issue(cmd, 30*time.Second)
			if _, _, f := c.WaitEvent(from, func(ev host.Event) bool { return ev.Kind == "hit" && ev.Point == "blk:before-wait" && ev.ID == wB.id }, 5*time.Second); !f {
				r.Inconclusive("second waiter did not reach blk:before-wait")
				return
			}
			push("q", "el-1")
			ok = s.expectServed(w1, "el-1", "sched/lost-wakeup/blocked-across-flush/"+sc.form.name)
			note(w1)
			if ok {
				ok = s.expectStillBlocked(wB, "sched/fifo/newcomer-served-before-waiter-from-before-the-flush/"+sc.form.name)
			}
			if ok {
				push("q", "el-2")
				ok = s.expectServed(wB, "el-2", "sched/lost-wakeup/waiter-after-flush-not-served/"+sc.form.name)
				note(wB)
			}
		case 'j':
			// A, B, C block in this order; B (middle of the queue) leaves, then C (the one behind it) leaves; A is still
			// waiting and must get the next element; a newcomer D the one after
			ws := []*waiter{w1}
			for k := 0; k < 3; k++ {
				w, err := newWaiter(e)
				if err != nil {
					return
				}
				defer w.cn.Close()
				ws = append(ws, w)
			}
			wB, wC, wD := ws[1], ws[2], ws[3]
			waitBlocked := func(w *waiter, cmd []string) bool {
				from := c.EventCount()
				c.Ctl("watch blk:before-wait")
				w.issue(cmd, 30*time.Second)
				s.logf("client %d: %s", w.id, cmdString(cmd))
				_, _, f := c.WaitEvent(from, func(ev host.Event) bool { return ev.Kind == "hit" && ev.Point == "blk:before-wait" && ev.ID == w.id }, 5*time.Second)
				return f
			}
			how := strings.Split(sc.consumer[0], "+")
			cmdFor := func(h string) []string {
				if h == "timeout" {
					return sc.form.args(keys, "0.3")
				}
				return cmd
			}
			if !waitBlocked(w1, cmd) || !waitBlocked(wB, cmdFor(how[0])) || !waitBlocked(wC, cmdFor(how[1])) {
				r.Inconclusive("waiters did not reach blk:before-wait")
				return
			}
			leave := func(w *waiter, h string) {
				switch h {
				case "unblock":
					s.do("CLIENT", "UNBLOCK", strconv.FormatInt(w.id, 10))
					w.finished(3 * time.Second)
				case "kill":
					s.do("CLIENT", "KILL", "ID", strconv.FormatInt(w.id, 10))
					time.Sleep(150 * time.Millisecond)
				case "close":
					w.cn.Close()
					time.Sleep(150 * time.Millisecond)
				case "timeout":
					w.finished(3 * time.Second)
				}
				s.logf("client %d left by %s", w.id, h)
			}
			if how[0] == "timeout" && how[1] != "timeout" {
				leave(wB, how[0]) // B's short timeout runs out first
				leave(wC, how[1])
			} else {
				leave(wB, how[0])
				leave(wC, how[1])
			}
			push("q", "el-1")
			ok = s.expectServed(w1, "el-1", "sched/lost-wakeup/head-waiter-dropped-when-two-behind-it-left/"+sc.form.name)
			note(w1)
			if ok {
				if !waitBlocked(wD, cmd) {
					r.Inconclusive("newcomer did not reach blk:before-wait")
					return
				}
				push("q", "el-2")
				ok = s.expectServed(wD, "el-2", "sched/lost-wakeup/newcomer-not-served-after-queue-repair/"+sc.form.name)
				note(wD)
			}
		case 'f':
			// blocked on [a, q]; served through q; a later push to a must stay in a
			from := c.EventCount()
			c.Ctl("watch blk:before-wait")
			w1.issue(cmd, 30*time.Second)
			if _, _, f := c.WaitEvent(from, func(ev host.Event) bool { return ev.Kind == "hit" && ev.Point == "blk:before-wait" && ev.ID == w1.id }, 5*time.Second); !f {
				r.Inconclusive("waiter did not reach blk:before-wait")
				return
			}
			push("q", "el-1")
			ok = s.expectServed(w1, "el-1", "sched/multi-key/not-served/"+sc.form.name)
			note(w1)
			push("a", "el-2")
			if v := s.do("LLEN", "a"); v.Int != 1 {
				s.r.Report("sched/multi-key/element-swallowed/"+sc.form.name, fmt.Sprintf("%s: after the waiter was served through q, an element pushed to its other key a disappeared (LLEN a = %s)", s.name, v), s.rep())
				ok = false
			}
		}
		if sc.kind[0] == 'a' || sc.kind[0] == 'b' || sc.kind[0] == 'c' || sc.kind[0] == 'd' || sc.kind[0] == 'f' || sc.kind[0] == 'g' || sc.kind[0] == 'h' || sc.kind[0] == 'i' || sc.kind[0] == 'j' || sc.kind[0] == 'm' || sc.kind == "e:fifo-two-waiters" {
			if sc.form.name != "BRPOP" && sc.form.name != "BRPOPLPUSH" || true {
				s.conserve(pushed, delivered)
			}
		}
		_ = ok
		r.Eval(1)
		r.Distinct("schedule/" + s.name)
		evs := c.EventsSince(0)
		hitMu.Lock()
		for _, ev := range evs {
			if ev.Point != "" {
				hit[ev.Point] = true
			}
		}
		hitMu.Unlock()
	})
	var pts []string
	for p := range hit {
		pts = append(pts, p)
	}
	sort.Strings(pts)
	r.Set("hook_points_hit", pts)
}

// c11Blocked counts the clients that CLIENT LIST flags as blocked.
func c11Blocked(cn *wire.Conn) (int, string) {
	cl, err := cn.Do("CLIENT", "LIST")
	if err != nil {
		return 0, ""
	}
	n := 0
	for _, line := range strings.Split(cl.Text(), "\n") {
		for _, f := range strings.Fields(line) {
			if strings.HasPrefix(f, "flags=") && strings.Contains(f[6:], "b") {
				n++
			}
		}
	}
	return n, cl.Text()
}

// c11Stress: producers, blocking consumers and non-blocking consumers on 1-3 lists; conservation, stuck-waiter and order checks.
func c11Stress(r *verdict.Run, runs int, race bool) {
	parallel(runs, 8, func(run int) {
		rng := shardRng(r, 3000+run)
		c, err := startChild(race)
		if err != nil {
			r.Inconclusive("cannot start child")
			return
		}
		defer func() {
			if race {
				c.QuitGracefully()
				for _, rep := range c.RaceReports() {
					r.Report("race/"+rep.Sig, "race detector report during the blocking-pop stress:\n"+headLines(rep.Text, 40), nil)
				}
				os_RemoveAll(c.Dir)
			} else {
				c.Stop()
			}
		}()
		e, err := startEmu(c, "")
		if err != nil {
			r.Inconclusive("infra: " + err.Error())
			return
		}
		c.Ctl("seed %d", r.Seed*53+int64(run))
		c.Ctl("yield blk: 300 300")
		c.Ctl("yield ds: 100 100")
		nlists := 1 + rng.Intn(3)
		lists := []string{"q0", "q1", "q2"}[:nlists]
		nprod, nblk, nnb := 2+rng.Intn(3), 3+rng.Intn(4), 1+rng.Intn(2)
		// every other run blocks without a timeout (a finite timeout heals a lost wake-up: the consumer simply comes
		// back and finds the element), half of those without competing non-blocking consumers
		infinite := run%2 == 1
		if infinite && run%4 == 1 {
			nnb = 0
		}
		var consMu sync.Mutex
		var consConns []*wire.Conn
		perProd := 60 + rng.Intn(80)
		var mu sync.Mutex
		pushedOrder := map[string][]string{} // per (producer,list) order of ids pushed with RPUSH
		popped := map[string]int{}
		type popEv struct {
			id     string
			t0, t1 int64
		}
		var leftPops []popEv
		var prodWg, consWg sync.WaitGroup
		var stop atomic.Bool
		for p := 0; p < nprod; p++ {
			prodWg.Add(1)
			go func(p int) {
				defer prodWg.Done()
				cn, err := e.dial()
				if err != nil {
					return
				}
				defer cn.Close()
				prng := rand.New(rand.NewSource(int64(run*100 + p)))
				for i := 0; i < perProd; {
					n := 1 + prng.Intn(3)
					l := lists[prng.Intn(len(lists))]
					args := []string{"RPUSH", l}
					var ids []string
					for j := 0; j < n && i < perProd; j++ {
						ids = append(ids, fmt.Sprintf("el-%d-%d", p, i))
						i++
					}
					if _, err := cn.Do(append(args, ids...)...); err != nil {
						return
					}
					mu.Lock()
					pushedOrder[fmt.Sprintf("%d/%s", p, l)] = append(pushedOrder[fmt.Sprintf("%d/%s", p, l)], ids...)
					mu.Unlock()
					if prng.Intn(4) == 0 {
						time.Sleep(time.Duration(prng.Intn(500)) * time.Microsecond)
					}
				}
			}(p)
		}
		consumer := func(blocking bool, idx int) {
			defer consWg.Done()
			cn, err := e.dial()
			if err != nil {
				return
			}
			defer cn.Close()
			cn.Proto = 3
			cn.Timeout = 20 * time.Second
			if infinite && blocking {
				cn.Timeout = 10 * time.Minute // ended by closing the connection
				consMu.Lock()
				consConns = append(consConns, cn)
				consMu.Unlock()
			}
			crng := rand.New(rand.NewSource(int64(run*1000 + idx)))
			for !stop.Load() {
				l := lists[crng.Intn(len(lists))]
				var args []string
				left := false
				if blocking && infinite {
					// wait on every list, so that any remaining element concerns every blocked consumer
					form := crng.Intn(3)
					if len(lists) == 1 {
						form = crng.Intn(5)
					}
					switch form {
					case 0:
						args, left = append(append([]string{"BLPOP"}, lists...), "0"), true
					case 1:
						args = append(append([]string{"BRPOP"}, lists...), "0")
					case 2:
						args, left = append(append([]string{"BLMPOP", "0", strconv.Itoa(len(lists))}, lists...), "LEFT"), true
					case 3:
						args, left = []string{"BLMOVE", l, "sink", "LEFT", "RIGHT", "0"}, true
					case 4:
						args = []string{"BRPOPLPUSH", l, "sink", "0"}
					}
				} else if blocking {
					to := []string{"0.05", "0.2", "0.02"}[crng.Intn(3)]
					switch crng.Intn(5) {
					case 0:
						args, left = []string{"BLPOP", l, lists[0], to}, true
					case 1:
						args = []string{"BRPOP", l, to}
					case 2:
						args, left = []string{"BLMPOP", to, "1", l, "LEFT"}, true
					case 3:
						args, left = []string{"BLMOVE", l, "sink", "LEFT", "RIGHT", to}, true
					case 4:
						args = []string{"BRPOPLPUSH", l, "sink", to}
					}
				} else {
					switch crng.Intn(4) {
					case 0:
						args, left = []string{"LPOP", l}, true
					case 1:
						args = []string{"RPOP", l}
					case 2:
						args, left = []string{"LMPOP", "1", l, "LEFT", "COUNT", "2"}, true
					case 3:
						args, left = []string{"LMOVE", l, "sink", "LEFT", "LEFT"}, true
					}
					time.Sleep(time.Duration(crng.Intn(300)) * time.Microsecond)
				}
				t0 := wire.Now()
				v, err := cn.Do(args...)
				t1 := wire.Now()
				if err != nil {
					if !stop.Load() {
						r.Report("stress/no-reply/"+strings.ToLower(args[0]), fmt.Sprintf("no reply to %s during the stress run: %v", cmdString(args), err), nil)
					}
					return
				}
				els := elements(model.Down(v))
				mu.Lock()
				for _, el := range els {
					popped[el]++
					if left && len(els) == 1 && args[len(args)-1] != "2" && len(lists) == 1 {
						leftPops = append(leftPops, popEv{el, t0, t1})
					}
				}
				mu.Unlock()
				// moved to sink: drain it so that conservation sees each element once
			}
		}
		for b := 0; b < nblk; b++ {
			consWg.Add(1)
			go consumer(true, b)
		}
		for n := 0; n < nnb; n++ {
			consWg.Add(1)
			go consumer(false, 100+n)
		}
		prodWg.Wait()
		// let the consumers drain, then stop them (they use finite timeouts)
		fin, _ := e.dial()
		defer fin.Close()
		deadline := time.Now().Add(10 * time.Second)
		lastTotal, lastChange := int64(-1), time.Now()
		for time.Now().Before(deadline) {
			total := int64(0)
			for _, l := range lists {
				v, _ := fin.Do("LLEN", l)
				total += v.Int
			}
			if total == 0 {
				break
			}
			if total != lastTotal {
				lastTotal, lastChange = total, time.Now()
			}
			if infinite && time.Since(lastChange) > 2*time.Second {
				// nothing has been consumed for 2 s although every blocking consumer waits on every list
				blocked, cl := c11Blocked(fin)
				can := newCanary(e.port)
				alive, _ := can.check(3 * time.Second)
				can.close()
				if alive && blocked > 0 {
					r.Report("stress/lost-wakeup/blocked-on-non-empty-list", fmt.Sprintf("run %d: the lists hold %d elements and nothing has been consumed for 2 s, yet %d of %d consumers are blocked (timeout 0) on all of these lists (%v); CLIENT LIST:\n%s", run, total, blocked, nblk, lists, headLines(cl, 12)), map[string]any{"lists": lists, "producers": nprod, "blocking_consumers": nblk, "non_blocking_consumers": nnb})
				}
				break
			}
			time.Sleep(10 * time.Millisecond)
		}
		quiescent := true
		if infinite {
			// before the connections are closed every consumer must be back in a blocking command (it has then read all
			// its earlier replies: closing a connection with an unread reply would look like a lost element)
			quiescent = false
			for t := time.Now(); time.Since(t) < 5*time.Second; time.Sleep(5 * time.Millisecond) {
				if n, _ := c11Blocked(fin); n >= nblk {
					quiescent = true
					break
				}
			}
		}
		stop.Store(true)
		consMu.Lock()
		for _, cn := range consConns {
			cn.Close()
		}
		consMu.Unlock()
		consWg.Wait()
		rest := map[string]int{}
		for _, l := range append(append([]string{}, lists...), "sink") {
			v, _ := fin.Do("LRANGE", l, "0", "-1")
			for _, el := range v.Elems {
				rest[el.Text()]++
			}
		}
		// conservation: every id exactly once (popped by a pop reply, or moved to sink / left in a list)
		lost, dup := []string{}, []string{}
		total := 0
		for _, ids := range pushedOrder {
			for _, id := range ids {
				total++
				n := rest[id]
				if rest[id] == 0 {
					n = popped[id]
				} else if popped[id] > 0 {
					// BLMOVE/LMOVE replies also name the element they moved to sink: count the move once
					n = rest[id]
				}
				if n == 0 {
					lost = append(lost, id)
				} else if n > 1 || (rest[id] == 0 && popped[id] > 1) {
					dup = append(dup, id)
				}
			}
		}
		if !quiescent {
			r.Count("stress_runs_without_quiescence", 1)
		} else if len(lost) > 0 || len(dup) > 0 {
			r.Report("stress/conservation", fmt.Sprintf("run %d: %d ids pushed; lost %v; duplicated %v", run, total, lost[:min(3, len(lost))], dup[:min(3, len(dup))]), map[string]any{"lists": lists, "producers": nprod, "blocking_consumers": nblk})
		}
		// a list that is non-empty at the end while blocking consumers were still running would have been drained:
		for _, l := range lists {
			if infinite {
				break // judged above, while the consumers were still connected
			}
			if v, _ := fin.Do("LLEN", l); v.Int > 0 {
				r.Report("stress/elements-left-with-waiters", fmt.Sprintf("run %d: list %s still holds %d elements although %d blocking consumers kept popping it for 10 s", run, l, v.Int, nblk), nil)
			}
		}
		// order at the left end (single list, single-element left pops): if pop A returned before pop B was called,
		// A's id precedes B's id in its producer's push order
		if len(lists) == 1 {
			pos := map[string]int{}
			prodOf := map[string]string{}
			for k, ids := range pushedOrder {
				for i, id := range ids {
					pos[id] = i
					prodOf[id] = k
				}
			}
			sort.Slice(leftPops, func(i, j int) bool { return leftPops[i].t1 < leftPops[j].t1 })
			viol := 0
			for i := 0; i < len(leftPops) && viol == 0; i++ {
				for j := i + 1; j < len(leftPops); j++ {
					a, b := leftPops[i], leftPops[j]
					if a.t1 < b.t0 && prodOf[a.id] == prodOf[b.id] && pos[a.id] > pos[b.id] {
						viol++
						r.Report("stress/order", fmt.Sprintf("run %d: %s was popped from the left (returned at %d) before the pop of %s was even called (%d), but %s was pushed earlier by the same producer", run, a.id, a.t1, b.id, b.t0, b.id), nil)
						break
					}
				}
			}
		}
		r.Eval(total)
		r.Count("stress_elements", int64(total))
		r.Distinct(fmt.Sprintf("stress/lists%d/prod%d/blk%d/nb%d/infinite=%v", nlists, nprod, nblk, nnb, infinite))
	})
}

func checkC11(r *verdict.Run) {
	r.Rule = "(1) hook-driven schedules for each of BLPOP/BRPOP/BLMOVE/BRPOPLPUSH/BLMPOP (single and multi-key): a push landing before registration / after registration / between capture and wait; a woken waiter parked before its retry while LPOP/RPOP/LMOVE/DEL/LTRIM/RENAME/LPOP n/LMPOP takes the element, then a second push (must be served); three waiters in confirmed registration order with one push and with a two-element push; a multi-key waiter served through one key then a push to its other key; the head waiter woken by a push and ended by CLIENT UNBLOCK / its timeout / CLIENT KILL / a closed connection at the same moment with a second waiter behind it (the element must reach the second waiter); " +
		"oracles: served within 3 s (violation only if a canary shows the emulator responsive), stays blocked for 400 ms, exactly-once conservation, longest waiter first. (2) random stress with yields inside the block/wake loop: unique ids, conservation, no list left non-empty while blocking consumers run, left-end order per producer; every other stress run blocks without timeouts (a finite timeout heals a lost wake-up) and reports consumers that stay blocked on a non-empty list; (3) bursts: k clients block once on a fresh list, then k separate pushes (RPUSH/LPUSH/RPUSHX/LPUSHX/LMOVE/RPOPLPUSH) arrive in one write or one MULTI/EXEC: every waiter must complete while elements remain; (4) rounds: 2-6 consumers loop on BLPOP/BRPOP q 0 (no timeout) while a producer sends as many single-element pushes as there are consumers in one write and waits for all of them to be consumed before the next round (consumers register, re-check and wake at every relative position to the pushes): no round may end with an element in the list and a consumer blocked on it. distinct = schedules + stress configurations + burst shapes"
	c11Scenarios(r, false)
	c11Stress(r, tierPick(r, 16, 300), false)
	c11Bursts(r, tierPick(r, 16, 200))
	c11Rounds(r, tierPick(r, 8, 64), tierPick(r, 1500, 6000))
	if r.Tier == "thorough" {
		c11Scenarios(r, true)
		c11Stress(r, 16, true)
	}
	r.Assume("'stays blocked' is a bounded observation (400 ms); 'must be served' uses a 3 s watchdog and requires a responsive canary")
}

// c11Bursts: k clients block on one fresh list (each exactly once, no timeout); when all of them are blocked a
// producer sends k separate push commands in ONE write (optionally wrapped in MULTI/EXEC), so that pushes arrive
// while earlier woken waiters have not retried yet. Every waiter must complete, every element is delivered once.
// (The long stress cannot see this class: its consumers come back at once and drain what a lost wake-up left.)
func c11Bursts(r *verdict.Run, runs int) {
	parallel(runs, 8, func(run int) {
		rng := shardRng(r, 5000+run)
		c, err := startChild(false)
		if err != nil {
			r.Inconclusive("cannot start child")
			return
		}
		defer c.Stop()
		e, err := startEmu(c, "")
		if err != nil {
			r.Inconclusive("infra: " + err.Error())
			return
		}
		c.Ctl("seed %d", r.Seed*71+int64(run))
		if run%2 == 0 {
			c.Ctl("yield blk: 400 400") // widen the window between a wake-up and the retry
		}
		prod, err := e.dial()
		if err != nil {
			return
		}
		defer prod.Close()
		for iter := 0; iter < 12; iter++ {
			k := 2 + rng.Intn(4)
			q := fmt.Sprintf("bq%d", iter)
			src := fmt.Sprintf("bsrc%d", iter)
			var ws []*waiter
			var forms []string
			for i := 0; i < k; i++ {
				w, err := newWaiter(e)
				if err != nil {
					return
				}
				defer w.cn.Close()
				f := blkForms[rng.Intn(len(blkForms))]
				w.issue(f.args([]string{q}, "0"), 60*time.Second)
				ws = append(ws, w)
				forms = append(forms, f.name)
			}
			// all k must be blocked before the burst
			ready := false
			for t := time.Now(); time.Since(t) < 5*time.Second; time.Sleep(2 * time.Millisecond) {
				if n, _ := c11Blocked(prod); n >= k {
					ready = true
					break
				}
			}
			if !ready {
				r.Inconclusive("burst: the waiters did not all block")
				return
			}
			// the burst: k single-element pushes of random kinds in one write
			var cmds [][]string
			var ids []string
			mode := []string{"pipeline", "multi"}[rng.Intn(2)]
			var pre [][]string
			for i := 0; i < k; i++ {
				id := fmt.Sprintf("el-%d-%d-%d", run, iter, i)
				ids = append(ids, id)
				kind := rng.Intn(6)
				if i == 0 && (kind == 2 || kind == 3) {
					kind = 0 // PUSHX needs an existing list
				}
				switch kind {
				case 0:
					cmds = append(cmds, []string{"RPUSH", q, id})
				case 1:
					cmds = append(cmds, []string{"LPUSH", q, id})
				case 2:
					cmds = append(cmds, []string{"RPUSHX", q, id})
				case 3:
					cmds = append(cmds, []string{"LPUSHX", q, id})
				case 4:
					pre = append(pre, []string{"RPUSH", src, id})
					cmds = append(cmds, []string{"LMOVE", src, q, "LEFT", "RIGHT"})
				case 5:
					pre = append(pre, []string{"RPUSH", src, id})
					cmds = append(cmds, []string{"RPOPLPUSH", src, q})
				}
			}
			for _, p := range pre {
				prod.Do(p...)
			}
			if mode == "multi" {
				cmds = append(append([][]string{{"MULTI"}}, cmds...), []string{"EXEC"})
			}
			if _, err := prod.Pipeline(cmds); err != nil {
				r.Report("burst/no-reply", fmt.Sprintf("the producer got no reply to its burst: %v", err), nil)
				return
			}
			served := 0
			got := map[string]int{}
			for _, w := range ws {
				if w.finished(3 * time.Second) {
					served++
					for _, el := range elements(w.reply) {
						got[el]++
					}
				}
			}
			r.Eval(1)
			script := map[string]any{"waiters": forms, "burst": quoteCmds(cmds), "setup": quoteCmds(pre), "mode": mode}
			if served < k {
				can := newCanary(e.port)
				alive, why := can.check(3 * time.Second)
				can.close()
				if !alive {
					r.Inconclusive("emulator unresponsive during a burst: " + why)
					return
				}
				ll, _ := prod.Do("LLEN", q)
				nb, _ := c11Blocked(prod)
				if ll.Int > 0 {
					r.Report("burst/lost-wakeup/blocked-on-non-empty-list", fmt.Sprintf("run %d iteration %d: %d clients blocked on %s, then %d pushes in one write (%s): only %d were served within 3 s although the list still holds %s elements (%d clients flagged blocked)", run, iter, k, q, k, mode, served, ll, nb), script)
					return
				}
				// list empty: the unserved waiters have nothing to get (a PUSHX after a fast waiter had emptied the list
				// legitimately pushes nothing); plain pushes must release them
				for i := served; i < k; i++ {
					prod.Do("RPUSH", q, fmt.Sprintf("el-fill-%d-%d-%d", run, iter, i))
				}
				for _, w := range ws {
					if !w.finished(3 * time.Second) {
						ll, _ := prod.Do("LLEN", q)
						r.Report("burst/lost-wakeup/not-served-by-later-push", fmt.Sprintf("run %d iteration %d: a client stayed blocked on %s after further pushes (LLEN = %s)", run, iter, q, ll), script)
						return
					}
				}
			}
			for id, n := range got {
				if n > 1 {
					r.Report("burst/duplicate", fmt.Sprintf("run %d iteration %d: element %s was delivered %d times", run, iter, id, n), script)
				}
			}
			r.Distinct(fmt.Sprintf("burst/k%d/%s", k, mode))
			for _, w := range ws {
				w.cn.Close()
			}
		}
	})
}

// c11Rounds: k consumers loop on a blocking pop without a timeout; per round the producer sends k single-element pushes
// in ONE write and then waits until all k elements have been consumed. The consumers are at every stage of their
// command when the pushes land (sending the next BLPOP, first attempt, registering, re-check, parked, just woken), round
// after round. A wake-up that is spent on a consumer that does not take an element for it leaves an element in the
// list with a consumer blocked on it: the round never completes.
func c11Rounds(r *verdict.Run, runs, rounds int) {
	parallel(runs, 8, func(run int) {
		c, err := startChild(false)
		if err != nil {
			r.Inconclusive("cannot start child")
			return
		}
		defer c.Stop()
		e, err := startEmu(c, "")
		if err != nil {
			r.Inconclusive("infra: " + err.Error())
			return
		}
		k := 2 + run%5
		pop := []string{"BLPOP", "BRPOP"}[run%2]
		var consumed atomic.Int64
		var stop atomic.Bool
		var wg sync.WaitGroup
		var conns []*wire.Conn
		for i := 0; i < k; i++ {
			cn, err := e.dial()
			if err != nil {
				return
			}
			conns = append(conns, cn)
			wg.Add(1)
			go func(cn *wire.Conn) {
				defer wg.Done()
				for !stop.Load() {
					if err := cn.SendCmd(pop, "rq", "0"); err != nil {
						return
					}
					v, _, err := cn.ReadValue(time.Hour)
					if err != nil {
						return
					}
					if len(elements(v)) == 1 {
						consumed.Add(1)
					}
				}
			}(cn)
		}
		prod, err := e.dial()
		if err != nil {
			return
		}
		defer prod.Close()
		prod.Timeout = 10 * time.Second
		completed := 0
		for round := 0; round < rounds; round++ {
			var b []byte
			for j := 0; j < k; j++ {
				b = append(b, resp.Cmd("RPUSH", "rq", fmt.Sprintf("el-%d-%d", round, j))...)
			}
			prod.Send(b)
			for j := 0; j < k; j++ {
				if _, _, err := prod.ReadValue(10 * time.Second); err != nil {
					r.Inconclusive("rounds: producer got no reply: " + err.Error())
					round = rounds
					break
				}
			}
			want := int64((round + 1) * k)
			if run%4 >= 2 && round < rounds-1 {
				// these runs let the producer run one round ahead of the consumers
				want -= int64(k)
			}
			deadline := time.Now().Add(4 * time.Second)
			for consumed.Load() < want && time.Now().Before(deadline) {
				time.Sleep(50 * time.Microsecond)
			}
			r.Eval(1)
			if consumed.Load() < want {
				// not complete after 4 s: is an element waiting while a consumer is blocked on the list?
				ll, _ := prod.Do("LLEN", "rq")
				nb, cl := c11Blocked(prod)
				time.Sleep(500 * time.Millisecond)
				ll2, _ := prod.Do("LLEN", "rq")
				if ll.Int > 0 && ll2.Int == ll.Int && nb > 0 {
					r.Report("rounds/lost-wakeup/"+pop, fmt.Sprintf("round %d with %d consumers looping on %s rq 0: %d of %d elements were consumed, LLEN rq = %d (unchanged 500 ms later) while %d clients are blocked - a pushed element waits in the list and nobody is woken for it", round, k, pop, consumed.Load()-int64(round*k), k, ll.Int, nb),
						map[string]any{"round": round, "consumers": k, "client_list": cl})
				} else {
					r.Inconclusive(fmt.Sprintf("rounds: round %d incomplete after 4 s but no element is waiting (LLEN %s, %d blocked)", round, ll, nb))
				}
				break
			}
			completed++
		}
		stop.Store(true)
		for _, cn := range conns {
			cn.Close()
		}
		wg.Wait()
		r.Count("rounds_completed", int64(completed))
		r.Distinct(fmt.Sprintf("rounds/%s/%d-consumers", pop, k))
	})
}
