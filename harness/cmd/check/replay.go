package main

import (
	"encoding/json"
	"fmt"
	"os"
	"strconv"
	"strings"
	"time"

	"verif/harness/wire"
)

// replayMain re-executes the recorded steps of a replay file written by the differential checks
// (sequential cases; the recorded reply is printed next to the fresh one).
func replayMain(path string) int {
	b, err := os.ReadFile(path)
	if err != nil {
		fmt.Println(err)
		return 2
	}
	var doc struct {
		Property string `json:"property"`
		Sig      string `json:"sig"`
		What     string `json:"what"`
		Replay   struct {
			Steps []struct {
				Cmd []string `json:"cmd"`
				Got string   `json:"got"`
			} `json:"steps"`
			Script   []string   `json:"script"`
			Commands [][]string `json:"commands"`
		} `json:"replay"`
	}
	if err := json.Unmarshal(b, &doc); err != nil {
		fmt.Println("not a replay file:", err)
		return 2
	}
	fmt.Printf("replaying %s %s\n%s\n", doc.Property, doc.Sig, doc.What)
	if len(doc.Replay.Steps) == 0 {
		fmt.Println("(this replay file has no sequential step list; its content documents the witness)")
		if len(doc.Replay.Script) > 0 {
			fmt.Println(strings.Join(doc.Replay.Script, "\n"))
		}
		return 0
	}
	c, err := startChild(false)
	if err != nil {
		fmt.Println(err)
		return 2
	}
	defer c.Stop()
	e, err := startEmu(c, "")
	if err != nil {
		fmt.Println(err)
		return 2
	}
	conns := map[int]*wire.Conn{}
	differ := 0
	for i, s := range doc.Replay.Steps {
		ci := 0
		cmd := s.Cmd
		if len(cmd) > 0 && strings.HasPrefix(cmd[0], "[conn ") {
			ci, _ = strconv.Atoi(strings.TrimSuffix(strings.TrimPrefix(cmd[0], "[conn "), "]"))
			cmd = cmd[1:]
		}
		cn := conns[ci]
		if cn == nil {
			cn, err = e.dial()
			if err != nil {
				fmt.Println(err)
				return 2
			}
			cn.Proto = 3
			cn.Timeout = 5 * time.Second
			conns[ci] = cn
		}
		v, err := cn.Do(cmd...)
		got := v.String()
		if err != nil {
			got = "ERROR: " + err.Error()
		}
		mark := " "
		if got != s.Got {
			mark = "!"
			differ++
		}
		fmt.Printf("%s %3d [%d] %-50s -> %s   (recorded: %s)\n", mark, i, ci, cmdString(cmd), trunc(got, 80), trunc(s.Got, 80))
		if err != nil {
			c.WaitExit(300 * time.Millisecond)
			if !c.Alive() {
				fmt.Println(headLines(c.StderrHead(5000), 30))
			} else if err == wire.ErrTimeout {
				fmt.Println(stallSummary(c.SigQuitDump()))
			}
			return 1
		}
	}
	fmt.Printf("%d of %d replies differ from the recording (time-dependent replies may legitimately differ)\n", differ, len(doc.Replay.Steps))
	return 0
}
