package main

import (
	"fmt"
	"math/rand"
	"strconv"
	"strings"

	"verif/harness/model"
	"verif/harness/verdict"
)

func init() { register("C02", "exploration", checkC02) }

var c02Values = []string{"", "a", "abc", "hello world", "10", "-5", "0", "9223372036854775807", "-9223372036854775808", "3.5", " 7", "007", "1e2", "ab\r\ncd", "\x00\x01", "9223372036854775806", "xyzxyz", "ohmytext", "mynewtext",
	// values are bytes, not characters: multi-byte UTF-8 and byte sequences that are not UTF-8 at all
	// short strings over a small alphabet: many different common subsequences of equal length (LCS)
	"daa", "cdab", "xcc", "axc", "cxaaadac", "axx", "caxa", "acaxacacdxca", "dcacdaaacxxd", "xddcccadxd", "daaxcdcxxa", "dddx", "xaadxaadxdxd", "xdc", "axacdccxxxac", "xdcxdxdxcc", "cccc", "xcd",
	"h\xc3\xa9llo w\xc3\xb6rld", "\xe2\x82\xac\xe2\x82\xac", "\xff\xfeab\xc3\xa9z", "\xffab\xc3\xa9", "\xfe\xfdab\xc3"}

func c02Gen(rng *rand.Rand, m *model.Model, keys []string) []string {
	k := pick(rng, keys)
	val := func() string { return pick(rng, c02Values) }
	intArg := func() string {
		if rng.Intn(6) == 0 {
			return pick(rng, nearInts)
		}
		return pick(rng, boundaryInts)
	}
	n := modelLen(m, 0, k)
	if rng.Intn(30) == 0 {
		// the key's deadline has passed but its object is still stored: every command must treat it as missing
		return []string{pick(rng, []string{"PEXPIREAT", "EXPIREAT"}), k, "1"}
	}
	switch rng.Intn(30) {
	case 0, 1, 2:
		// SET with a random option subset in random order and case
		args := []string{"SET", k, val()}
		var opts [][]string
		if rng.Intn(3) == 0 {
			opts = append(opts, []string{"NX"})
		}
		if rng.Intn(3) == 0 {
			opts = append(opts, []string{"XX"})
		}
		if rng.Intn(3) == 0 {
			opts = append(opts, []string{"GET"})
		}
		switch rng.Intn(8) {
		case 0:
			opts = append(opts, []string{"KEEPTTL"})
		case 1:
			opts = append(opts, []string{"EX", pick(rng, []string{"100", "1000", "0", "-1", "abc", "9223372036854775807"})})
		case 2:
			opts = append(opts, []string{"PX", pick(rng, []string{"100000", "0", "-5", "1.5"})})
		case 3:
			opts = append(opts, []string{"EXAT", pick(rng, []string{"4102444800", "1", "0"})})
		case 4:
			opts = append(opts, []string{"PXAT", pick(rng, []string{"4102444800000", "1"})})
		case 5:
			opts = append(opts, []string{"EX", "100"}, []string{"KEEPTTL"})
		case 6:
			opts = append(opts, []string{"EX", "100"}, []string{"PX", "100000"})
		}
		if rng.Intn(20) == 0 {
			opts = append(opts, []string{"BOGUS"})
		}
		if rng.Intn(25) == 0 {
			opts = append(opts, []string{"EX"})
		}
		rng.Shuffle(len(opts), func(i, j int) { opts[i], opts[j] = opts[j], opts[i] })
		for _, o := range opts {
			o[0] = randCase(rng, o[0])
			args = append(args, o...)
		}
		return args
	case 3:
		return []string{"SETNX", k, val()}
	case 4:
		return []string{"SETEX", k, pick(rng, []string{"100", "0", "-1", "abc", "1000"}), val()}
	case 5:
		return []string{"PSETEX", k, pick(rng, []string{"100000", "0", "-1", "x"}), val()}
	case 6, 7:
		return []string{"GET", k}
	case 8:
		return []string{"GETSET", k, val()}
	case 9:
		return []string{"GETDEL", k}
	case 10:
		switch rng.Intn(7) {
		case 0:
			return []string{"GETEX", k}
		case 1:
			return []string{"GETEX", k, randCase(rng, "PERSIST")}
		case 2:
			return []string{"GETEX", k, "EX", pick(rng, []string{"100", "0", "-1", "abc"})}
		case 3:
			return []string{"GETEX", k, "PX", "100000"}
		case 4:
			return []string{"GETEX", k, "EXAT", pick(rng, []string{"4102444800", "1"})}
		case 5:
			return []string{"GETEX", k, "PXAT", "4102444800000"}
		}
		return []string{"GETEX", k, "EX", "100", "PERSIST"}
	case 11:
		return []string{"MGET", pick(rng, keys), pick(rng, keys), pick(rng, keys)}
	case 12:
		a := []string{"MSET"}
		for i := 0; i < 1+rng.Intn(3); i++ {
			a = append(a, pick(rng, keys), val())
		}
		if rng.Intn(15) == 0 {
			a = append(a, "dangling")
		}
		return a
	case 13, 14:
		a := []string{"MSETNX"}
		for i := 0; i < 1+rng.Intn(3); i++ {
			a = append(a, pick(rng, keys), val())
		}
		return a
	case 15, 16:
		return []string{"APPEND", k, val()}
	case 17:
		return []string{"STRLEN", k}
	case 18, 19:
		return []string{pick(rng, []string{"GETRANGE", "SUBSTR"}), k, offsetAround(rng, n), offsetAround(rng, n)}
	case 20, 21:
		off := strconv.Itoa(rng.Intn(n + 10))
		if rng.Intn(6) == 0 {
			off = pick(rng, []string{"-1", "536870912", "536870913", "9223372036854775807", "abc", "-9223372036854775808"})
		}
		return []string{"SETRANGE", k, off, pick(rng, []string{"", "X", "xyz"})}
	case 22:
		return []string{pick(rng, []string{"INCR", "DECR"}), k}
	case 23, 24:
		return []string{pick(rng, []string{"INCRBY", "DECRBY"}), k, intArg()}
	case 25:
		return []string{"INCRBYFLOAT", k, pick(rng, floatArgs)}
	case 26, 27:
		a := []string{"LCS", pick(rng, keys), pick(rng, keys)}
		switch rng.Intn(8) {
		case 6:
			// the two result forms at once, in both orders: refused
			a = append(a, "IDX", "LEN")
		case 7:
			a = append(a, "LEN", "IDX", "WITHMATCHLEN")
		case 0:
			a = append(a, "LEN")
		case 1:
			a = append(a, "IDX")
		case 2:
			a = append(a, "IDX", "MINMATCHLEN", pick(rng, []string{"0", "1", "2", "4", "-1"}))
		case 3:
			a = append(a, "IDX", "WITHMATCHLEN")
		case 4:
			a = append(a, randCase(rng, "IDX"), "MINMATCHLEN", "2", randCase(rng, "WITHMATCHLEN"))
		}
		return a
	case 28:
		return []string{"SET", k, pick(rng, []string{"5", "-3", "100", "9223372036854775800", "-9223372036854775800"})}
	case 29:
		return []string{"DEL", k}
	}
	return []string{"GET", k}
}

func checkC02(r *verdict.Run) {
	r.Rule = "random sequences of string/counter commands over 4 string keys + one key of each other type + an expiring key + a missing key, arguments from boundary pools (offsets around the current length, boundary integers, near-integers, floats, every SET option subset in random order and case); " +
		"plus LCS / LCS LEN / LCS IDX over every ordered pair of 60 (thorough: 160) short strings over a three-letter alphabet; oracle per step: reply = reference model reply, observable state of every key = model state, error replies leave the state unchanged. distinct = (command+options, prior key class, outcome class)"
	runDiffSequences(r, tierPick(r, 300, 6000), func(rng *rand.Rand) int { return 30 + rng.Intn(50) },
		[]string{"s0", "s1", "s2", "s3", "kl", "kh", "kset", "ke", "km", "0aaaaaaa", "8aaaaaaa"}, seedCommands(), c02Gen)
	c02LcsPairs(r)
}

// runDiffSequences is the common engine of the single-connection differential checks.
func runDiffSequences(r *verdict.Run, nseq int, seqLen func(*rand.Rand) int, universe []string, seed [][]string,
	gen func(rng *rand.Rand, m *model.Model, keys []string) []string) {
	runDiffSequencesN(r, nseq, 25, 0, seqLen, universe, seed, gen)
}

// runDiffSequencesN: perChild sequences per emulator host process; shardBase separates the PRNG streams of several
// calls within one check.
func runDiffSequencesN(r *verdict.Run, nseq, perChild, shardBase int, seqLen func(*rand.Rand) int, universe []string, seed [][]string,
	gen func(rng *rand.Rand, m *model.Model, keys []string) []string) {
	nshards := (nseq + perChild - 1) / perChild
	parallel(nshards, 16, func(shard int) {
		rng := shardRng(r, shardBase+shard)
		c, err := startChild(false)
		if err != nil {
			r.Inconclusive("cannot start child")
			return
		}
		defer func() { c.Stop() }()
		for i := 0; i < perChild && shard*perChild+i < nseq; i++ {
			if !c.Alive() {
				c.Stop()
				if c, err = startChild(false); err != nil {
					r.Inconclusive("cannot restart child")
					return
				}
			}
			d, err := newDiffEnv(r, c, universe)
			for retry := 0; err != nil && retry < 3; retry++ {
				// a failed bind (port taken between probe and listen) kills the child: infrastructure noise, retry
				r.Count("infra_retries", 1)
				c.Stop()
				if c, err = startChild(false); err != nil {
					break
				}
				d, err = newDiffEnv(r, c, universe)
			}
			if err != nil {
				r.Inconclusive("infra: " + err.Error())
				continue
			}
			d.cover = func(args []string, prior, outcome string) {
				r.Distinct(cmdTag(args) + "/" + prior + "/" + outcome)
			}
			ok := true
			for _, s := range seed {
				if _, ok = d.step(s); !ok {
					break
				}
			}
			n := seqLen(rng)
			focus, focusKey := 0, ""
			var sample []string
			for j := 0; j < n && ok; j++ {
				args := gen(rng, d.m, universe)
				if focus > 0 {
					// the commands right after a RESTORE are aimed at the restored key
					focus--
					if i := firstKeyArg(args); i > 0 && i < len(args) && !strings.EqualFold(args[0], "RESTORE") {
						args[i] = focusKey
					}
				}
				if rng.Intn(20) == 0 {
					args = provenanceStep(rng, universe)
					if args[0] == "RESTORE" {
						focus, focusKey = 4, args[1]
					}
					if args[0] == "RESTORE" && rng.Intn(4) > 0 {
						// mostly from a fresh DUMP of the source (otherwise from whatever was dumped under that name before)
						if _, ok = d.step([]string{"DUMP", provenanceSource(args)}); !ok {
							break
						}
					}
				}
				if len(sample) < 8 {
					sample = append(sample, cmdString(args))
				}
				_, ok = d.step(args)
				r.Eval(1)
			}
			if shard == 0 && i < 2 {
				r.Sample(map[string]any{"sequence_prefix": sample, "steps": d.steps})
			}
			d.close()
		}
	})
	r.Assume("the reference model (harness/model) encodes Redis 7 semantics from the command reference; corners it marks unspecified get no reply verdict: " + fmt.Sprint(modelUnspecified))
}

var modelUnspecified = []string{"error message text", "non-canonical integer arguments (+1, 01)", "SET NX GET", "expire times beyond 2^53 ms", "DECRBY -2^63", "hex/inf/nan float forms", "float overflow",
	"SINTER with a wrong-typed operand after a missing one", "EXPIRE with several condition flags", "KEYS with unterminated classes / empty key names", "SORT BY hash fields / missing weights / nosort on sets / ALPHA ties",
	"HRANDFIELD/SRANDMEMBER count -2^63", "SCAN family (decided in C17)", "introspection commands"}

// provenanceStep: values also come into being by DUMP + RESTORE (of any type, with and without a deadline, over an
// existing key or not). Every sequence-driven check mixes these in, so that the commands under test also meet values
// that were not built by the usual write commands.
func provenanceSource(restore []string) string {
	return strings.TrimPrefix(strings.TrimPrefix(restore[3], DumpOf("")), CorruptDumpOf(""))
}

func provenanceStep(rng *rand.Rand, keys []string) []string {
	src, dst := pick(rng, keys), pick(rng, keys)
	if rng.Intn(5) < 2 {
		return []string{"DUMP", src}
	}
	ttl := pick(rng, []string{"0", "0", "0", "100000", "1", "4102444800000", "-1"})
	args := []string{"RESTORE", dst, ttl, DumpOf(src)}
	if rng.Intn(5) == 0 {
		// a payload that passes the outer checks and fails inside: refused, and nothing may have happened to dst
		args[3] = CorruptDumpOf(src)
	}
	if rng.Intn(3) > 0 {
		args = append(args, "REPLACE")
	}
	if ttl == "1" || ttl == "4102444800000" || rng.Intn(3) == 0 {
		args = append(args, "ABSTTL")
	}
	if rng.Intn(15) == 0 {
		args = append(args, pick(rng, []string{"IDLETIME", "FREQ"}), "5")
	}
	return args
}

// c02LcsPairs: the longest common subsequence of every ordered pair of short strings over a small alphabet (the shapes
// that make the dynamic programme take every kind of step): LCS (a common subsequence of the right length), LCS LEN,
// LCS IDX (blocks that really match, of the right total length) against the model.
func c02LcsPairs(r *verdict.Run) {
	rng := shardRng(r, 4242)
	var strs []string
	alpha := "acd"
	for a := 0; a < 3; a++ {
		strs = append(strs, string(alpha[a]))
		for b := 0; b < 3; b++ {
			strs = append(strs, string(alpha[a])+string(alpha[b]))
			for c := 0; c < 3; c++ {
				strs = append(strs, string(alpha[a])+string(alpha[b])+string(alpha[c]))
			}
		}
	}
	for len(strs) < tierPick(r, 60, 160) {
		n := 4 + rng.Intn(8)
		b := make([]byte, n)
		for i := range b {
			b[i] = "acdx"[rng.Intn(4)]
		}
		strs = append(strs, string(b))
	}
	nsh := 16
	parallel(nsh, 16, func(shard int) {
		c, err := startChild(false)
		if err != nil {
			r.Inconclusive("cannot start child")
			return
		}
		defer c.Stop()
		d, err := newDiffEnv(r, c, []string{"x", "y"})
		if err != nil {
			r.Inconclusive("infra: " + err.Error())
			return
		}
		defer d.close()
		d.monitor = "lcs"
		d.noState = true
		for i := shard; i < len(strs); i += nsh {
			if _, ok := d.step([]string{"SET", "x", strs[i]}); !ok {
				return
			}
			for _, y := range strs {
				if _, ok := d.step([]string{"SET", "y", y}); !ok {
					return
				}
				for _, form := range [][]string{{"LCS", "x", "y"}, {"LCS", "x", "y", "LEN"}, {"LCS", "x", "y", "IDX"}, {"LCS", "x", "y", "IDX", "MINMATCHLEN", "2", "WITHMATCHLEN"}} {
					if _, ok := d.step(form); !ok {
						return
					}
					r.Eval(1)
				}
			}
		}
		r.Distinct(fmt.Sprintf("lcs-pairs/shard%d", shard))
	})
}
