package main

import (
	"encoding/binary"
	"encoding/json"
	"fmt"
	"math/rand"
	"os"
	"sort"
	"strconv"
	"strings"
	"time"

	"verif/harness/model"
	"verif/harness/verdict"
	"verif/harness/wire"
)

func init() { register("C17", "exploration", checkC17) }

// sutHash is a port of the emulator's key hash (a SipHash variant with a zero key). It only shapes the
// workload (keys that share low hash bits force long chains of table doublings); the oracle does not use it.
func sutHash(s string) uint64 {
	data := []byte(s)
	v0, v1, v2, v3 := uint64(0x736f6d6570736575), uint64(0x646f72616e646f6d), uint64(0x6c7967656e657261), uint64(0x7465646279746573)
	round := func() {
		v0 += v1
		v1 = v1<<13 | v1>>(64-13)
		v1 ^= v0
		v0 = v0<<32 | v0>>(64-32)
		v2 += v3
		v3 = v3<<16 | v3>>(64-16)
		v3 ^= v2
		v0 += v3
		v3 = v3<<21 | v3>>(64-21)
		v3 ^= v0
		v2 += v1
		v1 = v1<<17 | v1>>(64-17)
		v1 ^= v2
		v2 = v2<<32 | v2>>(64-32)
	}
	length := len(data)
	b := uint64(length) << 56
	index := 0
	end := (length / 8) * 8
	for index = 0; index < end; index += 8 {
		m := binary.LittleEndian.Uint64(data[index:])
		v3 ^= m
		round()
		round()
		v0 ^= m
	}
	n := uint64(0)
	for ; index < length; index++ {
		n <<= 8
		n |= uint64(data[index])
	}
	b |= n
	v3 ^= b
	round()
	round()
	v0 ^= b
	v2 ^= 0xff
	round()
	round()
	round()
	round()
	return v0 ^ v1 ^ v2 ^ v3
}

// adversarialNames returns n names of which groups share `bits` low hash bits.
// used24 holds the low 24 hash bits of every name of the case so far (all prefixes): two names of one collection that
// share 24+ low bits make the emulator's table grow to hundreds of MiB or fail (the known dictionary finding, C04),
// which is not this check's subject.
func adversarialNames(rng *rand.Rand, prefix string, n, bits int, used24 map[uint64]bool) []string {
	mask := uint64(1)<<uint(bits) - 1
	byLow := map[uint64][]string{}
	var out []string
	for i := 0; len(out) < n && i < 4000000; i++ {
		name := fmt.Sprintf("%s%x", prefix, rng.Int63())
		h := sutHash(name)
		low := h & mask
		if used24[h&(1<<24-1)] {
			continue
		}
		used24[h&(1<<24-1)] = true
		byLow[low] = append(byLow[low], name)
		if len(byLow[low]) == 2 {
			out = append(out, byLow[low]...)
		} else if len(byLow[low]) > 2 {
			out = append(out, name)
		}
	}
	if len(out) > n {
		out = out[:n]
	}
	return out
}

var c17SpecialNames = []string{"lit\\key", "50%", "a*b", "q?z", "[br]acket", "back\\", "plain-literal",
	// white space at the ends of a name or a pattern is data like any other byte
	" lead:1", "lead:1", "trail:1 ", "trail:1", "\tboth\t", "both", " ", "in ner"}

// patterns that address the special names: escapes only, no wildcard / escapes plus wildcards / plain literal
var c17SpecialPatterns = []string{"lit\\\\key", "a\\*b", "q\\?z", "\\[br\\]acket", "50\\%", "plain-literal", "pl\\ain-literal", "a\\**", "*\\?*", "back\\\\", "LITERAL",
	" lead:*", "*:1 ", "\tboth\t", " ", "lead:?", " *", "* ", "in ner", "in\\ ner"}

type c17Names struct {
	Stable, Pre, New, Never []string
}

type c17Case struct {
	fixed    *c17Names // replay: use exactly these names
	kind     string    // scan | hscan | sscan
	size     int
	count    int
	script   string // none grow shrink grow-shrink-grow churn
	match    string
	typ      string
	adverse  int    // shared low hash bits (0 = random names)
	dead     string // scan only: how keys are removed: del | unlink | expire | mixed (unlinked and expired keys linger in the table)
	prechurn int    // add+remove cycles of temporary names before the iteration (ages the table's removal bookkeeping)
	spread   bool   // mutation phases spread over the whole iteration instead of the first calls
	viaCopy  bool   // hscan/sscan: iterate over a COPY of the collection
	twin     bool   // hscan/sscan: a second collection with the same names is iterated in between the calls
	compact  bool   // names with pairwise different low hash bits: the table stays about twice the element count, so it really halves when elements go
}

func (c c17Case) String() string {
	return fmt.Sprintf("%s size=%d COUNT=%d script=%s match=%q type=%q adversarial=%d removal=%s prechurn=%d spread=%v compact=%v", c.kind, c.size, c.count, c.script, c.match, c.typ, c.adverse, c.dead, c.prechurn, c.spread, c.compact)
}

func c17Run(r *verdict.Run, e *emu, cs c17Case, rng *rand.Rand) {
	cn, err := e.dial()
	if err != nil {
		r.Inconclusive("infra: " + err.Error())
		return
	}
	defer cn.Close()
	cn.Timeout = 60 * time.Second
	mut, err := e.dial()
	if err != nil {
		return
	}
	defer mut.Close()
	mut.Timeout = 60 * time.Second
	const coll = "coll"
	used24 := map[uint64]bool{}
	// (the names every case uses besides the generated ones take part in the filter: temporary elements of the
	// pre-churn and churn phases, the names with glob metacharacters)
	for _, fixedName := range append([]string{"tmp:0", "tmp:1", "tmp:2", "tmp:3", "tmp:4", "tmp:5", "tmp:6", "tmp:c", coll, coll + "-copy"}, c17SpecialNames...) {
		used24[sutHash(fixedName)&(1<<24-1)] = true
	}
	usedLow := map[uint64]bool{}
	compactMask := uint64(1)
	if cs.compact {
		total := 8*cs.size + 80 // upper bound of the names of one case
		for compactMask < uint64(2*total) {
			compactMask <<= 1
		}
		compactMask--
	}
	names := func(prefix string, n int) []string {
		if cs.adverse > 0 && n >= 2 {
			return adversarialNames(rng, prefix, n, cs.adverse, used24)
		}
		out := make([]string, n)
		for i := range out {
			for {
				out[i] = fmt.Sprintf("%s%d-%x", prefix, i, rng.Int31())
				if cs.compact {
					if low := sutHash(out[i]) & compactMask; usedLow[low] {
						continue
					} else {
						usedLow[low] = true
					}
				}
				// two names of one collection that share 24+ low hash bits would make the emulator's collision-free table
				// grow to hundreds of MiB or fail (the known dictionary finding, C04): not this check's subject
				if low := sutHash(out[i]) & (1<<24 - 1); !used24[low] {
					used24[low] = true
					break
				}
			}
		}
		return out
	}
	stable := names("st:", cs.size)
	npre := cs.size/2 + 2
	if cs.script == "collapse" {
		npre = 6*cs.size + 40 // most of the collection goes away in one step in the middle of the iteration: the table halves, probably twice
	}
	volatilePre := names("vp:", npre) // present at the start, deleted during the iteration
	nNew := cs.size*3 + 8
	if cs.size >= 400 && os.Getenv("C17_UNCAPPED") == "" {
		nNew = cs.size/2 + 8 // the emulator's table is quadratic in the element count
	}
	volatileNew := names("vn:", nNew) // inserted during the iteration
	never := names("nv:", 8)
	if cs.size >= 5 {
		// names that contain the glob metacharacters themselves (matched through escaped or literal patterns)
		stable = append(stable, c17SpecialNames...)
	}
	if cs.fixed != nil {
		stable, volatilePre, volatileNew, never = cs.fixed.Stable, cs.fixed.Pre, cs.fixed.New, cs.fixed.Never
	}
	if cs.match == "LITERAL" {
		// a pattern without any wildcard: exactly one stable name
		cs.match = "nomatch"
		if len(stable) > 0 {
			cs.match = stable[0]
		}
	}
	typesOf := map[string]string{}
	valueOf := map[string]map[string]bool{} // hscan: values a field held
	addCmd := func(el string, val string) []string {
		switch cs.kind {
		case "hscan":
			if valueOf[el] == nil {
				valueOf[el] = map[string]bool{}
			}
			valueOf[el][val] = true
			return []string{"HSET", coll, el, val}
		case "sscan":
			return []string{"SADD", coll, el}
		}
		t := []string{"string", "list", "hash", "set"}[len(typesOf)%4]
		if old, ok := typesOf[el]; ok {
			t = old
		}
		typesOf[el] = t
		switch t {
		case "list":
			return []string{"RPUSH", el, val}
		case "hash":
			return []string{"HSET", el, "f", val}
		case "set":
			return []string{"SADD", el, val}
		}
		return []string{"SET", el, val}
	}
	delSeq := 0
	delCmd := func(el string) []string {
		switch cs.kind {
		case "hscan":
			return []string{"HDEL", coll, el}
		case "sscan":
			return []string{"SREM", coll, el}
		}
		mode := cs.dead
		if mode == "mixed" {
			mode = []string{"del", "unlink", "expire"}[delSeq%3]
			delSeq++
		}
		switch mode {
		case "unlink":
			return []string{"UNLINK", el}
		case "expire":
			return []string{"PEXPIREAT", el, "1"} // the deadline has passed: the key is gone for every command
		}
		return []string{"DEL", el}
	}
	batch := func(cmds [][]string) bool {
		for len(cmds) > 0 {
			n := len(cmds)
			if n > 500 {
				n = 500
			}
			vs, err := mut.Pipeline(cmds[:n])
			if err != nil {
				dump := ""
				if os.Getenv("C17_DEBUG_NAMES") != "" {
					var all []string
					for _, cm := range cmds {
						all = append(all, cm[len(cm)-2])
					}
					os.WriteFile(os.Getenv("C17_DEBUG_NAMES"), []byte(strings.Join(all, "\n")), 0o644)
				}
				if err == wire.ErrTimeout && e.child.Alive() {
					dump = c16Busy(e.child.SigQuitDump())
				}
				r.Inconclusive(fmt.Sprintf("mutation pipeline failed (%v) in %s: first command %s of %d\n%s", err, cs, cmdString(cmds[0]), n, dump))
				return false
			}
			for i, v := range vs {
				if v.IsError() {
					// the driver's own writes must succeed, otherwise the membership bookkeeping is wrong
					r.Report("c17/write-failed/"+strings.ToLower(cmds[i][0]), fmt.Sprintf("%s: %s -> %s", cs, cmdString(cmds[i]), v), map[string]any{"case": cs.String(), "command": cmds[i]})
					return false
				}
			}
			cmds = cmds[n:]
		}
		return true
	}
	var setup [][]string
	for _, el := range stable {
		setup = append(setup, addCmd(el, "sv"))
	}
	for _, el := range volatilePre {
		setup = append(setup, addCmd(el, "pv"))
	}
	// elements that live through the whole churn of the collapse script and are removed at its very end (they are in the
	// table at every halving, and gone when the quiet iteration runs)
	var late []string
	if cs.script == "collapse" {
		late = names("lt:", cs.size/2+3)
		for _, el := range late {
			setup = append(setup, addCmd(el, "lv"))
		}
	}
	// keys that are already dead (unlinked / expired) when the iteration starts: they linger in the table
	var deadBefore []string
	if cs.kind == "scan" && cs.dead != "" && cs.dead != "del" {
		for i := 0; i < 3+cs.size/8; i++ {
			el := fmt.Sprintf("dead:%d", i)
			deadBefore = append(deadBefore, el)
			setup = append(setup, addCmd(el, "dv"))
		}
	}
	if !batch(setup) {
		return
	}
	var pre [][]string
	for i := 0; i < cs.prechurn; i++ {
		el := fmt.Sprintf("tmp:%d", i%7)
		pre = append(pre, addCmd(el, "tv"))
		if cs.kind == "scan" {
			pre = append(pre, []string{"DEL", el})
		} else {
			pre = append(pre, delCmd(el))
		}
	}
	for _, el := range deadBefore {
		pre = append(pre, delCmd(el))
	}
	if !batch(pre) {
		return
	}
	// mutation plan: a list of phases, each applied between two SCAN calls
	type phase [][]string
	var plan []phase
	newIdx, preIdx := 0, 0
	grow := func(n int) phase {
		var p phase
		for i := 0; i < n && newIdx < len(volatileNew); i++ {
			p = append(p, addCmd(volatileNew[newIdx], "nv"+strconv.Itoa(newIdx)))
			newIdx++
		}
		return p
	}
	shrinkPre := func(n int) phase {
		var p phase
		for i := 0; i < n && preIdx < len(volatilePre); i++ {
			p = append(p, delCmd(volatilePre[preIdx]))
			preIdx++
		}
		return p
	}
	delNew := func(from, to int) phase {
		var p phase
		for i := from; i < to && i < newIdx; i++ {
			p = append(p, delCmd(volatileNew[i]))
		}
		return p
	}
	nothingStable := false
	planStart := 0 // the first mutation phase is applied after this many calls
	switch cs.script {
	case "collapse":
		var p phase
		for _, el := range volatilePre {
			p = append(p, delCmd(el))
		}
		plan = []phase{p}
		planStart = (len(stable) + len(volatilePre)) / cs.count / 2
		// ... and from then on a temporary element is added and removed 150 times between all calls: the removals add up
		// until the (now sparse) table is allowed to halve, again and again, while the iteration goes on
		var churn phase
		for i := 0; i < 150; i++ {
			churn = append(churn, addCmd("tmp:c", "cv"), delCmd("tmp:c"))
		}
		for i := 0; i < 60; i++ {
			plan = append(plan, churn)
		}
		var last phase
		for _, el := range late {
			last = append(last, delCmd(el))
		}
		plan = append(plan, last)
	case "delete-all", "flush":
		// the collection becomes completely empty in the middle of the iteration: nothing is stable, the iteration
		// must still end
		var p phase
		if cs.script == "flush" {
			if cs.kind == "scan" {
				p = phase{{[]string{"FLUSHDB", "FLUSHALL"}[cs.count%2]}}
			} else {
				p = phase{{"DEL", coll}}
			}
		} else {
			for _, el := range append(append([]string{}, stable...), volatilePre...) {
				p = append(p, delCmd(el))
			}
		}
		plan = []phase{nil, p}
		if cs.count >= 100 {
			plan = []phase{p}
		}
		nothingStable = true
	case "grow":
		plan = []phase{grow(cs.size + 4), grow(cs.size + 2), grow(cs.size)}
	case "shrink":
		plan = []phase{shrinkPre(len(volatilePre)/2 + 1), shrinkPre(len(volatilePre))}
	case "grow-shrink-grow":
		plan = []phase{grow(cs.size*2 + 4), nil, append(delNew(0, cs.size*2+4), shrinkPre(len(volatilePre))...), grow(cs.size / 2)}
	case "churn":
		for i := 0; i < 6; i++ {
			p := grow(cs.size/4 + 2)
			p = append(p, shrinkPre(cs.size/12+1)...)
			if i%2 == 1 {
				p = append(p, delNew(0, newIdx/2)...)
			}
			plan = append(plan, p)
		}
	}
	if cs.viaCopy && cs.kind != "scan" {
		// the collection the iteration runs over is a COPY of the one that was built (a copy has its own table, made by
		// other code than the one that grew the original)
		if v, err := mut.Do("COPY", coll, coll+"-copy"); err == nil && v.Int == 1 {
			mut.Do("DEL", coll)
			mut.Do("RENAME", coll+"-copy", coll)
		}
	}
	twin, twinCursor := "", "0"
	if cs.twin && cs.kind != "scan" {
		if v, err := mut.Do("COPY", coll, coll+"-twin"); err == nil && v.Int == 1 {
			twin = coll + "-twin"
		}
	}
	// the iteration
	returned := map[string]int{}
	retVals := map[string]map[string]bool{}
	cursor := "0"
	calls := 0
	maxPresent := len(stable) + len(volatilePre) + len(volatileNew)
	bound := 4*maxPresent/cs.count + 64 + len(plan)
	seenAfterMutations := map[string]bool{}
	var cursors []string
	planIdx, stride := 0, 1
	if cs.spread && len(plan) > 0 {
		stride = 1 + (len(stable)+len(volatilePre))/cs.count/(len(plan)+1)
	}
	bound += len(plan)*stride + planStart
	for {
		args := []string{}
		switch cs.kind {
		case "scan":
			args = []string{"SCAN", cursor}
		case "hscan":
			args = []string{"HSCAN", coll, cursor}
		case "sscan":
			args = []string{"SSCAN", coll, cursor}
		}
		if cs.match != "" {
			args = append(args, "MATCH", cs.match)
		}
		args = append(args, "COUNT", strconv.Itoa(cs.count))
		if cs.typ != "" {
			// the type name in any spelling (option values of TYPE are case-insensitive), changing from call to call
			spelled := cs.typ
			switch calls % 3 {
			case 1:
				spelled = strings.ToUpper(cs.typ)
			case 2:
				spelled = strings.ToUpper(cs.typ[:1]) + cs.typ[1:]
			}
			args = append(args, []string{"TYPE", "type", "Type"}[calls%3], spelled)
		}
		v, err := cn.Do(args...)
		calls++
		v = model.Down(v)
		if twin != "" {
			// an unrelated iteration over the twin collection (same names, same table layout, same cursor values) goes on
			// between the calls of this one
			targs := []string{map[string]string{"hscan": "HSCAN", "sscan": "SSCAN"}[cs.kind], twin, twinCursor, "COUNT", strconv.Itoa(cs.count)}
			if tv, terr := cn.Do(targs...); terr == nil {
				tv = model.Down(tv)
				if tv.Kind == '*' && len(tv.Elems) == 2 {
					twinCursor = tv.Elems[0].Text()
				}
			}
		}
		if err != nil || v.Kind != '*' || len(v.Elems) != 2 || !v.Elems[0].IsString() || v.Elems[1].Kind != '*' {
			r.Report("c17/bad-reply/"+cs.kind, fmt.Sprintf("%s: call %d %s -> %s %v", cs, calls, cmdString(args), v, err), map[string]any{"case": cs.String(), "cursors": cursors})
			return
		}
		els := v.Elems[1].Elems
		if cs.kind == "hscan" {
			if len(els)%2 != 0 {
				r.Report("c17/bad-reply/hscan-odd", fmt.Sprintf("%s: odd number of elements %s", cs, v), nil)
				return
			}
			for i := 0; i+1 < len(els); i += 2 {
				f := els[i].Text()
				returned[f]++
				if retVals[f] == nil {
					retVals[f] = map[string]bool{}
				}
				retVals[f][els[i+1].Text()] = true
			}
		} else {
			for _, e := range els {
				returned[e.Text()]++
			}
		}
		cursor = v.Elems[0].Text()
		cursors = append(cursors, cursor)
		if cursor == "0" {
			break
		}
		if planIdx < len(plan) {
			if calls-1 >= planStart && (calls-1)%stride == 0 {
				if !batch(plan[planIdx]) {
					return
				}
				planIdx++
			}
		} else {
			// the collection no longer changes: the iteration must end within the bound and never repeat a cursor
			if seenAfterMutations[cursor] {
				r.Report("c17/cursor-cycle/"+cs.kind, fmt.Sprintf("%s: cursor %s came back after the collection stopped changing (call %d)", cs, cursor, calls), map[string]any{"case": cs.String(), "cursors": cursors})
				return
			}
			seenAfterMutations[cursor] = true
		}
		if calls > bound {
			r.Report("c17/no-termination/"+cs.kind, fmt.Sprintf("%s: %d calls without reaching cursor 0 (bound %d)", cs, calls, bound), map[string]any{"case": cs.String(), "cursors_tail": cursors[len(cursors)-20:]})
			return
		}
	}
	r.Eval(1)
	r.Count("scan_calls", int64(calls))
	// the mutation phases that the iteration did not live to see are applied now, so that the quiet iteration below
	// always runs on the final state of the script (all churn done, the late elements removed)
	for ; planIdx < len(plan); planIdx++ {
		if !batch(plan[planIdx]) {
			return
		}
	}
	// a second, quiet iteration (nothing changes any more): what it returns must exist right now, by a point query
	{
		cur, quiet, qcalls := "0", map[string]bool{}, 0
		for {
			var a []string
			switch cs.kind {
			case "scan":
				a = []string{"SCAN", cur, "COUNT", "50"}
			case "hscan":
				a = []string{"HSCAN", coll, cur, "COUNT", "50"}
			case "sscan":
				a = []string{"SSCAN", coll, cur, "COUNT", "50"}
			}
			v, err := cn.Do(a...)
			v = model.Down(v)
			qcalls++
			if err != nil || v.Kind != '*' || len(v.Elems) != 2 || qcalls > 4*maxPresent/50+200 {
				break
			}
			els := v.Elems[1].Elems
			for i := 0; i < len(els); i++ {
				quiet[els[i].Text()] = true
				if cs.kind == "hscan" {
					i++
				}
			}
			cur = v.Elems[0].Text()
			if cur == "0" {
				break
			}
		}
		var names []string
		for el := range quiet {
			names = append(names, el)
		}
		sort.Strings(names)
		var probes [][]string
		for _, el := range names {
			switch cs.kind {
			case "hscan":
				probes = append(probes, []string{"HEXISTS", coll, el})
			case "sscan":
				probes = append(probes, []string{"SISMEMBER", coll, el})
			default:
				probes = append(probes, []string{"EXISTS", el})
			}
		}
		if len(probes) > 0 {
			if vs, err := cn.Pipeline(probes); err == nil {
				for i, v := range vs {
					if v.Kind == ':' && v.Int == 0 {
						r.Report("c17/absent-element-returned/"+cs.kind, fmt.Sprintf("%s: a quiet iteration after all changes had stopped returned %q, which does not exist (%s -> 0)", cs, names[i], cmdString(probes[i])), map[string]any{"case": cs.String()})
						break
					}
				}
			}
		}
	}
	// oracle
	rep := map[string]any{"case": cs.String(), "calls": calls, "cursors": cursors,
		"case_fields": map[string]any{"kind": cs.kind, "size": cs.size, "count": cs.count, "script": cs.script, "match": cs.match, "type": cs.typ, "adverse": cs.adverse, "dead": cs.dead, "prechurn": cs.prechurn, "spread": cs.spread, "compact": cs.compact},
		"names":       c17Names{stable, volatilePre, volatileNew, never}}
	if len(cursors) > 400 {
		rep["cursors"] = cursors[len(cursors)-400:]
	}
	matches := func(el string) bool {
		if cs.match != "" && !model.Glob(cs.match, el) {
			return false
		}
		if cs.typ != "" && cs.kind == "scan" && typesOf[el] != cs.typ {
			return false
		}
		return true
	}
	missing := []string{}
	for _, el := range stable {
		if nothingStable {
			break
		}
		if matches(el) && returned[el] == 0 {
			missing = append(missing, el)
		}
	}
	if len(missing) > 0 {
		sort.Strings(missing)
		// is the element really still there? (tells a SCAN defect from a lost write)
		var probe []string
		switch cs.kind {
		case "hscan":
			probe = []string{"HEXISTS", coll, missing[0]}
		case "sscan":
			probe = []string{"SISMEMBER", coll, missing[0]}
		default:
			probe = []string{"EXISTS", missing[0]}
		}
		pv, _ := cn.Do(probe...)
		rep["probe_of_first_missing"] = cmdString(probe) + " -> " + pv.String()
		r.Report("c17/stable-element-missed/"+cs.kind+"/"+cs.script, fmt.Sprintf("%s: %d elements that were present during the whole iteration were never returned, e.g. %q", cs, len(missing), missing[:min(3, len(missing))]), rep)
	}
	for _, el := range deadBefore {
		if returned[el] > 0 {
			r.Report("c17/dead-key-returned/"+cs.dead, fmt.Sprintf("%s: key %q had been removed (%s) before the iteration started but was returned", cs, el, cs.dead), rep)
			break
		}
	}
	known := map[string]bool{}
	for _, l := range [][]string{stable, volatilePre, volatileNew, late} {
		for _, el := range l {
			known[el] = true
		}
	}
	for el := range returned {
		if cs.kind == "scan" && (el == coll) {
			continue
		}
		if strings.HasPrefix(el, "dead:") {
			continue
		}
		if !known[el] {
			inNever := false
			for _, nv := range never {
				if nv == el {
					inNever = true
				}
			}
			r.Report("c17/invented-element/"+cs.kind, fmt.Sprintf("%s: %q was returned but never existed (in the never-present set: %v)", cs, el, inNever), rep)
			break
		}
		if !matches(el) {
			r.Report("c17/filter-leak/"+cs.kind, fmt.Sprintf("%s: %q was returned although it does not match MATCH/TYPE", cs, el), rep)
			break
		}
		if cs.kind == "hscan" {
			for val := range retVals[el] {
				if !valueOf[el][val] {
					r.Report("c17/wrong-value/hscan", fmt.Sprintf("%s: field %q returned with value %q it never held", cs, el, val), rep)
				}
			}
		}
	}
	if cs.kind == "scan" && cs.size > 0 {
		// TYPE filter with an unknown type name matches nothing
		_ = strings.ToLower
	}
	filt := "plain"
	if cs.match != "" {
		filt = "match"
	}
	if cs.typ != "" {
		filt += "+type"
	}
	churnClass := "fresh"
	if cs.prechurn > 0 {
		churnClass = "aged"
	}
	r.Distinct(fmt.Sprintf("%s/%s/size%d/count%d/%s/adv%d/%s/%s/spread=%v", cs.kind, cs.script, cs.size, cs.count, filt, cs.adverse, cs.dead, churnClass, cs.spread))
}

func checkC17(r *verdict.Run) {
	r.Rule = "full iterations (cursor 0 -> ... -> 0, cursors fed back verbatim) of SCAN/HSCAN/SSCAN over collections of 0-3000 elements with COUNT in {1,2,7,10,100,10000}, with and without MATCH/TYPE (patterns with wildcards, with escapes only, plain literals; names that contain the metacharacters themselves), while the driver itself grows (several table doublings), shrinks (table halving), grows-shrinks-grows, churns, loses six sevenths of its elements in the middle of the iteration, or is completely emptied (key by key, or by FLUSHDB/FLUSHALL/DEL) the collection between calls (during the first calls or spread over the iteration); names random, chosen to share 10-16 low hash bits (long doubling chains) or chosen with pairwise different low bits (compact tables that really halve when elements go); keys removed by DEL, UNLINK or a passed deadline (the latter two leave dead keys in the table, some already dead when the iteration starts), on fresh tables, on tables aged by add/remove cycles and (every other hash/set case) on a COPY of the collection that was built; every third hash/set case has a second iteration over a twin collection (same names) running between its calls. " +
		"oracle (set arithmetic, no model of the cursor): returned >= stable elements matching the filter, nothing never-present, already dead or non-matching returned, HSCAN values were really held, a second quiet iteration returns only elements that exist by a point query, termination within 4*(elements)/COUNT+64 calls and no cursor repeated after mutations stop. distinct = (command, script, size, COUNT, filter, adversarial bits)"
	sizes := []int{0, 1, 5, 17, 100}
	counts := []int{1, 2, 7, 10, 100, 10000}
	if r.Tier == "thorough" {
		sizes = append(sizes, 400, 1000, 3000)
	}
	var cases []c17Case
	rng0 := shardRng(r, 0)
	for _, kind := range []string{"scan", "hscan", "sscan"} {
		for _, size := range sizes {
			for _, script := range []string{"none", "grow", "shrink", "grow-shrink-grow", "churn", "delete-all", "flush", "collapse"} {
				// quick: a seeded subset of COUNT values per (kind,size,script); thorough: all
				cs := counts
				if r.Tier != "thorough" {
					cs = []int{counts[rng0.Intn(len(counts))], counts[rng0.Intn(len(counts))]}
					if script == "collapse" {
						cs = counts[:4] // where the iteration stands when the table halves depends on COUNT: all the small ones
					}
				}
				for _, cnt := range cs {
					if size >= 1000 && cnt < 7 {
						continue
					}
					c := c17Case{kind: kind, size: size, count: cnt, script: script, compact: script == "collapse"}
					c.viaCopy = (size+cnt+len(script))%2 == 1
					c.twin = (size+cnt+len(script))%3 == 0
					switch rng0.Intn(6) {
					case 5:
						c.match = c17SpecialPatterns[rng0.Intn(len(c17SpecialPatterns))]
					case 0:
						c.match = "st:*"
					case 1:
						c.match = "*[0-7]*"
					case 2:
						if kind == "scan" {
							c.typ = []string{"string", "list", "hash", "set"}[rng0.Intn(4)]
						}
					case 3:
						if kind == "scan" {
							c.match, c.typ = "?t:*", "hash"
						}
					}
					if size >= 5 && size <= 400 && rng0.Intn(3) == 0 {
						c.adverse = 10 + rng0.Intn(7)
					}
					cases = append(cases, c)
				}
			}
		}
	}
	if r.Tier == "thorough" {
		// repeat the plan with other names, filters and adversarial groups
		base := cases
		for rep := 1; rep < 8; rep++ {
			for _, c := range base {
				c2 := c
				c2.match, c2.typ, c2.adverse = "", "", 0
				switch rng0.Intn(7) {
				case 6:
					c2.match = c17SpecialPatterns[rng0.Intn(len(c17SpecialPatterns))]
				case 0:
					c2.match = "v?:*"
				case 1:
					c2.match = "*[a-f]"
				case 2:
					if c2.kind == "scan" {
						c2.typ = []string{"string", "list", "hash", "set", "zset"}[rng0.Intn(5)]
					}
				}
				if c2.size >= 5 && c2.size <= 400 && rng0.Intn(3) == 0 {
					c2.adverse = 10 + rng0.Intn(7)
				}
				cases = append(cases, c2)
			}
		}
	}
	// second dimension: how elements die and how old the table is. Every base case is kept as it is (fresh table,
	// DEL, mutations during the first calls) and repeated with removal modes that leave dead keys in the table
	// (UNLINK, a passed deadline), with add/remove cycles before the iteration, and with the mutation phases spread
	// over the whole iteration.
	base := cases
	variants := tierPick(r, 5, 12)
	for _, c := range base {
		if c.size == 0 || c.size > 400 {
			continue // (the big collections run the base plan only: their tables take seconds to build)
		}
		for v := 0; v < variants; v++ {
			c2 := c
			if c2.kind == "scan" {
				c2.dead = []string{"unlink", "expire", "mixed", "del"}[rng0.Intn(4)]
			}
			c2.prechurn = []int{0, c.size/2 + 1, c.size + 3, 2*c.size + 9, 8, 16, 32, 64, rng0.Intn(4*c.size + 40)}[rng0.Intn(9)]
			c2.spread = rng0.Intn(2) == 0
			c2.compact = c2.compact || (c2.adverse == 0 && rng0.Intn(3) == 0)
			if rng0.Intn(4) == 0 {
				c2.match = c17SpecialPatterns[rng0.Intn(len(c17SpecialPatterns))]
			}
			if c2.size >= 400 {
				c2.prechurn = c2.prechurn % 200
			}
			cases = append(cases, c2)
		}
	}
	// every special pattern once per command on a small stable collection and once on a churning one: which pattern a
	// case above gets is drawn, here none is left out
	for _, kind := range []string{"scan", "hscan", "sscan"} {
		for i, pat := range c17SpecialPatterns {
			cases = append(cases, c17Case{kind: kind, size: 8, count: []int{1, 10, 100}[i%3], script: "none", match: pat})
			cases = append(cases, c17Case{kind: kind, size: 24, count: []int{7, 2, 10}[i%3], script: "churn", match: pat, viaCopy: i%2 == 1})
		}
	}
	if rp := os.Getenv("C17_REPLAY"); rp != "" {
		// re-run the exact case (same names) recorded in a replay file
		b, err := os.ReadFile(rp)
		if err == nil {
			var doc struct {
				Replay struct {
					F map[string]any `json:"case_fields"`
					N c17Names       `json:"names"`
				} `json:"replay"`
			}
			if json.Unmarshal(b, &doc) == nil && doc.Replay.F != nil {
				f := doc.Replay.F
				num := func(k string) int { v, _ := f[k].(float64); return int(v) }
				str := func(k string) string { v, _ := f[k].(string); return v }
				one := c17Case{fixed: &doc.Replay.N, kind: str("kind"), size: num("size"), count: num("count"), script: str("script"), match: str("match"), typ: str("type"), adverse: num("adverse"), dead: str("dead"), prechurn: num("prechurn")}
				one.spread, _ = f["spread"].(bool)
				one.compact, _ = f["compact"].(bool)
				cases = []c17Case{one, one}
			}
		}
	}
	if only := os.Getenv("C17_ONLY"); only != "" {
		// debugging aid: kind:size:count:script, repeated 16 times with different names
		f := strings.Split(only, ":")
		size, _ := strconv.Atoi(f[1])
		cnt, _ := strconv.Atoi(f[2])
		cases = nil
		for i := 0; i < 16; i++ {
			cases = append(cases, c17Case{kind: f[0], size: size, count: cnt, script: f[3]})
		}
	}
	r.Set("iterations_planned", len(cases))
	for i := 0; i < 3; i++ {
		r.Sample(cases[i*11%len(cases)].String())
	}
	nsh := 16
	parallel(nsh, 16, func(shard int) {
		rng := shardRng(r, 100+shard)
		c, err := startChild(false)
		if err != nil {
			r.Inconclusive("cannot start child")
			return
		}
		defer func() { c.Stop() }()
		for i := shard; i < len(cases); i += nsh {
			if !c.Alive() {
				c.Stop()
				if c, err = startChild(false); err != nil {
					return
				}
			}
			e, err := startEmu(c, "")
			if err != nil {
				r.Count("infra_retries", 1)
				c.Stop()
				c, _ = startChild(false)
				continue
			}
			c17Run(r, e, cases[i], rng)
			e.close()
			if cases[i].size >= 1000 {
				// give the big tables back
				c.Stop()
				c, _ = startChild(false)
			}
		}
	})
}

var _ = wire.Now
