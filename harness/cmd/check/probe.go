package main

import (
	"fmt"
	"os"
	"strconv"
	"strings"
	"time"
)

// probe: `check probe 'SET a 1' 'GET a' ...` runs commands on one connection of a fresh emulator
// (arguments are split on spaces; use Go-quoted strings for binary arguments) and prints the replies.
func probeMain() {
	c, err := startChild(os.Getenv("VERIF_RACE") != "")
	if err != nil {
		fmt.Println("child:", err)
		os.Exit(2)
	}
	defer c.Stop()
	e, err := startEmu(c, "")
	if err != nil {
		fmt.Println("emu:", err)
		os.Exit(2)
	}
	conns := map[string]interface{ Close() }{}
	_ = conns
	cn, _ := e.dial()
	cn2, _ := e.dial()
	for _, line := range os.Args[2:] {
		use := cn
		if strings.HasPrefix(line, "B: ") {
			use = cn2
			line = line[3:]
		}
		var args []string
		for _, f := range strings.Fields(line) {
			if strings.HasPrefix(f, "\"") {
				if u, err := strconv.Unquote(f); err == nil {
					f = u
				}
			}
			args = append(args, f)
		}
		if strings.ToUpper(args[0]) == "HELLO" && len(args) > 1 && args[1] == "3" {
			use.Proto = 3
		}
		v, err := use.Do(args...)
		if err != nil {
			fmt.Printf("%-40s -> ERROR %v\n", line, err)
			c.WaitExit(500 * time.Millisecond)
			if !c.Alive() {
				fmt.Println(c.StderrHead(3000))
				return
			}
			continue
		}
		fmt.Printf("%-40s -> %s\n", line, v)
	}
}
