package main

import (
	"bytes"
	"fmt"
	"math/rand"
	"strconv"
	"strings"
	"sync"
	"sync/atomic"
	"time"

	"verif/harness/host"
	"verif/harness/resp"
	"verif/harness/verdict"
	"verif/harness/wire"
)

func init() { register("C01", "exploration", checkC01) }

// hostile byte strings used as keys, values, fields, members, elements
func c01Pool(big bool) []string {
	p := []string{"", "\r\n", "\r", "\n", "\x00", "\xff\xfe", "a\r\nb", "$5\r\nhello", "*1\r\n", "+OK\r\n", "-ERR x\r\n", ":1\r\n", "ends-with-cr\r",
		"\r\n\r\n", " ", "a b", "\"quoted\"", "`tick`", "üñí", "\x80\x81", "%d%s%q", "*3\r\n$3\r\nSET\r\n$1\r\nk\r\n$1\r\nv\r\n", "_\r\n", "\n\r"}
	p = append(p, strings.Repeat("x", 8191), strings.Repeat("y", 8192), strings.Repeat("z", 8193), strings.Repeat("\r\n", 5000))
	if big {
		p = append(p, strings.Repeat("B", 65536), strings.Repeat("\x00\xffM", 1<<20/3))
	}
	return p
}

func strClass(s string) string {
	switch {
	case s == "":
		return "empty"
	case len(s) >= 8191:
		return fmt.Sprintf("big%d", len(s))
	case strings.ContainsAny(s, "\r\n"):
		return "crlf"
	case strings.ContainsRune(s, 0):
		return "nul"
	case !isPrintable(s):
		return "nonutf8"
	}
	return "other"
}

type c01Seq struct {
	cmds      [][]string
	unordered []bool // reply compared as canonical (sorted) tree instead of raw bytes
	shapeOnly []bool // reply depends on connection identity or time: only framing and type are compared
}

func c01GenSeq(rng *rand.Rand, n int, pool []string) c01Seq {
	var s c01Seq
	val := func() string {
		if rng.Intn(3) == 0 {
			return pool[rng.Intn(len(pool))]
		}
		return fmt.Sprintf("v%d", rng.Intn(1000))
	}
	small := func() string {
		for {
			v := val()
			if len(v) < 64 {
				return v
			}
		}
	}
	uniq := 0
	add := func(unordered bool, c ...string) {
		s.cmds = append(s.cmds, c)
		s.unordered = append(s.unordered, unordered)
		s.shapeOnly = append(s.shapeOnly, false)
	}
	addShape := func(c ...string) {
		s.cmds = append(s.cmds, c)
		s.unordered = append(s.unordered, false)
		s.shapeOnly = append(s.shapeOnly, true)
	}
	for len(s.cmds) < n {
		k := fmt.Sprintf("k%d", rng.Intn(2))
		switch rng.Intn(40) {
		case 34:
			addShape("CLIENT", "LIST")
		case 35:
			addShape("CLIENT", "INFO")
		case 36:
			addShape("INFO", pick(rng, []string{"server", "clients", "stats", "everything"}))
		case 37:
			addShape("INFO")
		case 38:
			add(false, "COMMAND", "COUNT")
		case 39:
			addShape("HELLO")
		case 0:
			add(false, "SET", k, val())
		case 1:
			add(false, "GET", k)
		case 2:
			add(false, "APPEND", k, small())
		case 3:
			add(false, "STRLEN", k)
		case 4:
			add(false, "INCR", "c1")
		case 5:
			add(false, "INCRBY", "c1", strconv.Itoa(rng.Intn(100)-50))
		case 6:
			add(false, "GETRANGE", k, strconv.Itoa(rng.Intn(6)-3), strconv.Itoa(rng.Intn(8)-2))
		case 7:
			add(false, "RPUSH", "l1", val(), small())
		case 8:
			add(false, "LPUSH", "l1", small())
		case 9:
			add(false, "LRANGE", "l1", "0", "-1")
		case 10:
			add(false, "LPOP", "l1")
		case 11:
			add(false, "LLEN", "l1")
		case 12:
			add(false, "LINDEX", "l1", strconv.Itoa(rng.Intn(5)-2))
		case 13:
			add(false, "HSET", "h1", small(), val())
		case 14:
			add(false, "HGET", "h1", small())
		case 15:
			add(false, "HLEN", "h1")
		case 16:
			add(true, "HGETALL", "h1")
		case 17:
			add(false, "SADD", "s1", small(), small())
		case 18:
			add(true, "SMEMBERS", "s1")
		case 19:
			add(false, "SCARD", "s1")
		case 20:
			uniq++
			add(false, "ECHO", fmt.Sprintf("order-marker-%d", uniq))
		case 21:
			add(false, "PING")
		case 22:
			add(false, "PING", val())
		case 23:
			add(false, "EXISTS", k, "l1", "nokey")
		case 24:
			add(false, "DEL", k)
		case 25:
			add(false, "TYPE", []string{k, "l1", "h1", "s1", "nokey"}[rng.Intn(5)])
		case 26:
			add(false, "NOSUCHCMD", small())
		case 27:
			add(false, "GET", "l1") // WRONGTYPE when l1 exists
		case 28:
			add(false, "MSET", "k0", val(), "k1", small())
		case 29:
			add(false, "MGET", "k0", "k1", "nokey")
		case 30:
			add(false, "SETNX", k, small())
		case 31:
			if len(s.cmds)+4 <= n {
				add(false, "MULTI")
				add(false, "INCR", "c1")
				add(false, "RPUSH", "l1", small())
				add(false, "EXEC")
			}
		case 32:
			add(false, "ECHO", val())
		case 33:
			add(false, "LSET", "l1", "0") // wrong arity -> error
		}
	}
	// every sequence ends with the multi-line introspection replies (framing must survive them in both protocols)
	addShape("CLIENT", "LIST")
	addShape("INFO")
	addShape("CLIENT", "INFO")
	return s
}

type c01Reply struct {
	raw   []byte
	canon string
}

// c01Run sends the request bytes to a fresh emulator cut as requested and
// returns one reply per command plus the sentinel's.
func c01Run(r *verdict.Run, c *host.Child, proto int, seq c01Seq, nonce string, mode string, cuts []int, delay time.Duration) (replies []c01Reply, reads []int, failure string) {
	e, err := startEmu(c, "")
	if err != nil {
		return nil, nil, "infra: " + err.Error()
	}
	defer e.close()
	c.Do(5*time.Second, "records") // clear
	cn, err := e.dial()
	if err != nil {
		return nil, nil, "infra: " + err.Error()
	}
	defer cn.Close()
	cn.Timeout = 10 * time.Second
	if proto == 3 {
		if err := cn.Hello3(); err != nil {
			return nil, nil, "hello: " + err.Error()
		}
		c.Do(5*time.Second, "records")
	}
	all := append(append([][]string{}, seq.cmds...), []string{"ECHO", nonce})
	var sending atomic.Bool // the request bytes are still being written (in delayed segments) by another goroutine
	read := func(i int) bool {
		started := time.Now()
		for {
			before := cn.SentBytes()
			v, raw, err := cn.ReadValue(cn.Timeout)
			if err == wire.ErrTimeout && (sending.Load() || cn.SentBytes() != before) && time.Since(started) < 5*time.Minute {
				// the reply is not due yet: its request has not been sent completely (slow segmented send on a loaded machine)
				r.Count("waits_for_slow_segmented_send", 1)
				continue
			}
			if err != nil {
				failure = fmt.Sprintf("reply %d of %d (%s): %v; unparsed bytes %q", i, len(all), cmdString(all[i]), err, truncBytes(cn.Pending(), 120))
				return false
			}
			replies = append(replies, c01Reply{raw, v.Canon()})
			return true
		}
	}
	if mode == "reference" {
		for i, cmd := range all {
			if err := cn.Send(resp.Cmd(cmd...)); err != nil {
				return replies, nil, "send: " + err.Error()
			}
			if !read(i) {
				return
			}
		}
	} else {
		var b []byte
		for _, cmd := range all {
			b = append(b, resp.Cmd(cmd...)...)
		}
		done := make(chan error, 1)
		sending.Store(true)
		go func() {
			err := cn.SendCuts(b, cuts, delay)
			sending.Store(false)
			done <- err
		}()
		for i := range all {
			if !read(i) {
				return
			}
		}
		if err := <-done; err != nil {
			return replies, nil, "send: " + err.Error()
		}
	}
	if extra := cn.Quiet(30 * time.Millisecond); len(extra) > 0 {
		failure = fmt.Sprintf("%d unexpected bytes after the last reply: %q", len(extra), truncBytes(extra, 120))
		return
	}
	if rs, err := c.Do(5*time.Second, "records"); err == nil {
		for _, f := range strings.Fields(rs) {
			p := strings.Split(f, "|")
			if len(p) == 3 && p[0] == "cxn:read" {
				n, _ := strconv.Atoi(strings.SplitN(p[2], "/", 2)[0])
				reads = append(reads, n)
			}
		}
	}
	return
}

func c01Cuts(rng *rand.Rand, variant string, b []byte, bounds []int) []int {
	var cuts []int
	switch variant {
	case "pipeline":
	case "byte":
		for i := 1; i < len(b); i++ {
			cuts = append(cuts, i)
		}
	case "crlf":
		for i := 0; i+1 < len(b); i++ {
			if b[i] == '\r' && b[i+1] == '\n' {
				cuts = append(cuts, i+1)
			}
		}
	case "header":
		for i := 0; i+1 < len(b); i++ {
			if (b[i] == '$' || b[i] == '*') && (i == 0 || b[i-1] == '\n') {
				cuts = append(cuts, i+1)
			}
		}
	case "blocks":
		// writes of exactly 8192 bytes
		for m := 8192; m < len(b); m += 8192 {
			cuts = append(cuts, m)
		}
	case "8k":
		for m := 8192; m-1 < len(b); m += 8192 {
			cuts = append(cuts, m-1, m, m+1)
		}
		if len(cuts) == 0 {
			cuts = append(cuts, len(b)/2)
		}
	case "random":
		pos := 0
		for {
			pos += 1 + rng.Intn(40)
			if pos >= len(b) {
				break
			}
			cuts = append(cuts, pos)
		}
	case "midcmd":
		// two commands per segment, cut in the middle of every second command
		for i := 1; i < len(bounds); i += 2 {
			mid := (bounds[i-1] + bounds[i]) / 2
			cuts = append(cuts, mid)
		}
	}
	return cuts
}

func checkC01(r *verdict.Run) {
	r.Rule = "sequences of well-formed commands (+ sentinel ECHO) are sent to a fresh emulator once command-by-command (reference) and again with the same bytes cut differently (pipeline, every byte, inside CRLF, inside length headers, around 8192, in writes of exactly 8192 bytes, random, mid-command; every other sequence is padded to a whole number of 8192-byte blocks); " +
		"oracle: exactly one strictly parsed reply per command, same bytes as the reference (canonical tree for HGETALL/SMEMBERS), nothing after the sentinel; commands in front of a blocking command in the same segment are answered while it is still blocked; commands pipelined in several segments behind a blocking command (BLPOP/BRPOP/BLMOVE/BLMPOP, ended by a push or a timeout) must be answered like the command-by-command run; six connections reading their own 8 MiB values at the same time (one of them slowly) must each receive exactly their bytes; segments seconds apart, and connections still in use seconds after a command arrived in pieces, are served like a connection that only ever sent whole commands; arguments of 64 KiB to 5 MiB (around every power of two and 10^6) round-trip through SET/GET/ECHO/RPUSH whole and in segments; hostile byte strings must round-trip in every role; error replies must stay on one line. " +
		"distinct = (variant, protocol, command, reply class) + (role, string class)"
	slowDone := make(chan struct{})
	go func() { defer close(slowDone); c01Slow(r, time.Duration(tierPick(r, 6500, 40000))*time.Millisecond) }()
	defer func() { <-slowDone }()
	nseq := tierPick(r, 24, 400)
	maxLen := tierPick(r, 12, 40)
	variants := []string{"pipeline", "byte", "crlf", "header", "8k", "blocks", "random", "midcmd"}
	pool := c01Pool(r.Tier == "thorough")
	workers := 12
	parallel(nseq, workers, func(shard int) {
		rng := shardRng(r, shard)
		c, err := startChild(false)
		if err != nil {
			r.Inconclusive("cannot start child")
			return
		}
		defer c.Stop()
		c.Ctl("record cxn:read")
		seq := c01GenSeq(rng, 3+rng.Intn(maxLen-2), pool)
		proto := 2 + shard%2
		nonce := fmt.Sprintf("sentinel-%d", shard)
		if shard%2 == 1 {
			// every other sequence is padded (in its sentinel) to a whole number of 8192-byte blocks: the last byte of
			// the request then coincides with the end of a full read buffer
			base := 0
			for _, cmd := range seq.cmds {
				base += len(resp.Cmd(cmd...))
			}
			for pad := 0; pad < 8192+16; pad++ {
				cand := nonce + "-" + strings.Repeat("p", pad)
				if (base+len(resp.Cmd("ECHO", cand)))%8192 == 0 {
					nonce = cand
					break
				}
			}
		}
		ref, _, fail := c01Run(r, c, proto, seq, nonce, "reference", nil, 0)
		describe := func() []string {
			out := []string{}
			for _, cmd := range seq.cmds {
				out = append(out, cmdString(cmd))
			}
			return out
		}
		if shard < 3 {
			r.Sample(map[string]any{"proto": proto, "commands": describe()})
		}
		if strings.HasPrefix(fail, "infra") {
			r.Inconclusive(fail)
			return
		}
		r.Eval(1)
		if fail != "" {
			r.Report("c01/reference/"+c01FailClass(fail), "command-by-command run: "+fail, map[string]any{"proto": proto, "commands": seq.cmds})
			return
		}
		if string(ref[len(ref)-1].raw) != string(resp.Cmd(nonce)[4:]) {
			r.Report("c01/count/reference", fmt.Sprintf("the sentinel's reply is %q", ref[len(ref)-1].raw), map[string]any{"proto": proto, "commands": seq.cmds})
			return
		}
		for i, cmd := range seq.cmds {
			r.Distinct(fmt.Sprintf("reference/%d/%s/%c", proto, strings.ToLower(cmd[0]), ref[i].raw[0]))
			// error replies must be single-line (strict parser already enforces no bare CR/LF)
		}
		var b []byte
		var bounds []int
		for _, cmd := range append(append([][]string{}, seq.cmds...), []string{"ECHO", nonce}) {
			b = append(b, resp.Cmd(cmd...)...)
			bounds = append(bounds, len(b))
		}
		isBound := map[int]bool{}
		for _, x := range bounds {
			isBound[x] = true
		}
		for _, variant := range variants {
			if variant == "byte" && len(b) > 2048 {
				if r.Tier != "thorough" || len(b) > 40000 {
					r.Count("byte_variant_skipped_large_request", 1)
					continue
				}
			}
			cuts := c01Cuts(rng, variant, b, bounds)
			delay := 150 * time.Microsecond
			if variant == "byte" {
				delay = 20 * time.Microsecond
			}
			if variant == "random" {
				delay = time.Duration(rng.Intn(2000)) * time.Microsecond
			}
			got, reads, fail := c01Run(r, c, proto, seq, nonce, variant, cuts, delay)
			if strings.HasPrefix(fail, "infra") {
				r.Inconclusive(fail)
				continue
			}
			r.Eval(1)
			rep := map[string]any{"proto": proto, "commands": seq.cmds, "variant": variant, "cuts": cuts, "request_quoted": strconv.Quote(string(truncBytes(b, 4000)))}
			if fail != "" {
				r.Report("c01/"+variant+"/"+c01FailClass(fail), variant+" run: "+fail, rep)
				continue
			}
			// server-side evidence of segmentation
			cum, split := 0, 0
			for _, n := range reads {
				cum += n
				if !isBound[cum] {
					split++
					r.Distinct(fmt.Sprintf("split-offset/%d", cum))
				}
			}
			r.Count("server_reads", int64(len(reads)))
			r.Count("server_reads_ending_mid_command", int64(split))
			if split == 0 && variant != "pipeline" {
				r.Count("variant_runs_not_split_server_side", 1)
			} else {
				r.Count("variant_runs_split_server_side", 1)
			}
			for i := range ref {
				same := bytes.Equal(ref[i].raw, got[i].raw)
				if i < len(seq.cmds) && seq.unordered[i] {
					same = ref[i].canon == got[i].canon
				}
				if i < len(seq.cmds) && seq.shapeOnly[i] {
					same = ref[i].raw[0] == got[i].raw[0] // well-formed (already parsed strictly) and of the same type
				}
				if !same {
					name := "sentinel"
					if i < len(seq.cmds) {
						name = strings.ToLower(seq.cmds[i][0])
					}
					r.Report("c01/"+variant+"/reply-differs/"+name, fmt.Sprintf("reply %d (%s) differs from the command-by-command run:\n reference %q\n %s %q", i, name, truncBytes(ref[i].raw, 200), variant, truncBytes(got[i].raw, 200)), rep)
					break
				}
				if i < len(seq.cmds) {
					r.Distinct(fmt.Sprintf("%s/%d/%s/%c", variant, proto, strings.ToLower(seq.cmds[i][0]), got[i].raw[0]))
				}
			}
		}
	})
	c01Large(r)
	c01BeforeBlocking(r)
	c01Blocked(r, pool, tierPick(r, 20, 300))
	c01Cross(r, tierPick(r, 3, 12))
	c01Binary(r, pool)
	c01Errors(r, pool)
	r.Assume("loopback TCP with TCP_NODELAY and 20 us - 2 ms pauses between writes stands in for network segmentation; the cxn:read hook reports how many server reads really ended mid-command")
}

func c01FailClass(fail string) string {
	switch {
	case strings.Contains(fail, "framing error"):
		return "bad-framing"
	case strings.Contains(fail, "timeout"):
		return "missing-reply"
	case strings.Contains(fail, "unexpected bytes"):
		return "extra-bytes"
	case strings.Contains(fail, "EOF") || strings.Contains(fail, "reset"):
		return "connection-closed"
	}
	return "other"
}

// c01Binary stores every pool string in every role and reads it back.
func c01Binary(r *verdict.Run, pool []string) {
	c, err := startChild(false)
	if err != nil {
		r.Inconclusive("cannot start child")
		return
	}
	defer c.Stop()
	for proto := 2; proto <= 3; proto++ {
		e, err := startEmu(c, "")
		if err != nil {
			r.Inconclusive("infra: " + err.Error())
			return
		}
		cn, err := e.dial()
		if err != nil {
			r.Inconclusive("infra: " + err.Error())
			return
		}
		cn.Timeout = 20 * time.Second
		if proto == 3 {
			cn.Hello3()
		}
		for i, s := range pool {
			cls := strClass(s)
			type probe struct {
				role string
				cmds [][]string
				// index of the reply that must contain s, and how
				at   int
				how  string // bulk | in-array | pair-key | pair-val | int1
				want string
			}
			id := strconv.Itoa(i)
			probes := []probe{
				{"echo", [][]string{{"ECHO", s}}, 0, "bulk", s},
				{"string-value", [][]string{{"SET", "bv" + id, s}, {"GET", "bv" + id}}, 1, "bulk", s},
				{"string-append", [][]string{{"DEL", "ba" + id}, {"APPEND", "ba" + id, s}, {"APPEND", "ba" + id, s}, {"GET", "ba" + id}}, 3, "bulk", s + s},
				{"getrange-whole", [][]string{{"SET", "bg" + id, s}, {"GETRANGE", "bg" + id, "0", "-1"}}, 1, "bulk", s},
				{"key-name", [][]string{{"SET", "K" + s, "1"}, {"GET", "K" + s}, {"KEYS", "*"}}, 2, "in-array", "K" + s},
				{"list-element", [][]string{{"DEL", "bl" + id}, {"RPUSH", "bl" + id, s, "tail"}, {"LRANGE", "bl" + id, "0", "-1"}}, 2, "in-array", s},
				{"list-pop", [][]string{{"DEL", "bp" + id}, {"LPUSH", "bp" + id, s}, {"LPOP", "bp" + id}}, 2, "bulk", s},
				{"hash-field", [][]string{{"DEL", "bh" + id}, {"HSET", "bh" + id, s, "val"}, {"HGETALL", "bh" + id}}, 2, "in-array", s},
				{"hash-value", [][]string{{"DEL", "bw" + id}, {"HSET", "bw" + id, "fld", s}, {"HGET", "bw" + id, "fld"}}, 2, "bulk", s},
				{"hash-field-lookup", [][]string{{"DEL", "bx" + id}, {"HSET", "bx" + id, s, "val"}, {"HGET", "bx" + id, s}}, 2, "bulk", "val"},
				{"set-member", [][]string{{"DEL", "bs" + id}, {"SADD", "bs" + id, s}, {"SMEMBERS", "bs" + id}}, 2, "in-array", s},
				{"set-ismember", [][]string{{"DEL", "bt" + id}, {"SADD", "bt" + id, s}, {"SISMEMBER", "bt" + id, s}}, 2, "int1", ""},
				{"mget", [][]string{{"MSET", "bm" + id, s, "bn" + id, "x"}, {"MGET", "bm" + id, "bn" + id}}, 1, "in-array", s},
			}
			for _, p := range probes {
				r.Eval(1)
				vs, err := cn.Pipeline(p.cmds)
				rep := map[string]any{"proto": proto, "role": p.role, "string_quoted": strconv.Quote(string(truncBytes([]byte(s), 300))), "string_len": len(s), "commands": len(p.cmds)}
				if err != nil {
					r.Report("c01/binary/"+p.role+"/"+cls+"/no-reply", fmt.Sprintf("role %s, string %s: %v (replies so far %v)", p.role, strconv.Quote(string(truncBytes([]byte(s), 80))), err, vals(vs)), rep)
					// connection state is unknown now
					cn.Close()
					cn, _ = e.dial()
					if cn == nil {
						return
					}
					cn.Timeout = 20 * time.Second
					if proto == 3 {
						cn.Hello3()
					}
					continue
				}
				v := vs[p.at]
				ok := false
				switch p.how {
				case "bulk":
					ok = v.Kind == '$' && !v.Null && string(v.Str) == p.want
				case "in-array":
					for _, e := range v.Elems {
						if (e.Kind == '$') && string(e.Str) == p.want {
							ok = true
						}
					}
				case "int1":
					ok = v.Kind == ':' && v.Int == 1 || v.Kind == '#' && v.Int == 1
				}
				if !ok {
					got := v.String()
					if len(got) > 300 {
						got = got[:300] + "..."
					}
					r.Report("c01/binary/"+p.role+"/"+cls, fmt.Sprintf("role %s: stored %s (%d bytes) but read back %s", p.role, strconv.Quote(string(truncBytes([]byte(s), 80))), len(s), got), rep)
				}
				r.Distinct("binary/" + p.role + "/" + cls + "/" + strconv.Itoa(proto))
			}
		}
		cn.Close()
		e.close()
	}
}

// c01Errors provokes error replies that quote client input.
func c01Errors(r *verdict.Run, pool []string) {
	c, err := startChild(false)
	if err != nil {
		r.Inconclusive("cannot start child")
		return
	}
	defer c.Stop()
	e, err := startEmu(c, "")
	if err != nil {
		r.Inconclusive("infra: " + err.Error())
		return
	}
	defer e.close()
	for proto := 2; proto <= 3; proto++ {
		cn, err := e.dial()
		if err != nil {
			r.Inconclusive("infra: " + err.Error())
			return
		}
		cn.Timeout = 10 * time.Second
		if proto == 3 {
			cn.Hello3()
		}
		cn.Pipeline([][]string{{"DEL", "el"}, {"RPUSH", "el", "x"}, {"SET", "es", "notanumber"}})
		n := 0
		for _, s := range pool {
			if len(s) > 70000 {
				continue
			}
			cases := []struct {
				kind string
				cmd  []string
			}{
				{"unknown-command-name", []string{"FOO" + s}},
				{"unknown-command-args", []string{"FOO", s, "x" + s}},
				{"wrong-arity", []string{"GET", s, s, s}},
				{"wrongtype", []string{"GET", "el"}},
				{"unknown-subcommand", []string{"CLIENT", s}},
				{"not-integer", []string{"INCRBY", "es", s}},
				{"bad-option", []string{"SET", "ek", "v", s}},
				{"hello-bad", []string{"HELLO", s}},
				{"select-bad", []string{"SELECT", s}},
				{"command-getkeys", []string{"COMMAND", "GETKEYS", s, s}},
				{"client-kill-addr", []string{"CLIENT", "KILL", s}},
				{"client-kill-user", []string{"CLIENT", "KILL", "USER", s}},
			}
			for _, cs := range cases {
				n++
				nonce := fmt.Sprintf("err-sentinel-%d", n)
				r.Eval(1)
				vs, err := cn.Pipeline([][]string{cs.cmd, {"ECHO", nonce}})
				rep := map[string]any{"proto": proto, "command": cs.cmd}
				cls := strClass(s)
				if err != nil {
					r.Report("c01/error-framing/"+cs.kind+"/"+cls, fmt.Sprintf("%s: the reply stream no longer parses after %s: %v; bytes %q", cs.kind, cmdString(cs.cmd), err, truncBytes(cn.Pending(), 160)), rep)
					cn.Close()
					cn, _ = e.dial()
					if cn == nil {
						return
					}
					cn.Timeout = 10 * time.Second
					if proto == 3 {
						cn.Hello3()
					}
					continue
				}
				if vs[1].Text() != nonce {
					r.Report("c01/error-framing/"+cs.kind+"/"+cls+"/sentinel", fmt.Sprintf("%s: after %s the sentinel's reply is %s", cs.kind, cmdString(cs.cmd), vs[1]), rep)
				}
				if vs[0].IsError() && bytes.ContainsAny(vs[0].Str, "\r\n") {
					r.Report("c01/error-framing/"+cs.kind+"/"+cls+"/crlf-in-error", fmt.Sprintf("error reply contains a line break: %s", vs[0]), rep)
				}
				kind := "value"
				if vs[0].IsError() {
					kind = "error"
				}
				r.Distinct("error-framing/" + cs.kind + "/" + cls + "/" + kind + "/" + strconv.Itoa(proto))
			}
		}
		cn.Close()
	}
}

// c01Blocked: commands pipelined behind a blocking command arrive in several segments while the connection is
// blocked; after another client's push ends the block, every reply must equal the command-by-command run.
func c01Blocked(r *verdict.Run, pool []string, nseq int) {
	blockers := [][]string{{"BLPOP", "bq", "0"}, {"BRPOP", "bq", "other", "0"}, {"BLMOVE", "bq", "bdst", "LEFT", "RIGHT", "0"}, {"BLMPOP", "0", "1", "bq", "LEFT"}, {"BLPOP", "bq", "0.15"}}
	parallel(nseq, 12, func(shard int) {
		rng := shardRng(r, 500+shard)
		c, err := startChild(false)
		if err != nil {
			r.Inconclusive("cannot start child")
			return
		}
		defer c.Stop()
		c.Ctl("record cxn:read")
		seq := c01GenSeq(rng, 3+rng.Intn(8), pool)
		blk := blockers[shard%len(blockers)]
		timed := blk[len(blk)-1] == "0.15" // ends by timeout instead of a push
		all := append([][]string{blk}, seq.cmds...)
		nonce := fmt.Sprintf("blk-sentinel-%d", shard)
		all = append(all, []string{"ECHO", nonce})
		run := func(split bool) (replies [][]byte, failure string) {
			e, err := startEmu(c, "")
			if err != nil {
				return nil, "infra: " + err.Error()
			}
			defer e.close()
			cn, err := e.dial()
			if err != nil {
				return nil, "infra: " + err.Error()
			}
			defer cn.Close()
			helper, err := e.dial()
			if err != nil {
				return nil, "infra: " + err.Error()
			}
			defer helper.Close()
			cn.Timeout = 10 * time.Second
			read := func(i int) bool {
				_, raw, err := cn.ReadValue(cn.Timeout)
				if err != nil {
					failure = fmt.Sprintf("reply %d of %d (%s): %v; unparsed bytes %q", i, len(all), cmdString(all[i]), err, truncBytes(cn.Pending(), 120))
					return false
				}
				replies = append(replies, raw)
				return true
			}
			if !split {
				// reference: the element is there before the blocking command, everything one command at a time
				if !timed {
					helper.Do("RPUSH", "bq", "pushed")
				}
				for i, cmd := range all {
					cn.Send(resp.Cmd(cmd...))
					if !read(i) {
						return
					}
				}
				return
			}
			var b []byte
			for _, cmd := range all {
				b = append(b, resp.Cmd(cmd...)...)
			}
			first := len(resp.Cmd(blk...))
			// the blocking command alone, then the rest in several delayed segments while the connection is blocked
			cuts := []int{first}
			pos := first
			for {
				pos += 1 + rng.Intn(30)
				if pos >= len(b) {
					break
				}
				cuts = append(cuts, pos)
			}
			if err := cn.SendCuts(b, cuts, time.Duration(300+rng.Intn(1500))*time.Microsecond); err != nil {
				return nil, "send: " + err.Error()
			}
			time.Sleep(20 * time.Millisecond)
			if !timed {
				helper.Do("RPUSH", "bq", "pushed")
			}
			for i := range all {
				if !read(i) {
					return
				}
			}
			if extra := cn.Quiet(30 * time.Millisecond); len(extra) > 0 {
				failure = fmt.Sprintf("%d unexpected bytes after the last reply: %q", len(extra), truncBytes(extra, 120))
			}
			return
		}
		ref, fail := run(false)
		if strings.HasPrefix(fail, "infra") {
			r.Inconclusive(fail)
			return
		}
		rep := map[string]any{"commands": all}
		if fail != "" {
			r.Report("c01/blocked-pipeline/reference/"+c01FailClass(fail), "command-by-command run: "+fail, rep)
			return
		}
		got, fail := run(true)
		r.Eval(1)
		if strings.HasPrefix(fail, "infra") {
			r.Inconclusive(fail)
			return
		}
		if fail != "" {
			r.Report("c01/blocked-pipeline/"+c01FailClass(fail), fmt.Sprintf("commands pipelined in several segments behind %s: %s", cmdString(blk), fail), rep)
			return
		}
		for i := range ref {
			same := bytes.Equal(ref[i], got[i])
			if i >= 1 && i-1 < len(seq.cmds) && (seq.unordered[i-1] || seq.shapeOnly[i-1]) {
				same = ref[i][0] == got[i][0]
			}
			if !same {
				r.Report("c01/blocked-pipeline/reply-differs", fmt.Sprintf("reply %d (%s) behind %s differs from the command-by-command run:\n reference %q\n split     %q", i, cmdString(all[i]), cmdString(blk), truncBytes(ref[i], 200), truncBytes(got[i], 200)), rep)
				break
			}
		}
		r.Distinct(fmt.Sprintf("blocked-pipeline/%s/%d-commands", blk[0], len(seq.cmds)))
	})
}

// c01Cross: what one connection receives must not depend on what the emulator sends to other connections at the
// same time. Each of several connections owns a large value with its own byte pattern and reads it again and again
// (one of them slowly, so that its reply is written in many pieces); every reply must be exactly the stored bytes.
func c01Cross(r *verdict.Run, runs int) {
	parallel(runs, 4, func(run int) {
		c, err := startChild(false)
		if err != nil {
			r.Inconclusive("cannot start child")
			return
		}
		defer c.Stop()
		e, err := startEmu(c, "")
		if err != nil {
			r.Inconclusive("infra: " + err.Error())
			return
		}
		nconn := 6
		size := 8 << 20
		vals := make([][]byte, nconn)
		setup, err := e.dial()
		if err != nil {
			return
		}
		setup.Timeout = 30 * time.Second
		for i := range vals {
			// (all values are larger than the socket buffers, so a write to a client that does not read stalls half-way,
			// and of similar size, so that a buffer recycled from one reply would be overwritten over its whole length)
			n := 8<<20 + i*1000
			v := make([]byte, n)
			for j := range v {
				v[j] = byte('a' + i) // connection-specific pattern
				if j%97 == 0 {
					v[j] = byte(j / 97)
				}
			}
			vals[i] = v
			if _, err := setup.Do("SET", fmt.Sprintf("big%d", i), string(v)); err != nil {
				// no reply to a well-formed command while the emulator serves others is a finding, not noise
				can := newCanary(e.port)
				alive, _ := can.check(5 * time.Second)
				can.close()
				if alive && err == wire.ErrTimeout {
					r.Report("c01/large-argument/no-reply", fmt.Sprintf("SET big%d <%d bytes> got no reply within 30 s while another connection is served normally", i, n), map[string]any{"bytes": n})
				} else {
					r.Inconclusive("cross: setup failed: " + err.Error())
				}
				return
			}
		}
		setup.Close()
		var wg sync.WaitGroup
		var bad atomic.Int64
		var reads atomic.Int64
		var mu sync.Mutex
		example := ""
		for i := 0; i < nconn; i++ {
			wg.Add(1)
			go func(i int) {
				defer wg.Done()
				cn, err := e.dial()
				if err != nil {
					return
				}
				defer cn.Close()
				cn.Timeout = 60 * time.Second
				rounds := 8
				if i == 0 {
					rounds = 2
				}
				for round := 0; round < rounds && bad.Load() == 0; round++ {
					if err := cn.SendCmd("GET", fmt.Sprintf("big%d", i)); err != nil {
						return
					}
					if i == 0 {
						time.Sleep(400 * time.Millisecond) // the slow reader: meanwhile the others get several replies of their own
					}
					v, _, err := cn.ReadValue(60 * time.Second)
					reads.Add(1)
					if err != nil || !bytes.Equal(v.Str, vals[i]) {
						bad.Add(1)
						mu.Lock()
						if example == "" {
							at := 0
							for at < len(v.Str) && at < len(vals[i]) && v.Str[at] == vals[i][at] {
								at++
							}
							example = fmt.Sprintf("connection %d round %d: GET big%d returned %d bytes (stored %d), first difference at offset %d, error %v", i, round, i, len(v.Str), len(vals[i]), at, err)
						}
						mu.Unlock()
						return
					}
				}
			}(i)
		}
		wg.Wait()
		r.Eval(int(reads.Load()))
		r.Count("cross_connection_large_reads", reads.Load())
		if bad.Load() > 0 {
			r.Report("c01/cross-connection/reply-bytes-differ", fmt.Sprintf("%d connections each read their own %d MiB value concurrently (one of them slowly): %s", nconn, size>>20, example), nil)
		}
		r.Distinct(fmt.Sprintf("cross/%dMiB", size>>20))
	})
}

// c01Slow: time as a dimension of segmentation. Whatever the pause between two segments of a command, and however long
// a connection goes on (idle or busy) after a command that arrived in pieces, it is served like a connection that only
// ever sent whole commands. The pauses are long (seconds) because what could break this is a timer.
func c01Slow(r *verdict.Run, pause time.Duration) {
	c, err := startChild(false)
	if err != nil {
		r.Inconclusive("cannot start child")
		return
	}
	defer c.Stop()
	e, err := startEmu(c, "")
	if err != nil {
		r.Inconclusive("infra: " + err.Error())
		return
	}
	type plan struct {
		name string
		run  func(cn *wire.Conn, key string) error
	}
	whole := func(cn *wire.Conn, args ...string) error { return cn.Send(resp.Cmd(args...)) }
	split := func(cn *wire.Conn, gap time.Duration, args ...string) error {
		b := resp.Cmd(args...)
		cut := len(b) / 2
		if err := cn.Send(b[:cut]); err != nil {
			return err
		}
		time.Sleep(gap)
		return cn.Send(b[cut:])
	}
	expect := func(cn *wire.Conn, want string) error {
		v, _, err := cn.ReadValue(10 * time.Second)
		if err != nil {
			return fmt.Errorf("no reply (expected %q): %v", want, err)
		}
		got := v.Text()
		if v.Kind == ':' {
			got = strconv.FormatInt(v.Int, 10)
		}
		if got != want {
			return fmt.Errorf("reply %s, expected %q", v, want)
		}
		return nil
	}
	plans := []plan{
		{"control-whole-commands-then-idle", func(cn *wire.Conn, key string) error {
			if err := whole(cn, "SET", key, "v1"); err != nil {
				return err
			}
			if err := expect(cn, "OK"); err != nil {
				return err
			}
			time.Sleep(pause)
			whole(cn, "GET", key)
			return expect(cn, "v1")
		}},
		{"long-pause-between-the-segments-of-a-command", func(cn *wire.Conn, key string) error {
			if err := split(cn, pause, "SET", key, "v1"); err != nil {
				return err
			}
			if err := expect(cn, "OK"); err != nil {
				return err
			}
			whole(cn, "GET", key)
			return expect(cn, "v1")
		}},
		{"idle-after-a-command-that-arrived-in-pieces", func(cn *wire.Conn, key string) error {
			if err := split(cn, 30*time.Millisecond, "SET", key, "v1"); err != nil {
				return err
			}
			if err := expect(cn, "OK"); err != nil {
				return err
			}
			time.Sleep(pause)
			if err := whole(cn, "GET", key); err != nil {
				return err
			}
			if err := expect(cn, "v1"); err != nil {
				return err
			}
			whole(cn, "APPEND", key, "+")
			return expect(cn, "3")
		}},
		{"steady-use-after-a-command-that-arrived-in-pieces", func(cn *wire.Conn, key string) error {
			if err := split(cn, 30*time.Millisecond, "SET", key, "0"); err != nil {
				return err
			}
			if err := expect(cn, "OK"); err != nil {
				return err
			}
			n := 0
			for t0 := time.Now(); time.Since(t0) < pause+500*time.Millisecond; {
				n++
				if err := whole(cn, "INCR", key); err != nil {
					return fmt.Errorf("INCR %d: %v", n, err)
				}
				if err := expect(cn, strconv.Itoa(n)); err != nil {
					return fmt.Errorf("INCR %d after %v: %v", n, time.Since(t0).Round(time.Millisecond), err)
				}
				time.Sleep(250 * time.Millisecond)
			}
			return nil
		}},
		{"large-value-in-several-reads-then-idle", func(cn *wire.Conn, key string) error {
			big := strings.Repeat("x", 40000)
			if err := whole(cn, "SET", key, big); err != nil {
				return err
			}
			if err := expect(cn, "OK"); err != nil {
				return err
			}
			time.Sleep(pause)
			whole(cn, "STRLEN", key)
			return expect(cn, "40000")
		}},
	}
	var wg sync.WaitGroup
	for i, p := range plans {
		wg.Add(1)
		go func(i int, p plan) {
			defer wg.Done()
			cn, err := e.dial()
			if err != nil {
				r.Inconclusive("infra: " + err.Error())
				return
			}
			defer cn.Close()
			r.Eval(1)
			if err := p.run(cn, fmt.Sprintf("slow-%d", i)); err != nil {
				r.Report("c01/slow/"+p.name, fmt.Sprintf("%s (pause %v): %v; a connection that only sent whole commands is served normally", p.name, pause, err), map[string]any{"plan": p.name, "pause_ms": pause.Milliseconds()})
				return
			}
			r.Distinct("slow/" + p.name)
		}(i, p)
	}
	wg.Wait()
}

// c01Large: the size of one argument as a dimension: values around the powers of two from 64 KiB to 4 MiB and around
// 10^6, sent whole and in segments, must be answered and come back byte for byte (SET/STRLEN/GET, ECHO, RPUSH/LINDEX).
func c01Large(r *verdict.Run) {
	c, err := startChild(false)
	if err != nil {
		r.Inconclusive("cannot start child")
		return
	}
	defer c.Stop()
	e, err := startEmu(c, "")
	if err != nil {
		r.Inconclusive("infra: " + err.Error())
		return
	}
	var sizes []int
	for _, base := range []int{1 << 16, 1 << 19, 1000000, 1 << 20, 1 << 21, 1 << 22} {
		sizes = append(sizes, base-1, base, base+1)
	}
	sizes = append(sizes, 5<<20+3)
	if r.Tier == "thorough" {
		sizes = append(sizes, 1<<24+1, 1<<25+7)
	}
	parallel(len(sizes), 4, func(i int) {
		n := sizes[i]
		v := make([]byte, n)
		for j := range v {
			v[j] = byte(j*31 + j/251)
		}
		cn, err := e.dial()
		if err != nil {
			return
		}
		defer cn.Close()
		key := fmt.Sprintf("large-%d", n)
		fail := func(what string) {
			cls := strings.ToLower(strings.SplitN(what, " ", 2)[0])
			can := newCanary(e.port)
			alive, _ := can.check(5 * time.Second)
			can.close()
			if !alive {
				r.Inconclusive("emulator unresponsive during the large-argument cases")
				return
			}
			r.Report("c01/large-argument/"+cls, fmt.Sprintf("argument of %d bytes: %s (other connections are served normally)", n, what), map[string]any{"bytes": n})
		}
		r.Eval(1)
		req := resp.Cmd("SET", key, string(v))
		// whole, or in three segments cut inside the value
		if i%2 == 0 {
			cn.Send(req)
		} else {
			cn.SendCuts(req, []int{len(req) / 3, 2 * len(req) / 3}, 2*time.Millisecond)
		}
		if rv, _, err := cn.ReadValue(30 * time.Second); err != nil || rv.Text() != "OK" {
			fail(fmt.Sprintf("SET not answered with OK (%v %s)", err, trunc(rv.String(), 80)))
			return
		}
		cn.Timeout = 30 * time.Second
		if rv, err := cn.Do("STRLEN", key); err != nil || rv.Int != int64(n) {
			fail(fmt.Sprintf("STRLEN = %s (%v)", rv, err))
			return
		}
		if rv, err := cn.Do("GET", key); err != nil || string(rv.Str) != string(v) {
			fail(fmt.Sprintf("GET returned %d bytes that differ from what was stored (%v)", len(rv.Str), err))
			return
		}
		if rv, err := cn.Do("ECHO", string(v)); err != nil || string(rv.Str) != string(v) {
			fail(fmt.Sprintf("ECHO returned %d bytes that differ (%v)", len(rv.Str), err))
			return
		}
		if rv, err := cn.Do("RPUSH", key+"-l", "small", string(v)); err != nil || rv.Int != 2 {
			fail(fmt.Sprintf("RPUSH replied %s (%v)", trunc(rv.String(), 80), err))
			return
		}
		if rv, err := cn.Do("LINDEX", key+"-l", "1"); err != nil || string(rv.Str) != string(v) {
			fail(fmt.Sprintf("LINDEX returned %d bytes that differ (%v)", len(rv.Str), err))
			return
		}
		cn.Do("DEL", key, key+"-l")
		r.Distinct(fmt.Sprintf("large-argument/%d", n))
	})
}

// c01BeforeBlocking: commands that arrive in the same segment IN FRONT of a blocking command are answered at once -
// their replies must not wait for the block to end (however the replies are written, a command that was executed has
// been answered when the next one starts to wait).
func c01BeforeBlocking(r *verdict.Run) {
	c, err := startChild(false)
	if err != nil {
		r.Inconclusive("cannot start child")
		return
	}
	defer c.Stop()
	e, err := startEmu(c, "")
	if err != nil {
		r.Inconclusive("infra: " + err.Error())
		return
	}
	helper, err := e.dial()
	if err != nil {
		return
	}
	defer helper.Close()
	blockers := [][]string{{"BLPOP", "bbq", "0"}, {"BRPOP", "bbq", "other", "0"}, {"BLMOVE", "bbq", "bbdst", "LEFT", "RIGHT", "0"}, {"BRPOPLPUSH", "bbq", "bbdst", "0"}, {"BLMPOP", "0", "1", "bbq", "LEFT"}, {"BLPOP", "bbq", "30"}}
	for bi, blk := range blockers {
		for _, nfront := range []int{1, 3, 40} {
			cn, err := e.dial()
			if err != nil {
				return
			}
			helper.Do("DEL", "bbq", "bbdst", "bbn")
			var b []byte
			for i := 0; i < nfront; i++ {
				b = append(b, resp.Cmd("INCR", "bbn")...)
			}
			b = append(b, resp.Cmd(blk...)...)
			b = append(b, resp.Cmd("ECHO", "after")...)
			cn.Send(b)
			r.Eval(1)
			name := fmt.Sprintf("%s/%d-in-front", strings.ToLower(blk[0]), nfront)
			bad := false
			for i := 1; i <= nfront; i++ {
				v, _, err := cn.ReadValue(4 * time.Second)
				if err != nil || v.Int != int64(i) {
					r.Report("c01/before-blocking/reply-withheld", fmt.Sprintf("%d x INCR, %s and ECHO sent in one segment: reply %d of the commands in front of the blocking command did not arrive within 4 s while the block lasts (%v %s)", nfront, cmdString(blk), i, err, v), map[string]any{"blocker": blk, "in_front": nfront})
					bad = true
					break
				}
			}
			if !bad {
				// nothing more may arrive until somebody pushes
				if extra := cn.Quiet(150 * time.Millisecond); len(extra) > 0 {
					r.Report("c01/before-blocking/blocking-command-answered-early", fmt.Sprintf("%s on an empty list was answered without a push: %q", cmdString(blk), truncBytes(extra, 80)), nil)
					bad = true
				}
			}
			if !bad {
				helper.Do("RPUSH", "bbq", "el")
				if v, _, err := cn.ReadValue(4 * time.Second); err != nil || !strings.Contains(v.String(), "el") {
					r.Report("c01/before-blocking/not-served", fmt.Sprintf("%s was not served by the push (%v %s)", cmdString(blk), err, v), nil)
				} else if v, _, err := cn.ReadValue(4 * time.Second); err != nil || v.Text() != "after" {
					r.Report("c01/before-blocking/command-behind-lost", fmt.Sprintf("the ECHO behind %s was not answered (%v %s)", cmdString(blk), err, v), nil)
				} else {
					r.Distinct("before-blocking/" + name)
				}
			}
			cn.Close()
			_ = bi
		}
	}
}
