package main

import (
	"fmt"
	"os"
	"path/filepath"
	"sort"
	"strconv"
	"strings"
	"sync"
	"sync/atomic"
	"time"

	"verif/harness/host"
	"verif/harness/model"
	"verif/harness/resp"
	"verif/harness/verdict"
	"verif/harness/wire"
)

func init() { register("C10", "exploration", checkC10) }

type c10Write struct {
	name    string
	state   string     // type/state of the watched key before the write
	setup   [][]string // executed before WATCH (by the other connection)
	cmd     []string   // the write (or control) command
	modify  bool       // true: EXEC must be aborted; false: control row, EXEC must run
	waitMs  int        // natural expiry: wait instead of issuing a command
	noSelf  bool       // cannot be issued by the watching connection (e.g. blocking semantics irrelevant)
	unwatch string     // control rows: "unwatch", "discard", "exec" between WATCH and the final MULTI
	rewatch bool       // WATCH w is issued a second time after the write: the modification must not be forgotten
	more    [][]string // further commands of the same issuer right after cmd (remove-and-re-create histories)
}

var c10Setups = map[string][][]string{
	"missing":    {{"SET", "o", "ov"}, {"RPUSH", "l", "x", "y"}, {"SADD", "s", "a", "z"}},
	"string":     {{"SET", "w", "10"}, {"SET", "o", "ov"}, {"RPUSH", "l", "x", "y"}, {"SADD", "s", "a", "z"}},
	"string-ttl": {{"SET", "w", "10", "EX", "1000"}, {"SET", "o", "ov"}},
	"strtext":    {{"SET", "w", "text"}, {"SET", "o", "ov"}},
	// the watched key is gone for every command, but its object still lingers in the emulator's table
	"unlinked":       {{"SET", "w", "10"}, {"UNLINK", "w"}, {"SET", "o", "ov"}, {"RPUSH", "l", "x", "y"}},
	"expired-stored": {{"RPUSH", "w", "a"}, {"PEXPIREAT", "w", "1"}, {"SET", "o", "ov"}, {"RPUSH", "l", "x", "y"}},
	"list":           {{"RPUSH", "w", "a", "b", "c", "a"}, {"SET", "o", "ov"}, {"RPUSH", "l", "x", "y"}},
	"list-ttl":       {{"RPUSH", "w", "a", "b"}, {"EXPIRE", "w", "1000"}},
	"hash":           {{"HSET", "w", "f", "v", "n", "5"}, {"SET", "o", "ov"}},
	"set":            {{"SADD", "w", "a", "b", "c"}, {"SADD", "s", "a", "z"}, {"SET", "o", "ov"}},
}

func c10Table() []c10Write {
	var t []c10Write
	add := func(state string, modify bool, cmds ...[]string) {
		for _, c := range cmds {
			if len(c) == 0 {
				continue
			}
			t = append(t, c10Write{name: cmdTag(c), state: state, setup: c10Setups[state], cmd: c, modify: modify})
		}
	}
	// ---- effective writes: EXEC must return null ----
	add("string", true,
		[]string{"SET", "w", "v"}, []string{"SET", "w", "10"}, []string{"SET", "w", "v", "KEEPTTL"}, []string{"SETRANGE", "w", "0", "x"}, []string{"APPEND", "w", "x"}, []string{"INCR", "w"}, []string{"INCRBY", "w", "5"}, []string{"DECR", "w"},
		[]string{"DECRBY", "w", "2"}, []string{"INCRBYFLOAT", "w", "1.5"}, []string{"SETBIT", "w", "0", "1"}, []string{"BITFIELD", "w", "SET", "u8", "0", "1"}, []string{"BITFIELD", "w", "INCRBY", "u8", "0", "1"},
		[]string{"GETSET", "w", "v"}, []string{"GETDEL", "w"}, []string{"GETEX", "w", "EX", "100"}, []string{"MSET", "w", "v"}, []string{"MSET", "o", "1", "w", "2"}, []string{"SETEX", "w", "100", "v"}, []string{"PSETEX", "w", "100000", "v"},
		[]string{"DEL", "w"}, []string{"DEL", "nokey", "w"}, []string{"UNLINK", "w"}, []string{"RENAME", "w", "o2"}, []string{"RENAME", "o", "w"}, []string{"RENAMENX", "w", "o2"}, []string{"COPY", "o", "w", "REPLACE"},
		[]string{"EXPIRE", "w", "100"}, []string{"PEXPIRE", "w", "100000"}, []string{"EXPIREAT", "w", "4102444800"}, []string{"PEXPIREAT", "w", "4102444800000"}, []string{"EXPIRE", "w", "-1"},
		[]string{"BITOP", "NOT", "w", "o"}, []string{"BITOP", "OR", "w", "w", "o"}, []string{"SORT", "l", "ALPHA", "STORE", "w"}, []string{"SUNIONSTORE", "w", "s"}, []string{"SINTERSTORE", "w", "s", "nokey"},
		[]string{"FLUSHDB"}, []string{"FLUSHALL"})
	add("string-ttl", true, []string{"PERSIST", "w"}, []string{"GETEX", "w", "PERSIST"}, []string{"SET", "w", "10"}, []string{"EXPIRE", "w", "5000"}, []string{"GETEX", "w", "PX", "5000"})
	add("list", true,
		[]string{"LPUSH", "w", "x"}, []string{"RPUSH", "w", "x"}, []string{"LPUSHX", "w", "x"}, []string{"RPUSHX", "w", "x"}, []string{"LPOP", "w"}, []string{"RPOP", "w"}, []string{"LPOP", "w", "2"}, []string{"RPOP", "w", "9"},
		[]string{"LSET", "w", "0", "x"}, []string{"LINSERT", "w", "BEFORE", "b", "x"}, []string{"LREM", "w", "0", "a"}, []string{"LTRIM", "w", "0", "0"}, []string{"LTRIM", "w", "5", "9"},
		[]string{"LMOVE", "w", "o2", "LEFT", "LEFT"}, []string{"LMOVE", "l", "w", "LEFT", "RIGHT"}, []string{"LMOVE", "w", "w", "LEFT", "RIGHT"}, []string{"RPOPLPUSH", "w", "o2"}, []string{"RPOPLPUSH", "l", "w"},
		[]string{"LMPOP", "1", "w", "LEFT"}, []string{"LMPOP", "2", "nokey", "w", "RIGHT", "COUNT", "2"}, []string{"BLPOP", "w", "0.01"}, []string{"BRPOP", "nokey", "w", "0.01"}, []string{"BLMOVE", "w", "o2", "LEFT", "LEFT", "0.01"},
		[]string{"BRPOPLPUSH", "w", "o2", "0.01"}, []string{"BLMPOP", "0.01", "1", "w", "LEFT"}, []string{"DEL", "w"}, []string{"EXPIRE", "w", "100"}, []string{"RENAME", "w", "o2"}, []string{"SORT", "w", "ALPHA", "STORE", "w"},
		[]string{"SET", "w", "v"}, []string{"COPY", "l", "w", "REPLACE"}, []string{"FLUSHDB"})
	add("list-ttl", true, []string{"PERSIST", "w"}, []string{"PEXPIRE", "w", "5000"})
	add("hash", true,
		[]string{"HSET", "w", "f", "v2"}, []string{"HSET", "w", "g", "new"}, []string{"HMSET", "w", "f", "v3"}, []string{"HSETNX", "w", "newf", "v"}, []string{"HDEL", "w", "f"}, []string{"HDEL", "w", "f", "n"},
		[]string{"HINCRBY", "w", "n", "1"}, []string{"HINCRBYFLOAT", "w", "n", "1.5"}, []string{"DEL", "w"}, []string{"EXPIRE", "w", "100"}, []string{"RENAME", "w", "o2"}, []string{"RENAME", "o", "w"}, []string{"FLUSHALL"})
	add("set", true,
		[]string{"SADD", "w", "x"}, []string{"SREM", "w", "a"}, []string{"SREM", "w", "a", "b", "c"}, []string{"SMOVE", "w", "s", "b"}, []string{"SMOVE", "s", "w", "z"}, []string{"SINTERSTORE", "w", "w", "s"}, []string{"SUNIONSTORE", "w", "w", "s"},
		[]string{"SDIFFSTORE", "w", "w", "s"}, []string{"SDIFFSTORE", "w", "s", "s"}, []string{"DEL", "w"}, []string{"PEXPIREAT", "w", "4102444800000"}, []string{"RENAME", "w", "o2"}, []string{"COPY", "s", "w", "REPLACE"})
	add("missing", true,
		[]string{"SET", "w", "v"}, []string{"SETNX", "w", "v"}, []string{"APPEND", "w", "x"}, []string{"INCR", "w"}, []string{"SETBIT", "w", "3", "1"}, []string{"SETRANGE", "w", "2", "x"}, []string{"LPUSH", "w", "x"}, []string{"RPUSH", "w", "x"},
		[]string{"HSET", "w", "f", "v"}, []string{"HSETNX", "w", "f", "v"}, []string{"HINCRBY", "w", "n", "1"}, []string{"SADD", "w", "x"}, []string{"MSET", "w", "v"}, []string{"MSETNX", "w", "v", "w2", "x"}, []string{"RENAME", "o", "w"},
		[]string{"RENAMENX", "o", "w"}, []string{"COPY", "o", "w"}, []string{"LMOVE", "l", "w", "LEFT", "LEFT"}, []string{"RPOPLPUSH", "l", "w"}, []string{"SMOVE", "s", "w", "a"}, []string{"SUNIONSTORE", "w", "s"}, []string{"BITOP", "NOT", "w", "o"},
		[]string{"SORT", "l", "ALPHA", "STORE", "w"}, []string{"INCRBYFLOAT", "w", "1"}, []string{"BITFIELD", "w", "SET", "u8", "0", "1"}, []string{"SETEX", "w", "100", "v"}, []string{"GETSET", "w", "v"})
	// natural expiry while watched
	t = append(t, c10Write{name: "natural-expiry", state: "string", setup: [][]string{{"SET", "w", "v", "PX", "60"}}, modify: true, waitMs: 130})
	t = append(t, c10Write{name: "natural-expiry", state: "list", setup: [][]string{{"RPUSH", "w", "a"}, {"PEXPIRE", "w", "60"}}, modify: true, waitMs: 130})
	// ---- control rows: EXEC must run ----
	add("string", false, []string{"GET", "w"}, []string{"STRLEN", "w"}, []string{"TTL", "w"}, []string{"EXISTS", "w"}, []string{"TYPE", "w"}, []string{"GETRANGE", "w", "0", "1"}, []string{"GETBIT", "w", "0"}, []string{"BITCOUNT", "w"}, []string{"MGET", "w", "o"},
		[]string{"LPUSH", "w", "x"}, []string{"HSET", "w", "f", "v"}, []string{"SADD", "w", "x"}, []string{"SET", "o", "other"}, []string{"DEL", "o"}, []string{"APPEND", "o", "x"}, []string{"SETNX", "w", "v"}, []string{"SET", "w", "v", "NX"},
		[]string{"RENAME", "nokey", "w"}, []string{"COPY", "o", "w"}, []string{"RENAMENX", "o", "w"}, []string{"GETEX", "w"}, []string{"PERSIST", "w"}, []string{"EXPIRE", "w", "100", "XX"}, []string{"INCRBY", "w", "abc"}, []string{"SETRANGE", "w", "-1", "x"},
		[]string{"KEYS", "*"}, []string{"DBSIZE"}, []string{"SCAN", "0"}, []string{"TOUCH", "w"}, []string{"BITFIELD", "w", "GET", "u8", "0"}, []string{"BITFIELD_RO", "w", "GET", "u8", "0"}, []string{"SORT", "l", "ALPHA"}, []string{"LCS", "w", "o"})
	add("strtext", false, []string{"INCR", "w"}, []string{"INCRBYFLOAT", "w", "1"}, []string{"DECRBY", "w", "1"})
	add("list", false, []string{"LRANGE", "w", "0", "-1"}, []string{"LLEN", "w"}, []string{"LINDEX", "w", "0"}, []string{"LPOS", "w", "a"}, []string{"LSET", "w", "99", "x"}, []string{"LINSERT", "w", "BEFORE", "nopivot", "x"}, []string{"SET", "o", "z"},
		[]string{"GET", "w"}, []string{"SADD", "w", "x"}, []string{"RPUSH", "l", "q"}, []string{"LMOVE", "nokey", "w", "LEFT", "LEFT"}, []string{"SORT", "w", "ALPHA"})
	add("hash", false, []string{"HGET", "w", "f"}, []string{"HGETALL", "w"}, []string{"HLEN", "w"}, []string{"HEXISTS", "w", "f"}, []string{"HSETNX", "w", "f", "other"}, []string{"HINCRBY", "w", "f", "1"}, []string{"HRANDFIELD", "w"}, []string{"HSCAN", "w", "0"}, []string{"LPUSH", "w", "x"})
	add("set", false, []string{"SMEMBERS", "w"}, []string{"SCARD", "w"}, []string{"SISMEMBER", "w", "a"}, []string{"SINTER", "w", "s"}, []string{"SUNION", "w", "s"}, []string{"SRANDMEMBER", "w"}, []string{"SSCAN", "w", "0"}, []string{"SINTERCARD", "1", "w"},
		[]string{"SMOVE", "nokey", "w", "a"}, []string{"SINTERSTORE", "o3", "w", "s"}, []string{"INCR", "w"})
	add("missing", false, []string{"GET", "w"}, []string{"EXISTS", "w"}, []string{"LPOP", "w"}, []string{"TTL", "w"}, []string{"SET", "o", "x"}, []string{"EXPIRE", "w", "100"}, []string{"PERSIST", "w"}, []string{"SET", "w", "v", "XX"}, []string{"RENAME", "nokey", "w"},
		[]string{"LMOVE", "nokey", "w", "LEFT", "LEFT"}, []string{"SMOVE", "s", "w", "notmember"}, []string{"GETDEL", "w"}, []string{"LRANGE", "w", "0", "-1"}, []string{"SMEMBERS", "w"}, []string{"HGETALL", "w"})
	for _, st := range []string{"unlinked", "expired-stored"} {
		add(st, false, []string{"GET", "o"}, []string{"EXISTS", "w"}, []string{"TYPE", "w"}, []string{"TTL", "w"}, []string{"SET", "o", "x"}, []string{"DEL", "w"}, []string{"PERSIST", "w"}, []string{"LPOP", "w"}, []string{"KEYS", "*"}, []string{"PING"})
		add(st, true, []string{"SET", "w", "v"}, []string{"LPUSH", "w", "x"}, []string{"RENAME", "o", "w"}, []string{"LMOVE", "l", "w", "LEFT", "LEFT"}, []string{"SADD", "w", "m"}, []string{"APPEND", "w", "x"})
	}
	// watch dropped before the modification takes effect for EXEC
	for _, u := range []string{"unwatch", "discard", "exec"} {
		t = append(t, c10Write{name: "after-" + u + "/SET", state: "string", setup: c10Setups["string"], cmd: []string{"SET", "w", "changed"}, modify: false, unwatch: u})
		t = append(t, c10Write{name: "after-" + u + "/LPUSH", state: "list", setup: c10Setups["list"], cmd: []string{"LPUSH", "w", "x"}, modify: false, unwatch: u})
	}
	// the key is removed and re-created with the same value (by flush, delete, rename round trip, overwrite): the
	// value is what it was, the key has still been modified
	for _, h := range []struct {
		state string
		cmds  [][]string
	}{
		{"string", [][]string{{"FLUSHDB"}, {"SET", "w", "10"}}},
		{"string", [][]string{{"FLUSHALL"}, {"SET", "w", "10"}}},
		{"string", [][]string{{"DEL", "w"}, {"SET", "w", "10"}}},
		{"string", [][]string{{"SET", "w", "other"}, {"SET", "w", "10"}}},
		{"string", [][]string{{"RENAME", "w", "tmpname"}, {"RENAME", "tmpname", "w"}}},
		{"string", [][]string{{"INCR", "w"}, {"DECR", "w"}}},
		{"list", [][]string{{"FLUSHDB"}, {"RPUSH", "w", "a", "b", "c", "a"}}},
		{"list", [][]string{{"FLUSHALL"}, {"RPUSH", "w", "a", "b", "c", "a"}}},
		{"list", [][]string{{"LPUSH", "w", "x"}, {"LPOP", "w"}}},
		{"hash", [][]string{{"FLUSHDB"}, {"HSET", "w", "f", "v", "n", "5"}}},
		{"hash", [][]string{{"HSET", "w", "f", "other"}, {"HSET", "w", "f", "v"}}},
		{"set", [][]string{{"FLUSHALL"}, {"SADD", "w", "a", "b", "c"}}},
		{"set", [][]string{{"SREM", "w", "a"}, {"SADD", "w", "a"}}},
		{"missing", [][]string{{"FLUSHDB"}, {"SET", "w", "v"}, {"DEL", "w"}, {"SET", "w", "v"}}},
	} {
		t = append(t, c10Write{name: "recreate/" + cmdTag(h.cmds[0]) + "+" + cmdTag(h.cmds[len(h.cmds)-1]), state: h.state, setup: c10Setups[h.state], cmd: h.cmds[0], more: h.cmds[1:], modify: true})
	}
	// rotating a one-element list onto itself leaves the value as it is but is a write of the key
	for _, c := range [][]string{{"LMOVE", "w", "w", "LEFT", "RIGHT"}, {"LMOVE", "w", "w", "RIGHT", "RIGHT"}, {"RPOPLPUSH", "w", "w"}, {"BLMOVE", "w", "w", "LEFT", "RIGHT", "0.01"}, {"BRPOPLPUSH", "w", "w", "0.01"}} {
		t = append(t, c10Write{name: "rotate-single/" + cmdTag(c), state: "list1", setup: [][]string{{"RPUSH", "w", "only"}, {"SET", "o", "ov"}}, cmd: c, modify: true})
	}
	// RENAME of a key to itself changes nothing (all types)
	for _, st := range []string{"string", "list", "hash", "set"} {
		t = append(t, c10Write{name: "RENAME-self", state: st, setup: c10Setups[st], cmd: []string{"RENAME", "w", "w"}, modify: false})
		t = append(t, c10Write{name: "COPY-self", state: st, setup: c10Setups[st], cmd: []string{"COPY", "w", "w"}, modify: false})
	}
	// watching the key a second time (or other keys) after the modification does not forget it
	for _, w := range []c10Write{{state: "string", cmd: []string{"SET", "w", "v"}}, {state: "list", cmd: []string{"LPUSH", "w", "x"}}, {state: "hash", cmd: []string{"HDEL", "w", "f"}}, {state: "set", cmd: []string{"SADD", "w", "x"}},
		{state: "missing", cmd: []string{"SET", "w", "v"}}, {state: "string", cmd: []string{"DEL", "w"}}, {state: "string-ttl", cmd: []string{"PERSIST", "w"}}} {
		w.name, w.setup, w.modify, w.rewatch = "rewatch/"+cmdTag(w.cmd), c10Setups[w.state], true, true
		t = append(t, w)
	}
	var out []c10Write
	for _, w := range t {
		if len(w.cmd) > 0 || w.waitMs > 0 {
			out = append(out, w)
		}
	}
	return out
}

type c10Case struct {
	w        c10Write
	issuer   string // self | other
	position string // before-multi | after-multi
	style    int    // how the key gets watched (index into c10WatchStyles)
	// persisted: the emulator has a persist path, and a complete snapshot pass happens between the write and EXEC (the
	// saver's bookkeeping of "changed since the last snapshot" must not be what decides whether a watched key changed)
	persisted bool
	// interlude: what the watching connection does between the write and MULTI (0 nothing, 1 CLIENT INFO, 2 CLIENT LIST, 3 reads)
	interlude int
	// wLast: the setup writes the watched key last (it then holds the newest version number of the database)
	wLast bool
}

// c10WatchStyles: the ways a key can end up in the watch set. w is always the key the row modifies.
var c10WatchStyles = [][][]string{
	// (zw1, zw2 are keys that no row of the table touches)
	{{"WATCH", "w"}},
	{{"WATCH", "zw1", "w"}},
	{{"WATCH", "w", "zw2"}},
	{{"WATCH", "zw1"}, {"WATCH", "zw1", "w"}}, // an already watched key listed before the new one
	{{"WATCH", "w"}, {"WATCH", "w", "zw1"}},   // ... and after it
	{{"WATCH", "zw1", "zw2"}, {"WATCH", "zw2", "w", "zw1"}},
	{{"WATCH", "w", "w"}},
	{{"WATCH", "zw1"}, {"WATCH", "w"}, {"WATCH", "zw1"}},
}

func c10Run(r *verdict.Run, e *emu, cs c10Case) {
	A, err := e.dial()
	if err != nil {
		r.Inconclusive("infra: " + err.Error())
		return
	}
	defer A.Close()
	B, err := e.dial()
	if err != nil {
		r.Inconclusive("infra: " + err.Error())
		return
	}
	defer B.Close()
	A.Timeout, B.Timeout = 10*time.Second, 10*time.Second
	// the reference model runs the same script (cross-check of the explicit table)
	m := model.New()
	sa, sb := model.NewSession(), model.NewSession()
	var log []string
	do := func(cn *wire.Conn, s *model.Session, who string, args ...string) (resp.Value, model.Exp, bool) {
		t0 := time.Now().UnixMilli()
		v, err := cn.Do(args...)
		t1 := time.Now().UnixMilli()
		exp, _ := m.ApplyI(s, args, t0, t1)
		log = append(log, fmt.Sprintf("%s: %s -> %s", who, cmdString(args), v))
		if err != nil {
			r.Report("watch/no-reply/"+strings.ToLower(args[0]), fmt.Sprintf("%s: no reply to %s: %v", who, cmdString(args), err), map[string]any{"script": log})
			return v, exp, false
		}
		return v, exp, true
	}
	ok := true
	step := func(cn *wire.Conn, s *model.Session, who string, args ...string) (v resp.Value, exp model.Exp) {
		if ok {
			v, exp, ok = do(cn, s, who, args...)
		}
		return
	}
	setup := cs.w.setup
	if cs.wLast {
		// the watched key is the most recent write of the database when it is watched
		var first, last [][]string
		for _, s := range setup {
			if len(s) > 1 && s[1] == "w" {
				last = append(last, s)
			} else {
				first = append(first, s)
			}
		}
		setup = append(first, last...)
	}
	for _, s := range setup {
		step(B, sb, "B", s...)
	}
	for _, wcmd := range c10WatchStyles[cs.style%len(c10WatchStyles)] {
		step(A, sa, "A", wcmd...)
	}
	switch cs.w.unwatch {
	case "unwatch":
		step(A, sa, "A", "UNWATCH")
	case "discard":
		step(A, sa, "A", "MULTI")
		step(A, sa, "A", "DISCARD")
	case "exec":
		step(A, sa, "A", "MULTI")
		step(A, sa, "A", "PING")
		step(A, sa, "A", "EXEC")
	}
	var wreply resp.Value
	issue := func() {
		if cs.w.waitMs > 0 {
			time.Sleep(time.Duration(cs.w.waitMs) * time.Millisecond)
			return
		}
		if cs.issuer == "self" {
			wreply, _ = step(A, sa, "A", cs.w.cmd...)
			for _, m := range cs.w.more {
				step(A, sa, "A", m...)
			}
		} else {
			wreply, _ = step(B, sb, "B", cs.w.cmd...)
			for _, m := range cs.w.more {
				step(B, sb, "B", m...)
			}
		}
	}
	snapshot := func() {
		if cs.persisted && ok && !waitSaved(e.child) {
			r.Inconclusive("no periodic save pass observed (saveall hooks)")
			ok = false
		}
	}
	if cs.position == "before-multi" {
		issue()
		snapshot()
		// harmless commands of the watching connection between WATCH and MULTI (introspection looks at the watch set,
		// reads look at the key): none of them may end or disturb the watch
		switch cs.interlude {
		case 1:
			step(A, sa, "A", "CLIENT", "INFO")
		case 2:
			step(A, sa, "A", "CLIENT", "LIST")
		case 3:
			step(A, sa, "A", "TYPE", "w")
			step(A, sa, "A", "EXISTS", "w", "o")
			step(A, sa, "A", "DBSIZE")
			step(A, sa, "A", "CLIENT", "GETNAME")
		}
		if cs.w.rewatch {
			step(A, sa, "A", "WATCH", "w")
			step(A, sa, "A", "WATCH", "o", "w", "nokey")
		}
	}
	step(A, sa, "A", "MULTI")
	if cs.position == "after-multi" {
		issue()
		snapshot()
	}
	step(A, sa, "A", "SET", "marker", "1")
	ex, exExp := step(A, sa, "A", "EXEC")
	if !ok {
		return
	}
	mk, _ := step(B, sb, "B", "GET", "marker")
	pong, _ := step(A, sa, "A", "PING")
	if !ok {
		return
	}
	r.Eval(1)
	aborted := ex.Null
	ran := ex.Kind == '*' && !ex.Null && len(ex.Elems) == 1
	key := fmt.Sprintf("%s/%s/%s/%s/watch-style-%d", cs.w.name, cs.w.state, cs.issuer, cs.position, cs.style)
	if cs.persisted {
		key += "/snapshot-before-exec"
	}
	if cs.interlude > 0 {
		key += fmt.Sprintf("/interlude-%d", cs.interlude)
	}
	if cs.wLast {
		key += "/w-written-last"
	}
	rep := map[string]any{"script": log, "expect_abort": cs.w.modify}
	// cross-check: the model must agree with the explicit table
	modelAbort := exExp.Val.Null && exExp.Pred == nil && exExp.Err == ""
	if !exExp.Unspec && modelAbort != cs.w.modify {
		r.Inconclusive(fmt.Sprintf("oracle disagreement on %s: table says abort=%v, model says abort=%v; script: %s", key, cs.w.modify, modelAbort, strings.Join(log, " | ")))
		return
	}
	if cs.w.modify && cs.w.waitMs == 0 && wreply.IsError() {
		r.Inconclusive(fmt.Sprintf("matrix row %s: the write itself failed with %s", key, wreply))
		return
	}
	switch {
	case cs.w.modify && !aborted:
		r.Report("watch/missed/"+watchClass(cs.w), fmt.Sprintf("%s: the watched key was modified (%s by %s, %s) but EXEC ran: %s", key, cmdString(cs.w.cmd), cs.issuer, cs.position, ex), rep)
	case cs.w.modify && aborted && !mk.Null:
		r.Report("watch/aborted-but-executed/"+cs.w.name, fmt.Sprintf("%s: EXEC replied null but the queued SET took effect", key), rep)
	case !cs.w.modify && !ran:
		r.Report("watch/spurious-abort/"+cs.w.name+"/"+cs.w.state, fmt.Sprintf("%s: nothing modified the watched key (%s) but EXEC replied %s", key, cmdString(cs.w.cmd), ex), rep)
	case !cs.w.modify && ran && mk.Null:
		r.Report("watch/ran-but-no-effect/"+cs.w.name, fmt.Sprintf("%s: EXEC replied %s but the queued SET is not visible", key, ex), rep)
	}
	if pong.Text() != "PONG" {
		r.Report("watch/state-after-exec/"+pongClass(ex), fmt.Sprintf("%s: after EXEC (%s) the connection answers PING with %s (still in MULTI?)", key, ex, pong), rep)
	}
	out := "ran"
	if aborted {
		out = "aborted"
	}
	r.Distinct(key + "/" + out)
}

func pongClass(ex resp.Value) string {
	if ex.Null {
		return "after-aborted-exec"
	}
	return "after-exec"
}

// watchClass groups missed modifications by the kind of mutation (one signature per mechanism, not per command).
func watchClass(w c10Write) string {
	if w.waitMs > 0 {
		return "natural-expiry"
	}
	return w.name + "/" + w.state
}

func checkC10(r *verdict.Run) {
	table := c10Table()
	var cases []c10Case
	for _, w := range table {
		if w.waitMs > 0 {
			cases = append(cases, c10Case{w: w, issuer: "other", position: "before-multi"}, c10Case{w: w, issuer: "other", position: "after-multi"})
			continue
		}
		cases = append(cases, c10Case{w: w, issuer: "other", position: "before-multi"}, c10Case{w: w, issuer: "other", position: "after-multi"}, c10Case{w: w, issuer: "self", position: "before-multi"})
	}
	// every case with every way of getting the key into the watch set
	base := cases
	cases = nil
	for i, c := range base {
		if c.issuer == "other" && c.position == "before-multi" {
			for st := range c10WatchStyles {
				c.style = st
				cases = append(cases, c)
			}
		} else {
			c.style = i % len(c10WatchStyles) // the other issuer/position combinations rotate through the styles
			cases = append(cases, c)
		}
	}
	for i := range cases {
		if cases[i].position == "before-multi" {
			cases[i].interlude = i % 4
		}
		cases[i].wLast = (i/4)%2 == 1
	}
	// a sample of the cases again on an emulator with a persist path, with a snapshot pass between the write and EXEC
	{
		stride := tierPick(r, 23, 5)
		var extra []c10Case
		for i := 0; i < len(cases); i += stride {
			c := cases[i]
			if c.w.waitMs > 0 {
				continue
			}
			c.persisted = true
			extra = append(extra, c)
		}
		cases = append(cases, extra...)
	}
	r.Rule = fmt.Sprintf("exhaustive matrix: %d write/control rows (every effective write command per key type and state, reads, failing writes, writes to other keys, natural expiry, WATCH dropped by UNWATCH/DISCARD/EXEC) x issuer {watching connection, other connection} x position {between WATCH and MULTI, between MULTI and EXEC} x 8 ways of watching the key (all 8 for a write by the other connection before MULTI, rotating otherwise: alone, with other keys, in a second WATCH that lists already watched keys before or after it, twice); "+
		"each case on a fresh emulator: WATCH w; [write]; MULTI; [write]; SET marker 1; EXEC - EXEC must be null and marker absent iff the row is an effective write; the reference model is run on the same script and must agree with the table (else inconclusive). "+
		"in every other group of cases the set-up writes the watched key last (it then carries the newest version number of the database); between the write and MULTI the watching connection runs nothing, CLIENT INFO, CLIENT LIST or reads of the key; a sample of the cases runs again with a persist path and a complete snapshot pass between the write and EXEC. Plus the schedule dimension: 4-8 connections increment a shared string counter / hash field / list length with WATCH-read-MULTI-write-EXEC under yields injected around the data store lock; every successful EXEC must have written a distinct value and the final value must equal the number of successful EXECs. distinct = (row, state, issuer, position, outcome) + concurrent configurations", len(table))
	r.Set("matrix_rows", len(table))
	r.Set("matrix_cases", len(cases))
	r.SetExhaustive(true)
	for i := 0; i < 3; i++ {
		c := cases[i*37%len(cases)]
		r.Sample(map[string]any{"setup": quoteCmds(c.w.setup), "write": cmdString(c.w.cmd), "issuer": c.issuer, "position": c.position, "expect_abort": c.w.modify})
	}
	nsh := 16
	parallel(nsh, 16, func(shard int) {
		c, err := startChild(false)
		if err != nil {
			r.Inconclusive("cannot start child")
			return
		}
		defer func() { c.Stop() }()
		for i := shard; i < len(cases); i += nsh {
			if !c.Alive() {
				c.Stop()
				if c, err = startChild(false); err != nil {
					return
				}
			}
			persist := ""
			if cases[i].persisted {
				dir, derr := os.MkdirTemp(host.ScratchRoot(), "c10-persist-")
				if derr != nil {
					continue
				}
				defer os.RemoveAll(dir)
				persist = filepath.Join(dir, "snap")
			}
			e, err := startEmu(c, persist)
			if err != nil {
				r.Count("infra_retries", 1)
				c.Stop()
				c, _ = startChild(false)
				if e, err = startEmu(c, persist); err != nil {
					r.Inconclusive("infra: " + err.Error())
					continue
				}
			}
			c10Run(r, e, cases[i])
			e.close()
		}
	})
	r.SetExhaustive(false)
	c10Optimistic(r, tierPick(r, 12, 120))
}

// c10Optimistic: the schedule dimension of the property. Several connections increment shared counters with the
// optimistic-locking idiom (WATCH k; read; MULTI; write read+1; EXEC), with yields injected around the data store
// lock so that writes of other connections land at every position relative to an EXEC - also between its check of
// the watched keys and its execution. A modification that goes unnoticed makes two successful transactions write the
// same value: every successful EXEC must have written a distinct value, and the final value must equal the number
// of successful EXECs (conservation), for a string counter, a hash field and a list length.
func c10Optimistic(r *verdict.Run, runs int) {
	parallel(runs, 8, func(run int) {
		rng := shardRng(r, 9000+run)
		c, err := startChild(false)
		if err != nil {
			r.Inconclusive("cannot start child")
			return
		}
		defer c.Stop()
		e, err := startEmu(c, "")
		if err != nil {
			r.Inconclusive("infra: " + err.Error())
			return
		}
		c.Ctl("seed %d", r.Seed*97+int64(run))
		c.Ctl("yield ds: %d %d", 100+rng.Intn(300), 50+rng.Intn(400))
		kind := []string{"string", "hash", "list"}[run%3]
		nconn := 4 + rng.Intn(5)
		attempts := 150 + rng.Intn(150)
		var mu sync.Mutex
		written := map[int64]int{} // value written by a successful EXEC -> how many transactions wrote it
		var successes, aborts int64
		var wg sync.WaitGroup
		var failed atomic.Bool
		for ci := 0; ci < nconn; ci++ {
			wg.Add(1)
			go func(ci int) {
				defer wg.Done()
				cn, err := e.dial()
				if err != nil {
					return
				}
				defer cn.Close()
				cn.Timeout = 20 * time.Second
				for a := 0; a < attempts && !failed.Load(); a++ {
					var cur int64
					var readCmd, writeCmd []string
					switch kind {
					case "string":
						readCmd = []string{"GET", "cnt"}
					case "hash":
						readCmd = []string{"HGET", "cnt", "n"}
					case "list":
						readCmd = []string{"LLEN", "cnt"}
					}
					if _, err := cn.Do("WATCH", "cnt"); err != nil {
						failed.Store(true)
						return
					}
					v, err := cn.Do(readCmd...)
					if err != nil {
						failed.Store(true)
						return
					}
					if v.Kind == ':' {
						cur = v.Int
					} else if !v.Null {
						cur, _ = strconv.ParseInt(v.Text(), 10, 64)
					}
					next := strconv.FormatInt(cur+1, 10)
					switch kind {
					case "string":
						writeCmd = []string{"SET", "cnt", next}
					case "hash":
						writeCmd = []string{"HSET", "cnt", "n", next}
					case "list":
						writeCmd = []string{"RPUSH", "cnt", next}
					}
					vs, err := cn.Pipeline([][]string{{"MULTI"}, writeCmd, {"EXEC"}})
					if err != nil || len(vs) != 3 {
						failed.Store(true)
						return
					}
					ex := vs[2]
					mu.Lock()
					if ex.Kind == '*' && !ex.Null {
						successes++
						written[cur+1]++
					} else {
						aborts++
					}
					mu.Unlock()
				}
			}(ci)
		}
		wg.Wait()
		if failed.Load() {
			r.Inconclusive("optimistic run: a connection failed")
			return
		}
		fin, err := e.dial()
		if err != nil {
			return
		}
		defer fin.Close()
		var final int64
		switch kind {
		case "string":
			v, _ := fin.Do("GET", "cnt")
			final, _ = strconv.ParseInt(v.Text(), 10, 64)
		case "hash":
			v, _ := fin.Do("HGET", "cnt", "n")
			final, _ = strconv.ParseInt(v.Text(), 10, 64)
		case "list":
			v, _ := fin.Do("LLEN", "cnt")
			final = v.Int
		}
		r.Eval(int(successes + aborts))
		r.Count("optimistic_transactions", successes+aborts)
		r.Count("optimistic_aborts", aborts)
		dups := []int64{}
		for val, n := range written {
			if n > 1 {
				dups = append(dups, val)
			}
		}
		rep := map[string]any{"kind": kind, "connections": nconn, "attempts_per_connection": attempts, "successful_execs": successes, "aborted_execs": aborts, "final_value": final}
		if len(dups) > 0 || final != successes {
			sort.Slice(dups, func(i, j int) bool { return dups[i] < dups[j] })
			r.Report("watch/missed/concurrent-write-between-check-and-execution/"+kind, fmt.Sprintf("run %d (%s counter, %d connections): %d EXECs succeeded but the counter ended at %d; values written by more than one successful transaction: %v - a modification of the watched key by another connection went unnoticed by EXEC", run, kind, nconn, successes, final, dups[:min(5, len(dups))]), rep)
		}
		r.Distinct(fmt.Sprintf("optimistic/%s/conns%d/aborted=%v", kind, nconn, aborts > 0))
	})
}
