package main

import (
	"fmt"
	"math/rand"
	"sort"
	"strconv"
	"strings"
	"sync"
	"sync/atomic"
	"time"

	"github.com/anishathalye/porcupine"

	"verif/harness/host"
	"verif/harness/model"
	"verif/harness/resp"
	"verif/harness/verdict"
	"verif/harness/wire"
)

func init() { register("C08", "exploration", checkC08) }

// ---- porcupine model over the reference model -----------------------------------

type linIn struct {
	Group int
	Args  []string
}

var linCacheMu sync.Mutex
var linCache = map[string]*model.Model{"": model.New()}

const linNow = int64(1_700_000_000_000)

func linStep(state, input, output any) (bool, any) {
	st := state.(string)
	in := input.(linIn)
	linCacheMu.Lock()
	m := linCache[st]
	linCacheMu.Unlock()
	m2 := m.Clone()
	exp := m2.Apply(model.NewSession(), in.Args, linNow)
	out, pending := output.(resp.Value)
	ok := true
	if pending {
		ok = model.Match(exp, out) == ""
	}
	ns := m2.EncodeDB(0)
	linCacheMu.Lock()
	if _, have := linCache[ns]; !have {
		if len(linCache) > 200000 {
			linCache = map[string]*model.Model{"": model.New(), st: m}
		}
		linCache[ns] = m2
	}
	linCacheMu.Unlock()
	return ok, ns
}

var linModel = porcupine.Model{
	Partition: func(h []porcupine.Operation) [][]porcupine.Operation {
		by := map[int][]porcupine.Operation{}
		for _, op := range h {
			g := op.Input.(linIn).Group
			by[g] = append(by[g], op)
		}
		var out [][]porcupine.Operation
		for _, ops := range by {
			out = append(out, ops)
		}
		return out
	},
	Init:  func() any { return "" },
	Step:  linStep,
	Equal: func(a, b any) bool { return a.(string) == b.(string) },
	DescribeOperation: func(in, out any) string {
		o, _ := out.(resp.Value)
		return cmdString(in.(linIn).Args) + " -> " + o.String()
	},
}

func c08Op(rng *rand.Rand, g int, uniq string) []string {
	k := func(n string) string { return fmt.Sprintf("g%d%s", g, n) }
	switch rng.Intn(40) {
	case 0, 1:
		return []string{"INCR", k("c")}
	case 2:
		return []string{"INCRBY", k("c"), strconv.Itoa(1 + rng.Intn(5))}
	case 3:
		return []string{"GET", k("c")}
	case 4, 5:
		return []string{"APPEND", k("a"), "<" + uniq + ">"}
	case 6:
		return []string{"GET", k("a")}
	case 7:
		return []string{"SET", k("s"), uniq}
	case 8:
		return []string{"GETSET", k("s"), uniq}
	case 9:
		return []string{"SETNX", k("s"), uniq}
	case 10, 11:
		return []string{"MSET", k("s"), uniq, k("u"), uniq}
	case 12, 13:
		return []string{"MGET", k("s"), k("u")}
	case 14:
		return []string{"MSETNX", k("s"), uniq, k("u"), uniq}
	case 15:
		if rng.Intn(2) == 0 {
			return []string{"RENAME", k("s"), k("u")}
		}
		return []string{"RENAME", k("u"), k("s")}
	case 16:
		return []string{"COPY", k("s"), k("u"), "REPLACE"}
	case 17:
		return []string{"DEL", k("s"), k("u")}
	case 18:
		return []string{"EXISTS", k("s"), k("u")}
	case 19, 20:
		return []string{pick(rng, []string{"RPUSH", "LPUSH"}), k("l"), uniq}
	case 21, 22:
		return []string{pick(rng, []string{"LPOP", "RPOP"}), k("l")}
	case 23:
		return []string{"LRANGE", k("l"), "0", "-1"}
	case 24:
		return []string{"LMOVE", k("l"), k("m"), "LEFT", "RIGHT"}
	case 25:
		return []string{"LMOVE", k("m"), k("l"), "RIGHT", "LEFT"}
	case 26:
		return []string{"LLEN", k("m")}
	case 27, 28:
		return []string{"HINCRBY", k("h"), "n", "1"}
	case 29:
		return []string{"HSET", k("h"), "f", uniq}
	case 30:
		return []string{"HGETALL", k("h")}
	case 31:
		return []string{"HDEL", k("h"), "f", "n"}
	case 32, 33:
		return []string{"SADD", k("t"), uniq}
	case 34:
		return []string{"SMOVE", k("t"), k("v"), pick(rng, []string{uniq, "1.0", "2.0", "1.1"})}
	case 35:
		return []string{"SMEMBERS", k("t")}
	case 36:
		return []string{"SUNIONSTORE", k("v"), k("t"), k("v")}
	case 37:
		return []string{"SDIFFSTORE", k("t"), k("t"), k("v")}
	case 38:
		return []string{"SCARD", k("v")}
	case 39:
		return []string{"BITOP", "OR", k("u"), k("s"), k("a")}
	}
	return []string{"GET", k("s")}
}

// c08OpExt: the second command mix (read-modify-write commands of every family that the first mix does not have).
func c08OpExt(rng *rand.Rand, g int, uniq string) []string {
	k := func(n string) string { return fmt.Sprintf("g%d%s", g, n) }
	switch rng.Intn(44) {
	case 0:
		return []string{"SETRANGE", k("s"), strconv.Itoa(rng.Intn(4)), uniq}
	case 1:
		return []string{"SETBIT", k("a"), strconv.Itoa(rng.Intn(24)), "1"}
	case 2:
		return []string{"BITFIELD", k("a"), "INCRBY", "u8", "0", "1"}
	case 3:
		return []string{"BITFIELD", k("a"), "OVERFLOW", "SAT", "INCRBY", "u4", "8", "3"}
	case 4:
		return []string{"GETRANGE", k("a"), "0", "-1"}
	case 5:
		return []string{"INCRBYFLOAT", k("c"), "1"}
	case 6:
		return []string{"DECR", k("c")}
	case 7:
		return []string{"HINCRBYFLOAT", k("h"), "n", "1"}
	case 8:
		return []string{"HSETNX", k("h"), "f", uniq}
	case 9:
		return []string{"HMGET", k("h"), "f", "n"}
	case 10:
		return []string{"HSET", k("h"), "f", uniq, "n", "7"}
	case 11:
		return []string{"LSET", k("l"), "0", uniq}
	case 12:
		return []string{"LTRIM", k("l"), "0", "2"}
	case 13:
		return []string{"LMPOP", "2", k("l"), k("m"), "LEFT"}
	case 14:
		return []string{"RPOPLPUSH", k("l"), k("m")}
	case 15:
		return []string{"LPUSHX", k("l"), uniq}
	case 16:
		return []string{"RPUSH", k("l"), uniq, uniq + "b"}
	case 17:
		return []string{"LINSERT", k("l"), "BEFORE", "pv", uniq}
	case 18:
		return []string{"RPUSH", k("l"), "pv"}
	case 19:
		return []string{"LREM", k("l"), "0", "pv"}
	case 20:
		return []string{"LPOP", k("l"), "2"}
	case 21:
		return []string{"LMOVE", k("l"), k("l"), "LEFT", "RIGHT"}
	case 22:
		return []string{"SINTERSTORE", k("v"), k("t"), k("v")}
	case 23:
		return []string{"SADD", k("t"), "1.0", "2.0", uniq}
	case 24:
		return []string{"SADD", k("v"), "2.0", "3.0"}
	case 25:
		return []string{"SREM", k("t"), "1.0", "2.0"}
	case 26:
		return []string{"SINTER", k("t"), k("v")}
	case 27:
		return []string{"SINTERCARD", "2", k("t"), k("v")}
	case 28:
		return []string{"SMISMEMBER", k("t"), "1.0", "2.0"}
	case 29:
		return []string{"SORT", k("l"), "ALPHA", "STORE", k("m")}
	case 30:
		return []string{"GETDEL", k("s")}
	case 31:
		return []string{"GETEX", k("s")}
	case 32:
		return []string{"SET", k("s"), uniq, "XX"}
	case 33:
		return []string{"SET", k("s"), uniq, "NX"}
	case 34:
		return []string{"SET", k("s"), uniq, "GET"}
	case 35:
		return []string{"RENAMENX", k("s"), k("u")}
	case 36:
		return []string{"COPY", k("u"), k("s")}
	case 37:
		return []string{"UNLINK", k("u")}
	case 38:
		return []string{"STRLEN", k("s")}
	case 39:
		return []string{"SET", k("u"), uniq}
	case 40:
		return []string{"LRANGE", k("m"), "0", "-1"}
	case 41:
		return []string{"LRANGE", k("l"), "0", "-1"}
	case 42:
		return []string{"SMEMBERS", k("v")}
	}
	return []string{"HGETALL", k("h")}
}

func groupKeys(g int) []string {
	var out []string
	for _, n := range []string{"c", "a", "s", "u", "l", "m", "h", "t", "v"} {
		out = append(out, fmt.Sprintf("g%d%s", g, n))
	}
	return out
}

type linStats struct {
	histories, ok, illegal, unknown, overlapping int64
	pairs                                        sync.Map
}

func c08History(r *verdict.Run, e *emu, rng *rand.Rand, st *linStats, tag string) {
	nconn := 3 + rng.Intn(4)
	nops := 5 + rng.Intn(6)
	ngroups := 1 + rng.Intn(3)
	type plan struct{ ops []linIn }
	plans := make([]plan, nconn)
	ext := rng.Intn(2) == 0 // which command mix this history uses
	for c := 0; c < nconn; c++ {
		for i := 0; i < nops; i++ {
			g := rng.Intn(ngroups)
			gen := c08Op
			if ext {
				gen = c08OpExt
			}
			args := gen(rng, g, fmt.Sprintf("%d.%d", c, i))
			if ngroups == 1 && rng.Intn(12) == 0 {
				// (only with a single key group: a flush concerns every key, so the history cannot be partitioned)
				args = pick2(rng, [][]string{{"FLUSHDB"}, {"FLUSHDB", "ASYNC"}, {"FLUSHALL", "ASYNC"}, {"FLUSHALL", "SYNC"}, {"FLUSHDB", "SYNC"}, {"FLUSHALL"}})
			}
			plans[c].ops = append(plans[c].ops, linIn{g, args})
		}
	}
	var mu sync.Mutex
	var hist []porcupine.Operation
	var wg sync.WaitGroup
	start := make(chan struct{})
	fail := atomic.Bool{}
	for c := 0; c < nconn; c++ {
		cn, err := e.dial()
		if err != nil {
			r.Inconclusive("infra: " + err.Error())
			return
		}
		cn.Timeout = 20 * time.Second
		wg.Add(1)
		go func(c int, cn *wire.Conn) {
			defer wg.Done()
			defer cn.Close()
			<-start
			for _, in := range plans[c].ops {
				t0 := wire.Now()
				v, err := cn.Do(in.Args...)
				t1 := wire.Now()
				if err != nil {
					fail.Store(true)
					r.Report("lin/no-reply/"+strings.ToLower(in.Args[0]), fmt.Sprintf("no reply to %s under concurrency: %v", cmdString(in.Args), err), nil)
					return
				}
				mu.Lock()
				hist = append(hist, porcupine.Operation{ClientId: c, Input: in, Call: t0, Output: model.Down(v), Return: t1})
				mu.Unlock()
			}
		}(c, cn)
	}
	close(start)
	wg.Wait()
	if fail.Load() {
		return
	}
	// final state: ordinary reads by one more client, after everything else returned
	fin, err := e.dial()
	if err != nil {
		return
	}
	defer fin.Close()
	for g := 0; g < ngroups; g++ {
		for _, k := range groupKeys(g) {
			for _, rd := range [][]string{{"TYPE", k}, {"GET", k}, {"LRANGE", k, "0", "-1"}, {"HGETALL", k}, {"SMEMBERS", k}} {
				t0 := wire.Now()
				v, err := fin.Do(rd...)
				t1 := wire.Now()
				if err != nil {
					return
				}
				hist = append(hist, porcupine.Operation{ClientId: nconn, Input: linIn{g, rd}, Call: t0, Output: model.Down(v), Return: t1})
			}
		}
	}
	// overlap statistics (evidence that the histories are really concurrent)
	overl := 0
	for i := range hist {
		for j := i + 1; j < len(hist); j++ {
			a, b := hist[i], hist[j]
			if a.ClientId != b.ClientId && a.Call < b.Return && b.Call < a.Return {
				overl++
				na, nb := strings.ToUpper(a.Input.(linIn).Args[0]), strings.ToUpper(b.Input.(linIn).Args[0])
				if na > nb {
					na, nb = nb, na
				}
				st.pairs.Store(na+"|"+nb, true)
			}
		}
	}
	atomic.AddInt64(&st.histories, 1)
	if overl > 0 {
		atomic.AddInt64(&st.overlapping, 1)
	}
	if atomic.LoadInt64(&st.histories) <= 2 {
		var lines []string
		for i, op := range hist {
			if i < 12 {
				lines = append(lines, fmt.Sprintf("[%d] call=%dus ret=%dus %s -> %s", op.ClientId, op.Call/1000, op.Return/1000, cmdString(op.Input.(linIn).Args), op.Output.(resp.Value)))
			}
		}
		r.Sample(map[string]any{"history_prefix": lines, "operations": len(hist), "overlapping_pairs": overl})
	}
	res, info := porcupine.CheckOperationsVerbose(linModel, hist, 20*time.Second)
	r.Eval(1)
	switch res {
	case porcupine.Ok:
		atomic.AddInt64(&st.ok, 1)
	case porcupine.Unknown:
		atomic.AddInt64(&st.unknown, 1)
	case porcupine.Illegal:
		atomic.AddInt64(&st.illegal, 1)
		var lines []string
		sort.Slice(hist, func(i, j int) bool { return hist[i].Call < hist[j].Call })
		cmds := map[string]bool{}
		for _, op := range hist {
			in := op.Input.(linIn)
			lines = append(lines, fmt.Sprintf("[%d] call=%dus ret=%dus  %s -> %s", op.ClientId, op.Call/1000, op.Return/1000, cmdString(in.Args), op.Output.(resp.Value)))
			if op.ClientId < nconn {
				cmds[strings.ToUpper(in.Args[0])] = true
			}
		}
		_ = info
		// signature: the commands of the smallest failing partition would be ideal; use the multi-key/compound commands present
		var names []string
		for c := range cmds {
			names = append(names, c)
		}
		sort.Strings(names)
		r.Report("lin/not-linearizable/"+tag, fmt.Sprintf("a concurrent history of %d operations on %d connections has no sequential explanation (commands involved: %v)", len(hist), nconn, names), map[string]any{"history": lines})
	}
}

// ---- conservation runs ---------------------------------------------------------------

func c08Conservation(r *verdict.Run, e *emu, kind string, nconn, nops int, rng *rand.Rand) {
	var wg sync.WaitGroup
	var mu sync.Mutex
	popped := map[string]int{}
	var pushed []string
	bad := func(sig, what string, rep any) { r.Report("cons/"+sig, what, rep) }
	worker := func(c int, f func(cn *wire.Conn, i int) bool) {
		defer wg.Done()
		cn, err := e.dial()
		if err != nil {
			return
		}
		defer cn.Close()
		cn.Timeout = 30 * time.Second
		for i := 0; i < nops; i++ {
			if !f(cn, i) {
				return
			}
		}
	}
	fin, err := e.dial()
	if err != nil {
		r.Inconclusive("infra: " + err.Error())
		return
	}
	defer fin.Close()
	fin.Timeout = 30 * time.Second
	switch kind {
	case "incr":
		var sum int64
		for c := 0; c < nconn; c++ {
			wg.Add(1)
			go worker(c, func(cn *wire.Conn, i int) bool {
				if i%40 == 0 {
					// a transaction and an introspection command in between: whatever they leave behind on the connection or
					// in the data store (lock ownership, ids) must not weaken the mutual exclusion of the plain commands after them
					if _, err := cn.Pipeline([][]string{{"MULTI"}, {"GET", "cnt"}, {"EXEC"}, {"CLIENT", "LIST"}, {"CLIENT", "INFO"}}); err != nil {
						return false
					}
				}
				d := int64(1 + (i+c)%3)
				var v resp.Value
				var err error
				switch i % 3 {
				case 0:
					v, err = cn.Do("INCRBY", "cnt", strconv.FormatInt(d, 10))
				case 1:
					v, err = cn.Do("DECRBY", "cnt", strconv.FormatInt(-d, 10))
				default:
					d = 1
					v, err = cn.Do("INCR", "cnt")
				}
				if err != nil || v.Kind != ':' {
					bad("incr/bad-reply", fmt.Sprintf("%v %s", err, v), nil)
					return false
				}
				atomic.AddInt64(&sum, d)
				_, err = cn.Do("HINCRBY", "hcnt", "n", "1")
				return err == nil
			})
		}
		wg.Wait()
		v, _ := fin.Do("GET", "cnt")
		if v.Text() != strconv.FormatInt(sum, 10) {
			bad("incr/lost-update", fmt.Sprintf("%d connections x %d increments add up to %d but GET cnt = %s", nconn, nops, sum, v), nil)
		}
		h, _ := fin.Do("HGET", "hcnt", "n")
		if h.Text() != strconv.Itoa(nconn*nops) {
			bad("hincrby/lost-update", fmt.Sprintf("HINCRBY x %d but the field is %s", nconn*nops, h), nil)
		}
	case "sortstore":
		// a multi-element write (SORT ... STORE rewrites its destination) against nothing but readers: no other writer
		// is around whose waiting for the lock would keep the readers apart from it
		sargs := []string{"RPUSH", "ssrc"}
		for i := 0; i < 3000; i++ {
			sargs = append(sargs, fmt.Sprintf("%04d", (i*7919)%3000))
		}
		fin.Do(sargs...)
		fin.Do("SORT", "ssrc", "STORE", "sdst")
		var stop atomic.Bool
		var seen atomic.Int64
		wg.Add(1)
		go func() {
			defer wg.Done()
			cn, err := e.dial()
			if err != nil {
				return
			}
			defer cn.Close()
			cn.Timeout = 30 * time.Second
			for i := 0; !stop.Load(); i++ {
				switch i % 3 {
				case 0:
					cn.Do("SORT", "ssrc", "STORE", "sdst")
				case 1:
					cn.Do("SORT", "ssrc", "DESC", "LIMIT", "0", "3000", "STORE", "sdst")
				case 2:
					cn.Do("SORT", "ssrc", "ALPHA", "STORE", "sdst")
				}
			}
		}()
		for c := 0; c < nconn-1; c++ {
			wg.Add(1)
			go func(c int) {
				defer wg.Done()
				cn, err := e.dial()
				if err != nil {
					return
				}
				defer cn.Close()
				cn.Timeout = 30 * time.Second
				for i := 0; !stop.Load(); i++ {
					seen.Add(1)
					n := -1
					switch (c + i) % 3 {
					case 0:
						if v, err := cn.Do("LRANGE", "sdst", "0", "-1"); err == nil && v.Kind == '*' {
							n = len(v.Elems)
						}
					case 1:
						if v, err := cn.Do("LLEN", "sdst"); err == nil && v.Kind == ':' {
							n = int(v.Int)
						}
					case 2:
						if v, err := cn.Do("LPOS", "sdst", "2999"); err == nil && v.Kind == ':' {
							n = 3000
						} else if err == nil && v.Null {
							n = 0
						}
					}
					if n >= 0 && n != 3000 {
						bad("sortstore/destination-seen-half-written", fmt.Sprintf("the destination of SORT ssrc STORE sdst always holds the same 3000 elements, a reader found %d (command %d of its loop)", n, (c+i)%3), nil)
						return
					}
				}
			}(c)
		}
		time.Sleep(time.Duration(nops) * 2 * time.Millisecond)
		stop.Store(true)
		wg.Wait()
		r.Count("sortstore_observations", seen.Load())
	case "multidb":
		// every database has its own lock, so commands on different databases really run at the same time: whatever the
		// code shares between databases (hashing, id counters, tables of the set of data stores) is exercised only here.
		// Each connection works in database c%4 on that database's counter, set, list and hash; per database the INCR
		// replies must be a permutation of 1..N, nothing may be lost and the database must hold exactly its four keys.
		const ndb = 4
		longKey := "counter-with-a-name-that-is-much-longer-than-one-hash-block-" + strings.Repeat("k", 96)
		var perDb [ndb]int64
		var replyMu sync.Mutex
		replies := [ndb]map[int64]int{}
		for d := range replies {
			replies[d] = map[int64]int{}
		}
		for c := 0; c < nconn; c++ {
			wg.Add(1)
			go worker(c, func(cn *wire.Conn, i int) bool {
				d := c % ndb
				if i == 0 {
					if v, err := cn.Do("SELECT", strconv.Itoa(d)); err != nil || v.Text() != "OK" {
						return false
					}
				}
				vs, err := cn.Pipeline([][]string{{"INCR", longKey}, {"SADD", "members", fmt.Sprintf("m-%d-%d", c, i)},
					{"RPUSH", "queue", fmt.Sprintf("e-%d-%d", c, i)}, {"HINCRBY", "h", "n", "2"}})
				if err != nil || len(vs) != 4 || vs[0].Kind != ':' {
					bad("multidb/bad-reply", fmt.Sprintf("%v %v", err, vs), nil)
					return false
				}
				replyMu.Lock()
				replies[d][vs[0].Int]++
				replyMu.Unlock()
				if vs[1].Int != 1 {
					bad("multidb/sadd-of-a-new-member-not-counted", fmt.Sprintf("SADD members m-%d-%d in database %d replied %s", c, i, d, vs[1]), nil)
				}
				atomic.AddInt64(&perDb[d], 1)
				return true
			})
		}
		wg.Wait()
		for d := 0; d < ndb; d++ {
			n := atomic.LoadInt64(&perDb[d])
			if n == 0 {
				continue
			}
			fin.Do("SELECT", strconv.Itoa(d))
			vs, err := fin.Pipeline([][]string{{"GET", longKey}, {"SCARD", "members"}, {"LLEN", "queue"}, {"HGET", "h", "n"}, {"DBSIZE"}})
			if err != nil || len(vs) != 5 {
				r.Inconclusive("infra: final reads of database " + strconv.Itoa(d))
				continue
			}
			if vs[0].Text() != strconv.FormatInt(n, 10) || vs[1].Int != n || vs[2].Int != n || vs[3].Text() != strconv.FormatInt(2*n, 10) {
				bad("multidb/lost-update", fmt.Sprintf("database %d: %d rounds of INCR/SADD/RPUSH/HINCRBY 2 but counter=%s SCARD=%s LLEN=%s h.n=%s", d, n, vs[0], vs[1], vs[2], vs[3]), nil)
			}
			if vs[4].Int != 4 {
				bad("multidb/keyspace-size", fmt.Sprintf("database %d holds exactly 4 keys but DBSIZE = %s", d, vs[4]), nil)
			}
			for k := int64(1); k <= n; k++ {
				if replies[d][k] != 1 {
					bad("multidb/incr-replies-not-a-permutation", fmt.Sprintf("database %d: %d INCRs, reply %d was given %d times", d, n, k, replies[d][k]), nil)
					break
				}
			}
		}
		fin.Do("SELECT", "0")
	case "append":
		for c := 0; c < nconn; c++ {
			wg.Add(1)
			go worker(c, func(cn *wire.Conn, i int) bool {
				_, err := cn.Do("APPEND", "log", fmt.Sprintf("[%03d.%05d]", c, i))
				return err == nil
			})
		}
		wg.Wait()
		v, _ := fin.Do("GET", "log")
		s := v.Text()
		if len(s) != nconn*nops*11 {
			bad("append/length", fmt.Sprintf("expected %d bytes, got %d", nconn*nops*11, len(s)), nil)
		} else {
			seen := map[string]bool{}
			for i := 0; i+11 <= len(s); i += 11 {
				tok := s[i : i+11]
				if tok[0] != '[' || tok[10] != ']' || seen[tok] {
					bad("append/torn-or-duplicate-token", fmt.Sprintf("token %q at offset %d", tok, i), nil)
					break
				}
				seen[tok] = true
			}
		}
	case "list":
		// producers push unique ids (1-3 per command), consumers pop with every non-blocking pop command
		var prodWg sync.WaitGroup
		done := atomic.Bool{}
		for c := 0; c < nconn/2; c++ {
			wg.Add(1)
			prodWg.Add(1)
			go func(c int) {
				defer prodWg.Done()
				worker(c, func(cn *wire.Conn, i int) bool {
					n := 1 + (i+c)%3
					args := []string{[]string{"RPUSH", "LPUSH"}[i%2], []string{"q1", "q2"}[(i/2)%2]}
					var ids []string
					for j := 0; j < n; j++ {
						ids = append(ids, fmt.Sprintf("id-%d-%d-%d", c, i, j))
					}
					if _, err := cn.Do(append(args, ids...)...); err != nil {
						return false
					}
					mu.Lock()
					pushed = append(pushed, ids...)
					mu.Unlock()
					return true
				})
			}(c)
		}
		note := func(v resp.Value) {
			v = model.Down(v)
			var walk func(x resp.Value)
			walk = func(x resp.Value) {
				if x.Kind == '*' {
					for _, e := range x.Elems {
						walk(e)
					}
				} else if x.IsString() && strings.HasPrefix(x.Text(), "id-") {
					mu.Lock()
					popped[x.Text()]++
					mu.Unlock()
				}
			}
			walk(v)
		}
		for c := nconn / 2; c < nconn; c++ {
			wg.Add(1)
			go func(c int) {
				defer wg.Done()
				cn, err := e.dial()
				if err != nil {
					return
				}
				defer cn.Close()
				cn.Timeout = 30 * time.Second
				for i := 0; !done.Load() || i%7 != 0; i++ {
					var v resp.Value
					var err error
					switch (i + c) % 6 {
					case 0:
						v, err = cn.Do("LPOP", "q1")
					case 1:
						v, err = cn.Do("RPOP", "q2", "2")
					case 2:
						v, err = cn.Do("LMPOP", "2", "q1", "q2", "LEFT", "COUNT", "2")
					case 3:
						_, err = cn.Do("LMOVE", "q1", "q2", "LEFT", "RIGHT") // moves, does not consume
					case 4:
						_, err = cn.Do("RPOPLPUSH", "q2", "q1")
					case 5:
						v, err = cn.Do("BLPOP", "q2", "q1", "0.01")
					}
					if err != nil {
						return
					}
					note(v)
					if done.Load() && i > 100000 {
						return
					}
				}
			}(c)
		}
		prodWg.Wait()
		time.Sleep(20 * time.Millisecond)
		done.Store(true)
		wg.Wait()
		rest := map[string]int{}
		for _, q := range []string{"q1", "q2"} {
			v, _ := fin.Do("LRANGE", q, "0", "-1")
			for _, e := range v.Elems {
				rest[e.Text()]++
			}
		}
		lost, dup := 0, 0
		var ex []string
		for _, id := range pushed {
			n := popped[id] + rest[id]
			if n == 0 {
				lost++
				if len(ex) < 3 {
					ex = append(ex, id+" lost")
				}
			} else if n > 1 {
				dup++
				if len(ex) < 3 {
					ex = append(ex, fmt.Sprintf("%s delivered %d times", id, n))
				}
			}
		}
		if lost > 0 || dup > 0 {
			bad("list/lost-or-duplicated", fmt.Sprintf("%d ids pushed, %d lost, %d duplicated, e.g. %v", len(pushed), lost, dup, ex), nil)
		}
		r.Count("cons_list_ids", int64(len(pushed)))
	case "sets":
		// members live in exactly one of two sets; SMOVE moves them back and forth
		members := []string{}
		for i := 0; i < 40; i++ {
			members = append(members, "m"+strconv.Itoa(i))
		}
		fin.Do(append([]string{"SADD", "sa"}, members...)...)
		stop := atomic.Bool{}
		for c := 0; c < nconn-1; c++ {
			wg.Add(1)
			go worker(c, func(cn *wire.Conn, i int) bool {
				m := members[(i*7+c)%len(members)]
				src, dst := "sa", "sb"
				if (i+c)%2 == 0 {
					src, dst = "sb", "sa"
				}
				_, err := cn.Do("SMOVE", src, dst, m)
				return err == nil
			})
		}
		wg.Add(1)
		go func() {
			defer wg.Done()
			cn, _ := e.dial()
			defer cn.Close()
			for !stop.Load() {
				// an atomic multi-key view: |sa u sb| must be all members and sa n sb empty
				v, err := cn.Do("SINTERCARD", "2", "sa", "sb")
				if err != nil {
					return
				}
				if v.Int != 0 {
					bad("smove/member-in-both-sets", fmt.Sprintf("SINTERCARD 2 sa sb = %d while members are only ever moved", v.Int), nil)
					return
				}
				u, err := cn.Do("SUNION", "sa", "sb")
				if err != nil {
					return
				}
				if len(u.Elems) != len(members) {
					bad("smove/member-in-neither-set", fmt.Sprintf("SUNION sa sb has %d members, expected %d", len(u.Elems), len(members)), nil)
					return
				}
			}
		}()
		time.Sleep(time.Duration(nops/4) * time.Millisecond)
		// wait for movers
		for {
			time.Sleep(5 * time.Millisecond)
			// movers finish by op count; detect via a side channel: poll goroutine count is overkill, use a timer bound
			break
		}
		// movers run nops operations each; give them time, then stop the reader
		deadline := time.Now().Add(30 * time.Second)
		for time.Now().Before(deadline) {
			time.Sleep(20 * time.Millisecond)
			if v, err := fin.Do("PING"); err != nil || v.Text() != "PONG" {
				break
			}
			// heuristic end: no easy join on a subset; rely on wg below after stopping the reader late
			if time.Until(deadline) < 29*time.Second-time.Duration(nops)*200*time.Microsecond {
				break
			}
		}
		stop.Store(true)
		wg.Wait()
	case "mset":
		stop := atomic.Bool{}
		for c := 0; c < nconn-2; c++ {
			wg.Add(1)
			go worker(c, func(cn *wire.Conn, i int) bool {
				tag := fmt.Sprintf("%d.%d", c, i)
				var err error
				if i%5 == 4 {
					_, err = cn.Do("MSETNX", "nx1", tag, "nx2", tag, "nx3", tag)
					if err == nil {
						_, err = cn.Do("DEL", "nx1", "nx2", "nx3")
					}
				} else {
					_, err = cn.Do("MSET", "k1", tag, "k2", tag, "k3", tag, "k4", tag)
				}
				return err == nil
			})
		}
		for rdr := 0; rdr < 2; rdr++ {
			wg.Add(1)
			go func() {
				defer wg.Done()
				cn, _ := e.dial()
				defer cn.Close()
				for !stop.Load() {
					v, err := cn.Do("MGET", "k1", "k2", "k3", "k4")
					if err != nil || len(v.Elems) != 4 {
						return
					}
					for i := 1; i < 4; i++ {
						if v.Elems[i].Text() != v.Elems[0].Text() || v.Elems[i].Null != v.Elems[0].Null {
							bad("mset/mixed-tags-observed", fmt.Sprintf("MGET k1..k4 = %s: a partially applied MSET was observed", v), nil)
							return
						}
					}
					n, err := cn.Do("EXISTS", "nx1", "nx2", "nx3")
					if err != nil {
						return
					}
					if n.Int != 0 && n.Int != 3 {
						bad("msetnx/partial", fmt.Sprintf("EXISTS nx1 nx2 nx3 = %d: MSETNX/DEL must be all-or-nothing", n.Int), nil)
						return
					}
				}
			}()
		}
		time.Sleep(time.Duration(nops) * 300 * time.Microsecond)
		stop.Store(true)
		wg.Wait()
	case "rename":
		fin.Do("SET", "ra", "token")
		stop := atomic.Bool{}
		for c := 0; c < nconn-2; c++ {
			wg.Add(1)
			go worker(c, func(cn *wire.Conn, i int) bool {
				var err error
				if (i+c)%2 == 0 {
					_, err = cn.Do("RENAME", "ra", "rb")
				} else {
					_, err = cn.Do("RENAME", "rb", "ra")
				}
				return err == nil
			})
		}
		for rdr := 0; rdr < 2; rdr++ {
			wg.Add(1)
			go func() {
				defer wg.Done()
				cn, _ := e.dial()
				defer cn.Close()
				for !stop.Load() {
					v, err := cn.Do("EXISTS", "ra", "rb")
					if err != nil {
						return
					}
					if v.Int != 1 {
						bad("rename/key-in-both-or-neither", fmt.Sprintf("EXISTS ra rb = %d during RENAME ping-pong (must always be 1)", v.Int), nil)
						return
					}
				}
			}()
		}
		time.Sleep(time.Duration(nops) * 300 * time.Microsecond)
		stop.Store(true)
		wg.Wait()
	case "bigviews":
		// atomic views of LARGE values: a command that writes several parts of one value (or several values) must
		// never be seen half-done by a reader, however long copying the value takes
		const big = 1 << 20
		fin.Do("SETRANGE", "bits", strconv.Itoa(big-1), "\x00")
		fin.Do("SET", "fill", strings.Repeat("A", 256<<10))
		var hargs = []string{"HSET", "bh"}
		for i := 0; i < 300; i++ {
			hargs = append(hargs, fmt.Sprintf("f%03d", i), "0")
		}
		fin.Do(hargs...)
		var largs = []string{"RPUSH", "ring"}
		for i := 0; i < 1500; i++ {
			largs = append(largs, fmt.Sprintf("e%04d", i))
		}
		fin.Do(largs...)
		// a list that is only ever rewritten as a whole by SORT ... STORE (3000 elements, the same ones every time)
		{
			sargs := []string{"RPUSH", "sortsrc"}
			for i := 0; i < 3000; i++ {
				sargs = append(sargs, fmt.Sprintf("%04d", (i*7919)%3000))
			}
			fin.Do(sargs...)
			fin.Do("SORT", "sortsrc", "STORE", "sortdst")
		}
		stop := atomic.Bool{}
		observations := int64(0)
		writer := func(c int) {
			defer wg.Done()
			cn, err := e.dial()
			if err != nil {
				return
			}
			defer cn.Close()
			cn.Timeout = 30 * time.Second
			for i := 0; !stop.Load(); i++ {
				x := []string{"0", "255"}[(i+c)%2]
				switch c % 5 {
				case 4:
					// commands with very many keys / members: all of them, or none, for every observer
					a := []string{"MSET"}
					if i%2 == 1 {
						a = []string{[]string{"UNLINK", "DEL"}[(i/2)%2]}
					}
					for j := 0; j < 200; j++ {
						a = append(a, fmt.Sprintf("mk%03d", j))
						if i%2 == 0 {
							a = append(a, "v")
						}
					}
					cn.Do(a...)
					b := []string{[]string{"SADD", "SREM"}[i%2], "mset"}
					for j := 0; j < 300; j++ {
						b = append(b, fmt.Sprintf("m%03d", j))
					}
					cn.Do(b...)
				case 0:
					cn.Do("BITFIELD", "bits", "SET", "u8", "#"+strconv.Itoa(big/4), x, "SET", "u8", "#"+strconv.Itoa(3*big/4), x)
				case 1:
					cn.Do("SETRANGE", "fill", "0", strings.Repeat([]string{"A", "B"}[i%2], 256<<10))
				case 2:
					a := []string{"HSET", "bh"}
					for j := 0; j < 300; j++ {
						a = append(a, fmt.Sprintf("f%03d", j), strconv.Itoa(i))
					}
					cn.Do(a...)
				case 3:
					if i%3 == 2 {
						cn.Do("SORT", "sortsrc", []string{"ASC", "DESC"}[(i/3)%2], "STORE", "sortdst")
					} else if i%2 == 0 {
						cn.Do("LMOVE", "ring", "ring", "LEFT", "RIGHT")
					} else {
						cn.Do("RPOPLPUSH", "ring", "ring")
					}
				}
			}
		}
		reader := func(c int) {
			defer wg.Done()
			cn, err := e.dial()
			if err != nil {
				return
			}
			defer cn.Close()
			cn.Timeout = 30 * time.Second
			for i := 0; !stop.Load(); i++ {
				atomic.AddInt64(&observations, 1)
				switch (c + i) % 10 {
				case 9:
					v, err := cn.Do("LRANGE", "sortdst", "0", "-1")
					if err == nil && v.Kind == '*' && len(v.Elems) != 3000 {
						bad("bigviews/sort-store-seen-half-done", fmt.Sprintf("LRANGE of the destination of SORT src STORE dst (always the same 3000 elements) returned %d elements", len(v.Elems)), nil)
						return
					}
				case 7:
					// the key count: six fixed keys, the set (there or not), and all or none of the 200 mk keys
					v, err := cn.Do("DBSIZE")
					if err == nil && v.Kind == ':' && v.Int != 6 && v.Int != 7 && v.Int != 206 && v.Int != 207 {
						bad("bigviews/dbsize-sees-half-applied-command", fmt.Sprintf("DBSIZE = %d while a writer alternates MSET and UNLINK/DEL of 200 keys in single commands (must be 6, 7, 206 or 207)", v.Int), nil)
						return
					}
				case 8:
					v, err := cn.Do("KEYS", "mk*")
					if err == nil && v.Kind == '*' && len(v.Elems) != 0 && len(v.Elems) != 200 {
						bad("bigviews/keys-sees-half-applied-command", fmt.Sprintf("KEYS mk* listed %d keys while a writer alternates MSET and UNLINK/DEL of 200 keys in single commands (must be 0 or 200)", len(v.Elems)), nil)
						return
					}
				case 5:
					v, err := cn.Do("EXISTS", "mk000", "mk199", "mk064", "mk065")
					if err == nil && v.Int != 0 && v.Int != 4 {
						bad("bigviews/many-key-command-half-applied", fmt.Sprintf("EXISTS mk000 mk199 mk064 mk065 = %d while a writer alternates MSET and UNLINK/DEL of mk000..mk199 in single commands (must be 0 or 4)", v.Int), nil)
						return
					}
				case 6:
					v, err := cn.Do("SCARD", "mset")
					if err == nil && v.Int != 0 && v.Int != 300 {
						bad("bigviews/many-member-command-half-applied", fmt.Sprintf("SCARD = %d while a writer alternates SADD and SREM of the same 300 members in single commands (must be 0 or 300)", v.Int), nil)
						return
					}
				case 0:
					v, err := cn.Do("BITCOUNT", "bits")
					if err == nil && v.Int != 0 && v.Int != 16 {
						bad("bigviews/bitfield-half-applied", fmt.Sprintf("BITCOUNT of a 1 MiB string = %d while writers set two distant bytes to 0x00 or 0xff with one BITFIELD command (must be 0 or 16)", v.Int), nil)
						return
					}
				case 1:
					v, err := cn.Do("BITFIELD_RO", "bits", "GET", "u8", "#"+strconv.Itoa(big/4), "GET", "u8", "#"+strconv.Itoa(3*big/4))
					if err == nil && len(v.Elems) == 2 && v.Elems[0].Int != v.Elems[1].Int {
						bad("bigviews/bitfield-half-applied", fmt.Sprintf("BITFIELD_RO read %s from two bytes that are only ever written together", v), nil)
						return
					}
				case 2:
					v, err := cn.Do("GET", "fill")
					if err == nil {
						b := v.Str
						if len(b) != 256<<10 || strings.Count(string(b), string(b[:1])) != len(b) {
							bad("bigviews/setrange-torn", fmt.Sprintf("GET of a 256 KiB value that writers overwrite completely with one SETRANGE returned a mixture (%d bytes, first %q, %d equal to it)", len(b), b[:1], strings.Count(string(b), string(b[:1]))), nil)
							return
						}
					}
				case 3:
					v, err := cn.Do("HVALS", "bh")
					if err == nil && len(v.Elems) > 0 {
						for _, el := range v.Elems {
							if el.Text() != v.Elems[0].Text() {
								bad("bigviews/hset-half-applied", fmt.Sprintf("HVALS of a 300-field hash whose fields are only ever set together returned both %s and %s", v.Elems[0], el), nil)
								return
							}
						}
						if len(v.Elems) != 300 {
							bad("bigviews/hset-half-applied", fmt.Sprintf("HVALS returned %d of 300 fields", len(v.Elems)), nil)
							return
						}
					}
				case 4:
					v, err := cn.Do("LRANGE", "ring", "0", "-1")
					if err == nil {
						seen := map[string]bool{}
						for _, el := range v.Elems {
							seen[el.Text()] = true
						}
						if len(v.Elems) != 1500 || len(seen) != 1500 {
							bad("bigviews/rotation-torn", fmt.Sprintf("LRANGE of a 1500-element list that is only ever rotated returned %d elements, %d distinct", len(v.Elems), len(seen)), nil)
							return
						}
					}
				}
			}
		}
		for c := 0; c < 5; c++ {
			wg.Add(1)
			go writer(c)
		}
		for c := 0; c < nconn-4; c++ {
			wg.Add(1)
			go reader(c)
		}
		time.Sleep(time.Duration(nops) * 4 * time.Millisecond)
		stop.Store(true)
		wg.Wait()
		r.Count("bigview_observations", atomic.LoadInt64(&observations))
	}
	r.Eval(nconn * nops)
	r.Distinct("conservation/" + kind + "/" + strconv.Itoa(nconn))
}

func c08Run(r *verdict.Run, race bool, nhist, ncons int, tag string) {
	st := &linStats{}
	perChild := 25
	nsh := (nhist + perChild - 1) / perChild
	kinds := []string{"incr", "append", "list", "sets", "mset", "rename", "bigviews", "multidb", "sortstore"}
	var raceMu sync.Mutex
	raceSeen := map[string]string{}
	parallel(nsh+ncons, 12, func(shard int) {
		rng := shardRng(r, shard)
		c, err := startChild(race)
		if err != nil {
			r.Inconclusive("cannot start child")
			return
		}
		finish := func(c *host.Child) {
			reportLockMonitor(r, c)
			if race {
				c.QuitGracefully()
				raceMu.Lock()
				for _, rep := range c.RaceReports() {
					raceSeen[rep.Sig] = rep.Text
				}
				raceMu.Unlock()
				os_RemoveAll(c.Dir)
			} else {
				c.Stop()
			}
		}
		defer func() { finish(c) }()
		enableLockMonitor(c)
		c.Ctl("seed %d", r.Seed*977+int64(shard))
		c.Ctl("yield ds: 250 150")
		if shard >= nsh {
			e, err := startEmu(c, "")
			if err != nil {
				r.Inconclusive("infra: " + err.Error())
				return
			}
			kind := kinds[(shard-nsh)%len(kinds)]
			nops := 400
			if r.Tier == "thorough" {
				nops = 1500
			}
			if race {
				nops /= 4
			}
			c08Conservation(r, e, kind, 8+2*((shard-nsh)%3), nops, rng)
			return
		}
		for i := 0; i < perChild && shard*perChild+i < nhist; i++ {
			if !c.Alive() {
				finish(c)
				if c, err = startChild(race); err != nil {
					return
				}
			}
			e, err := startEmu(c, "")
			if err != nil {
				r.Count("infra_retries", 1)
				finish(c)
				c, _ = startChild(race)
				continue
			}
			c08History(r, e, rng, st, tag)
			e.close()
		}
	})
	r.Count("histories_checked", st.histories)
	r.Count("histories_ok", st.ok)
	r.Count("histories_illegal", st.illegal)
	r.Count("histories_unknown_checker_timeout", st.unknown)
	r.Count("histories_with_overlapping_operations", st.overlapping)
	npairs := 0
	st.pairs.Range(func(k, v any) bool {
		npairs++
		r.Distinct("overlap/" + k.(string))
		return true
	})
	r.Count("distinct_overlapping_command_pairs", int64(npairs))
	if st.unknown*20 > st.histories {
		r.Inconclusive(fmt.Sprintf("%d of %d histories could not be decided within the checker timeout", st.unknown, st.histories))
	}
	for sig, text := range raceSeen {
		r.Report("race/"+sig, "race detector report during the atomicity workload:\n"+headLines(text, 40), nil)
	}
}

func checkC08(r *verdict.Run) {
	r.Rule = "(1) many small concurrent histories (3-6 connections x 5-10 operations on 1-3 disjoint key groups; single-key read-modify-write and multi-key commands, FLUSHDB/FLUSHALL [ASYNC|SYNC] in single-group histories; unique written values) recorded at the client boundary with one monotonic clock and checked for linearizability with porcupine against the reference model (partitioned by key group; a final single-client read of every key is part of the history); " +
		"(2) conservation runs: N x M INCR/DECR/HINCRBY sums, APPEND tokens, unique list ids pushed/popped/moved (exactly once), SMOVE between two sets under SINTERCARD/SUNION observers, MSET tag vectors under MGET observers, MSETNX/DEL all-or-nothing, RENAME ping-pong under EXISTS observers, and atomic views of large values (two distant bytes of a 1 MiB string written by one BITFIELD, a 256 KiB value overwritten by one SETRANGE, 300 hash fields set by one HSET, a 1500-element list that is only rotated, 200 keys written by one MSET and removed by one UNLINK/DEL, 300 members added by one SADD and removed by one SREM) under BITCOUNT/BITFIELD_RO/GET/HVALS/LRANGE/EXISTS/SCARD/DBSIZE/KEYS observers, the destination of SORT ... STORE under readers only (LRANGE/LLEN/LPOS, no other writer), and the same counters/sets/lists/hashes in four databases at once (per database: INCR replies a permutation of 1..N, nothing lost, DBSIZE exact; this is the only place where commands really run in parallel, one lock per database); directed real-time orders: a command queued in MULTI, another client's flush and re-creation of the keys, then EXEC (24 queued commands x 3 flushes, replies and state = the sequential order); yields are injected before/after the data store lock. distinct = overlapping command pairs actually observed + conservation kinds"
	c08Run(r, false, tierPick(r, 300, 10000), tierPick(r, 9, 72), "plain")
	queuedAcrossFlush(r, "lin-directed")
	if r.Tier == "thorough" {
		c08Run(r, true, 300, 18, "race-build")
	}
	r.Assume("porcupine v1.3.0 decides the recorded histories; the sequential specification is the reference model; a checker timeout (20 s) makes a history inconclusive, never a violation")
}
