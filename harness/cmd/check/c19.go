package main

import (
	"bytes"
	"fmt"
	"math/rand"
	"os"
	"os/exec"
	"path/filepath"
	"sort"
	"strconv"
	"strings"
	"time"

	"verif/harness/host"
	"verif/harness/model"
	"verif/harness/verdict"
	"verif/harness/wire"
)

func init() { register("C19", "fault_enumeration", checkC19) }

// fullDump reads every database: key -> canonical description (type, value, absolute deadline).
func fullDump(cn *wire.Conn) (map[int]map[string]string, error) {
	out := map[int]map[string]string{}
	for db := 0; db < 16; db++ {
		if _, err := cn.Do("SELECT", strconv.Itoa(db)); err != nil {
			return nil, err
		}
		kv, err := cn.Do("KEYS", "*")
		if err != nil {
			return nil, err
		}
		m := map[string]string{}
		for _, k := range kv.Elems {
			key := k.Text()
			vs, err := cn.Pipeline([][]string{{"TYPE", key}, {"PEXPIRETIME", key}, {"GET", key}, {"LRANGE", key, "0", "-1"}, {"HGETALL", key}, {"SMEMBERS", key}})
			if err != nil {
				return nil, err
			}
			typ := vs[0].Text()
			var val string
			switch typ {
			case "string":
				val = strconv.Quote(vs[2].Text())
			case "list":
				var l []string
				for _, e := range vs[3].Elems {
					l = append(l, e.Text())
				}
				val = fmt.Sprintf("%q", l)
			case "hash":
				h := model.Down(vs[4])
				var l []string
				for i := 0; i+1 < len(h.Elems); i += 2 {
					l = append(l, h.Elems[i].Text()+"="+h.Elems[i+1].Text())
				}
				sort.Strings(l)
				val = fmt.Sprintf("%q", l)
			case "set":
				var l []string
				for _, e := range model.Down(vs[5]).Elems {
					l = append(l, e.Text())
				}
				sort.Strings(l)
				val = fmt.Sprintf("%q", l)
			}
			m[key] = fmt.Sprintf("%s %s deadline=%d", typ, val, vs[1].Int)
		}
		if len(m) > 0 {
			out[db] = m
		}
	}
	cn.Do("SELECT", "0")
	return out, nil
}

func dumpDiff(a, b map[int]map[string]string) string {
	var diffs []string
	for db := 0; db < 16; db++ {
		keys := map[string]bool{}
		for k := range a[db] {
			keys[k] = true
		}
		for k := range b[db] {
			keys[k] = true
		}
		var ks []string
		for k := range keys {
			ks = append(ks, k)
		}
		sort.Strings(ks)
		for _, k := range ks {
			if a[db][k] != b[db][k] {
				x, y := a[db][k], b[db][k]
				if x == "" {
					x = "(absent)"
				}
				if y == "" {
					y = "(absent)"
				}
				diffs = append(diffs, fmt.Sprintf("db%d %q: before %s / after %s", db, k, trunc(x, 120), trunc(y, 120)))
			}
		}
	}
	if len(diffs) > 6 {
		diffs = append(diffs[:6], fmt.Sprintf("... and %d more", len(diffs)-6))
	}
	return strings.Join(diffs, "\n")
}

// deadlinesClose reports whether two dumps differ only by <= 1 ms in deadlines.
func dumpsEqual(a, b map[int]map[string]string) bool { return dumpDiff(a, b) == "" }

var c19Keys = []string{"", "a", "b", "c", "bin\x00\xff\r\n", "long" + strings.Repeat("k", 300), "e1", "e2"}

func c19RandomHistory(rng *rand.Rand, n int) [][]string {
	var out [][]string
	keys := c19Keys
	for i := 0; i < n; i++ {
		k := pick(rng, keys)
		switch rng.Intn(22) {
		case 0:
			out = append(out, []string{"SELECT", strconv.Itoa([]int{0, 0, 0, 1, 3, 15}[rng.Intn(6)])})
		case 1, 2:
			out = append(out, []string{"SET", k, pick(rng, []string{"v", "", "x\r\ny", "\x00\x01\xfe", strings.Repeat("L", 2000)})})
		case 3:
			out = append(out, []string{"SET", k, "ttl", "PXAT", strconv.FormatInt(time.Now().UnixMilli()+int64(100000+rng.Intn(1000000)), 10)})
		case 4, 5:
			out = append(out, []string{"RPUSH", k, "e" + strconv.Itoa(i), pick(rng, []string{"a", "", "b\r\n"})})
		case 6:
			out = append(out, []string{"LPUSH", k, "front"})
		case 7:
			out = append(out, []string{"LSET", k, "0", "changed"})
		case 8:
			out = append(out, []string{"LPOP", k})
		case 9, 10:
			out = append(out, []string{"HSET", k, pick(rng, []string{"f" + strconv.Itoa(rng.Intn(5)), ""}), pick(rng, []string{"1", "", "v\x00"})})
		case 11:
			out = append(out, []string{"HDEL", k, "f" + strconv.Itoa(rng.Intn(5))})
		case 12, 13:
			out = append(out, []string{"SADD", k, "m" + strconv.Itoa(rng.Intn(6)), pick(rng, []string{"\xffbin", ""})})
		case 14:
			out = append(out, []string{"SREM", k, "m" + strconv.Itoa(rng.Intn(6))})
		case 15:
			out = append(out, []string{"DEL", k})
		case 16:
			out = append(out, []string{"PEXPIREAT", k, strconv.FormatInt(time.Now().UnixMilli()+int64(200000+rng.Intn(100000)), 10)})
		case 17:
			out = append(out, []string{"PERSIST", k})
		case 18:
			out = append(out, []string{"RENAME", k, pick(rng, keys)})
		case 19:
			out = append(out, []string{"INCR", "counter"})
		case 20:
			out = append(out, []string{"APPEND", k, "+"})
		case 21:
			if rng.Intn(6) == 0 {
				out = append(out, []string{"FLUSHDB"})
			} else {
				out = append(out, []string{"HINCRBYFLOAT", k, "flt", "1.5"})
			}
		}
	}
	return out
}

type c19Env struct {
	r    *verdict.Run
	dir  string
	base string
	wrap []string // command prefix for the next children (fault injector)
}

func newC19Env(r *verdict.Run) *c19Env {
	dir, err := os.MkdirTemp(host.ScratchRoot(), "persist-")
	if err != nil {
		return nil
	}
	return &c19Env{r: r, dir: dir, base: filepath.Join(dir, "snap")}
}

func (p *c19Env) cleanup() { os.RemoveAll(p.dir) }

// start launches a new child hosting an emulator on the persist path.
func (p *c19Env) start() (*host.Child, *emu, *wire.Conn, error) {
	for try := 0; try < 3; try++ {
		var c *host.Child
		var err error
		if len(p.wrap) > 0 {
			c, err = host.StartChild(host.Options{Wrap: p.wrap})
		} else {
			c, err = startChild(false)
		}
		if err != nil {
			return nil, nil, nil, err
		}
		e, err := startEmu(c, p.base)
		if err != nil {
			if !c.Alive() {
				tail := c.StderrHead(4000)
				if sig, msg := host.CrashSignature(tail); sig != "" {
					c.Stop()
					return nil, nil, nil, fmt.Errorf("LOADCRASH %s: %s\n%s", sig, msg, headLines(tail, 25))
				}
			}
			c.Stop()
			continue
		}
		cn, err := e.dial()
		if err != nil {
			c.Stop()
			continue
		}
		cn.Timeout = 20 * time.Second
		return c, e, cn, nil
	}
	return nil, nil, nil, fmt.Errorf("could not start an emulator on the persist path")
}

// waitSaved waits for a periodic save pass that began after now.
func waitSaved(c *host.Child) bool {
	from := c.EventCount()
	c.Ctl("watch saveall:")
	_, idx, ok := c.WaitEvent(from, func(e host.Event) bool { return e.Kind == "hit" && e.Point == "saveall:begin" }, 5*time.Second)
	if !ok {
		return false
	}
	_, _, ok = c.WaitEvent(idx, func(e host.Event) bool { return e.Kind == "hit" && e.Point == "saveall:done" }, 5*time.Second)
	return ok
}

func (p *c19Env) files() string {
	ents, _ := os.ReadDir(p.dir)
	var l []string
	for _, e := range ents {
		if fi, err := e.Info(); err == nil {
			l = append(l, fmt.Sprintf("%s(%dB)", e.Name(), fi.Size()))
		}
	}
	return strings.Join(l, " ")
}

// ---- 1. round trips -------------------------------------------------------------------

func c19RoundTrip(r *verdict.Run, shard int) {
	rng := shardRng(r, shard)
	p := newC19Env(r)
	if p == nil {
		return
	}
	defer p.cleanup()
	c, e, cn, err := p.start()
	if err != nil {
		r.Inconclusive("infra: " + err.Error())
		return
	}
	// several generations on one persist path: each later history runs on top of the snapshots its predecessors left
	// on disk (a database emptied or flushed in generation n must not come back from the files of generation n-1)
	var hist [][]string
	var before map[int]map[string]string
	var files string
	gens := 1 + shard%3
	for gen := 0; gen < gens; gen++ {
		h := c19RandomHistory(rng, 40+rng.Intn(60))
		if gen > 0 {
			h = append(h[:len(h)/2], c19Emptying(rng)...)
			hist = append(hist, []string{fmt.Sprintf("-- restart, generation %d --", gen+1)})
		}
		hist = append(hist, h...)
		for i, cmd := range h {
			if _, err := cn.Do(cmd...); err != nil {
				r.Inconclusive("history command failed: " + err.Error())
				c.Stop()
				return
			}
			if i == len(h)/2 && rng.Intn(2) == 0 {
				waitSaved(c) // some histories span a periodic save
			}
		}
		before, err = fullDump(cn)
		if err != nil {
			c.Stop()
			return
		}
		cn.Close()
		if _, err := c.CloseEmu(e.name, 15*time.Second); err != nil {
			r.Report("persist/close-failed", "Close() did not return: "+err.Error(), nil)
			c.Stop()
			return
		}
		files = p.files()
		c.Stop()
		c, e, cn, err = p.start()
		if err != nil {
			r.Report("persist/restart-failed/"+errClass(err), fmt.Sprintf("the emulator could not be restarted on its own snapshot (%s): %v", files, err), map[string]any{"history": quoteCmds(hist)})
			return
		}
		after, err := fullDump(cn)
		r.Eval(1)
		if err != nil {
			c.Stop()
			return
		}
		if d := dumpDiff(before, after); d != "" {
			r.Report("persist/round-trip/"+diffClass(d), fmt.Sprintf("generation %d: state after restart differs from the acknowledged state before shutdown (%s):\n%s", gen+1, files, d), map[string]any{"history": quoteCmds(hist)})
			break
		}
	}
	c.Stop()
	ndb := len(before)
	r.Distinct(fmt.Sprintf("round-trip/gens%d/dbs%d/keys%d", gens, ndb, countKeys(before)))
	if shard < 2 {
		r.Sample(map[string]any{"history_prefix": quoteCmds(hist[:min(10, len(hist))]), "databases": ndb, "keys": countKeys(before), "files": files})
	}
}

// c19Emptying: history tails that empty or flush databases in the ways that interact with the per-database
// "changed" flag: key-by-key deletion followed by a flush, flushes of already empty databases, flush then re-create.
func c19Emptying(rng *rand.Rand) [][]string {
	delAll := func() [][]string {
		var out [][]string
		for _, k := range c19Keys {
			out = append(out, []string{"DEL", k})
		}
		return append(out, []string{"DEL", "counter"})
	}
	switch rng.Intn(7) {
	case 0:
		return append(delAll(), []string{"FLUSHDB"})
	case 1:
		return append(delAll(), []string{"FLUSHALL"})
	case 2:
		return append(append([][]string{{"MULTI"}}, delAll()...), []string{"FLUSHDB"}, []string{"EXEC"})
	case 3:
		return [][]string{{"FLUSHDB"}, {"FLUSHDB"}, {"SELECT", "1"}, {"FLUSHALL"}, {"SELECT", "0"}}
	case 4:
		return [][]string{{"FLUSHALL"}, {"SET", "a", "again"}, {"DEL", "a"}}
	case 5:
		return append(delAll(), []string{"SELECT", "1"}, []string{"FLUSHDB"}, []string{"SELECT", "0"}, []string{"FLUSHDB"})
	}
	return nil
}

func errClass(err error) string {
	if strings.HasPrefix(err.Error(), "LOADCRASH") {
		return "loader-crash"
	}
	return "other"
}

func diffClass(d string) string {
	switch {
	case strings.Contains(d, "after (absent)"):
		return "key-lost"
	case strings.Contains(d, "before (absent)"):
		return "key-reappeared"
	case strings.Contains(d, "deadline="):
		// same value, different deadline?
		return "value-or-deadline-differs"
	}
	return "differs"
}

func countKeys(d map[int]map[string]string) int {
	n := 0
	for _, m := range d {
		n += len(m)
	}
	return n
}

// ---- 2./3. dirty gating: one mutating command after a completed save ---------------------------

var c19Base = [][]string{
	{"SET", "s", "10", "PXAT", "4102444800000"}, {"SET", "plain", "p"}, {"RPUSH", "l", "a", "b", "c"}, {"HSET", "h", "f", "1", "g", "2"}, {"SADD", "t", "m1", "m2"}, {"SADD", "t2", "m9"},
	{"RPUSH", "le", "x"}, {"EXPIRE", "le", "100000"}, {"SELECT", "2"}, {"SET", "in2", "v"}, {"SELECT", "0"},
}

var c19Mutators = [][]string{
	{"SET", "plain", "changed"}, {"APPEND", "plain", "+"}, {"SETRANGE", "plain", "0", "X"}, {"INCR", "s"}, {"INCRBYFLOAT", "s", "0.5"}, {"SETBIT", "plain", "1", "1"}, {"BITFIELD", "plain", "SET", "u8", "0", "65"},
	{"GETSET", "plain", "g"}, {"GETDEL", "plain"}, {"GETEX", "plain", "PXAT", "4102444800001"}, {"GETEX", "s", "PERSIST"}, {"MSET", "plain", "m", "new", "n"}, {"SETNX", "fresh", "v"},
	{"LPUSH", "l", "z"}, {"RPUSH", "l", "z"}, {"LPOP", "l"}, {"RPOP", "l"}, {"LSET", "l", "1", "SET"}, {"LINSERT", "l", "BEFORE", "b", "ins"}, {"LREM", "l", "0", "a"}, {"LTRIM", "l", "1", "1"},
	{"LMOVE", "l", "l2", "LEFT", "RIGHT"}, {"RPOPLPUSH", "l", "l"}, {"LMPOP", "1", "l", "LEFT"}, {"BLPOP", "l", "0.01"},
	{"HSET", "h", "f", "changed"}, {"HSET", "h", "newf", "v"}, {"HSETNX", "h", "nx", "v"}, {"HDEL", "h", "f"}, {"HINCRBY", "h", "f", "5"}, {"HINCRBYFLOAT", "h", "f", "0.5"}, {"HINCRBYFLOAT", "h", "newflt", "1.5"},
	{"SADD", "t", "m3"}, {"SREM", "t", "m1"}, {"SREM", "t2", "m9"}, {"SMOVE", "t", "t2", "m1"}, {"SUNIONSTORE", "t", "t", "t2"}, {"SDIFFSTORE", "t2", "t2", "t2"}, {"SINTERSTORE", "u", "t", "t"},
	{"DEL", "plain"}, {"DEL", "l", "h", "t"}, {"UNLINK", "h"}, {"RENAME", "plain", "renamed"}, {"RENAMENX", "plain", "renamed2"}, {"COPY", "h", "hcopy"},
	{"EXPIRE", "plain", "100000"}, {"PEXPIRE", "l", "100000000"}, {"EXPIREAT", "h", "4102444800"}, {"PEXPIREAT", "t", "4102444800000"}, {"PERSIST", "s"}, {"PERSIST", "le"}, {"EXPIRE", "plain", "-1"},
	{"BITOP", "NOT", "bo", "plain"}, {"SORT", "l", "ALPHA", "STORE", "sorted"}, {"FLUSHDB"}, {"FLUSHALL"},
}

func c19DirtyGating(r *verdict.Run, idx int, other bool) {
	mut := c19Mutators[idx]
	p := newC19Env(r)
	if p == nil {
		return
	}
	defer p.cleanup()
	c, e, cn, err := p.start()
	if err != nil {
		r.Inconclusive("infra: " + err.Error())
		return
	}
	for _, cmd := range c19Base {
		cn.Do(cmd...)
	}
	if !waitSaved(c) {
		r.Inconclusive("no periodic save pass observed (saveall hooks)")
		c.Stop()
		return
	}
	name := cmdTag(mut)
	if other {
		// the mutation happens in database 2 (created by SELECT), which has its own file
		cn.Do("SELECT", "2")
		mut = []string{"SET", "in2", "changed-in-db2"}
		if idx%3 == 1 {
			mut = []string{"DEL", "in2"}
		} else if idx%3 == 2 {
			mut = []string{"FLUSHDB"}
		}
		name = "db2/" + cmdTag(mut)
	}
	v, err := cn.Do(mut...)
	if err != nil {
		c.Stop()
		return
	}
	cn.Do("SELECT", "0")
	before, err := fullDump(cn)
	if err != nil {
		c.Stop()
		return
	}
	cn.Close()
	if _, err := c.CloseEmu(e.name, 15*time.Second); err != nil {
		r.Report("persist/close-failed", "Close() did not return: "+err.Error(), nil)
		c.Stop()
		return
	}
	files := p.files()
	c.Stop()
	c2, _, cn2, err := p.start()
	if err != nil {
		r.Report("persist/restart-failed/"+errClass(err), fmt.Sprintf("after %s: the emulator could not be restarted (%s): %v", cmdString(mut), files, err), nil)
		return
	}
	defer c2.Stop()
	after, err := fullDump(cn2)
	r.Eval(1)
	if err != nil {
		return
	}
	if d := dumpDiff(before, after); d != "" {
		r.Report("persist/change-after-save-lost/"+name, fmt.Sprintf("a periodic save had completed, then %s was acknowledged (%s), then Close(): after restart the change is missing (%s):\n%s", cmdString(mut), v, files, d), map[string]any{"base": quoteCmds(c19Base), "mutation": mut})
	}
	r.Distinct("dirty-gating/" + name)
}

// c19CloseWhileBusy: Close() while a command of another client is executing on the database (a transaction held between
// two of its commands, so that it owns the data store when the final save wants it). The writes acknowledged since
// the last periodic pass must be in the files whatever the saver finds the data store doing.
func c19CloseWhileBusy(r *verdict.Run, idx int) {
	p := newC19Env(r)
	if p == nil {
		return
	}
	defer p.cleanup()
	c, e, cn, err := p.start()
	if err != nil {
		r.Inconclusive("infra: " + err.Error())
		return
	}
	for _, cmd := range c19Base {
		cn.Do(cmd...)
	}
	db := []string{"0", "0", "3", "3"}[idx%4]
	cn.Do("SELECT", db)
	cn.Do("SET", "marker", "old")
	if !waitSaved(c) {
		r.Inconclusive("no periodic save pass observed (saveall hooks)")
		c.Stop()
		return
	}
	// acknowledged after the pass
	cn.Do("SET", "marker", "final")
	cn.Do("RPUSH", "tail", "t1", "t2")
	cn.Do("DEL", "s1")
	cn.Do("SELECT", "0")
	before, err := fullDump(cn)
	if err != nil {
		c.Stop()
		return
	}
	// another client's transaction owns the database while Close() runs
	w, err := newWaiter(e)
	if err != nil {
		c.Stop()
		return
	}
	w.cn.Do("SELECT", db)
	w.cn.Do("MULTI")
	w.cn.Do("GET", "marker")
	w.cn.Do("GET", "marker")
	s := &c11Scn{r: r, c: c, e: e, aux: cn, name: "close-while-busy"}
	tok, parked := s.parkAt(w, "exec:between-commands", []string{"EXEC"})
	if !parked {
		r.Inconclusive("hook point exec:between-commands not reached")
		c.Stop()
		return
	}
	done := make(chan error, 1)
	go func() { _, err := c.CloseEmu(e.name, 20*time.Second); done <- err }()
	time.Sleep(time.Duration(100+150*(idx%2)) * time.Millisecond)
	s.release(tok)
	if err := <-done; err != nil {
		r.Report("persist/close-failed", "Close() did not return while a transaction was executing: "+err.Error(), nil)
		c.Stop()
		return
	}
	files := p.files()
	w.cn.Close()
	cn.Close()
	c.Stop()
	c2, _, cn2, err := p.start()
	if err != nil {
		r.Report("persist/restart-failed/"+errClass(err), fmt.Sprintf("after Close() during a transaction: the emulator could not be restarted (%s): %v", files, err), nil)
		return
	}
	defer c2.Stop()
	after, err := fullDump(cn2)
	r.Eval(1)
	if err != nil {
		return
	}
	if d := dumpDiff(before, after); d != "" {
		r.Report("persist/final-save-skipped-while-database-busy", fmt.Sprintf("writes were acknowledged in database %s after the last periodic pass, then Close() ran while another client's EXEC owned that database: after restart they are missing (%s):\n%s", db, files, d), map[string]any{"script": s.log})
	}
	r.Distinct("close-while-busy/db" + db)
}

// ---- 4. crash atomicity -------------------------------------------------------------------------------

func c19Crash(r *verdict.Run, shard int, final bool) {
	rng := shardRng(r, 7000+shard)
	nkeys := 1 + shard%8
	var s0cmds, s1cmds [][]string
	for i := 0; i < nkeys; i++ {
		k := fmt.Sprintf("k%d", i)
		switch i % 4 {
		case 0:
			s0cmds = append(s0cmds, []string{"SET", k, "old" + strconv.Itoa(i)})
			s1cmds = append(s1cmds, []string{"SET", k, "new" + strconv.Itoa(i)})
		case 1:
			s0cmds = append(s0cmds, []string{"RPUSH", k, "o1", "o2"})
			s1cmds = append(s1cmds, []string{"RPUSH", k, "n3"})
		case 2:
			s0cmds = append(s0cmds, []string{"HSET", k, "f", "old"})
			s1cmds = append(s1cmds, []string{"HSET", k, "f", "new", "g", "added"})
		case 3:
			s0cmds = append(s0cmds, []string{"SADD", k, "old"})
			s1cmds = append(s1cmds, []string{"SADD", k, "new"})
		}
	}
	if shard%3 == 0 {
		s0cmds = append(s0cmds, []string{"SELECT", "1"}, []string{"SET", "other-db", "old"}, []string{"SELECT", "0"})
		s1cmds = append(s1cmds, []string{"SELECT", "1"}, []string{"SET", "other-db", "new"}, []string{"SELECT", "0"})
	}
	if shard%3 == 1 {
		// the interrupted pass writes the very first snapshot of a database (1), while databases whose files sort
		// before (0) and after it (10, 2) have snapshots from the previous pass and are not touched
		s0cmds = append(s0cmds, []string{"SELECT", "2"}, []string{"SET", "later-db", "kept"}, []string{"SELECT", "10"}, []string{"RPUSH", "later-list", "a", "b"}, []string{"SELECT", "0"})
		s1cmds = append(s1cmds, []string{"SELECT", "1"}, []string{"SET", "first-snapshot-of-this-db", "new"}, []string{"SELECT", "0"})
	}
	// stages of one save pass: for each dirty file: created, header, key x n, before-close
	type stage struct {
		point string
		nth   int
	}
	var stages []stage
	files := 1
	if shard%3 == 0 || shard%3 == 1 {
		files = 2
	}
	for f := 1; f <= files; f++ {
		stages = append(stages, stage{"save:created", f}, stage{"save:header", f}, stage{"save:before-close", f})
	}
	total := nkeys
	if files == 2 {
		total++
	}
	for k := 1; k <= total; k++ {
		stages = append(stages, stage{"save:key", k})
	}
	_ = rng
	for _, st := range stages {
		p := newC19Env(r)
		if p == nil {
			return
		}
		c, e, cn, err := p.start()
		if err != nil {
			r.Inconclusive("infra: " + err.Error())
			p.cleanup()
			return
		}
		for _, cmd := range s0cmds {
			cn.Do(cmd...)
		}
		if !waitSaved(c) {
			r.Inconclusive("no periodic save pass observed (saveall hooks)")
			c.Stop()
			p.cleanup()
			return
		}
		s0, _ := fullDump(cn)
		// arm the crash, then make the store dirty; the next save pass dies at the chosen stage
		c.Ctl("crashat %s %d", st.point, st.nth)
		for _, cmd := range s1cmds {
			cn.Do(cmd...)
		}
		s1, err := fullDump(cn)
		if err != nil {
			// the periodic save may already have killed the process: s1 is then derived below
			s1 = nil
		}
		if final && c.Alive() {
			go c.Do(5*time.Second, "close %s", e.name) // the final save of Close() runs into the crash point
		}
		if !c.WaitExit(4 * time.Second) {
			// the stage does not exist in this pass (e.g. fewer keys written): not a fault, skip
			c.Stop()
			p.cleanup()
			r.Count("crash_stages_not_reached", 1)
			continue
		}
		filesNow := p.files()
		cn.Close()
		c.Stop()
		c2, _, cn2, err := p.start()
		r.Eval(1)
		key := fmt.Sprintf("%s#%d/keys%d/files%d", st.point, st.nth, nkeys, files)
		rep := map[string]any{"state_before": quoteCmds(s0cmds), "writes_before_crash": quoteCmds(s1cmds), "crash_stage": st.point, "occurrence": st.nth, "files_after_crash": filesNow}
		if err != nil {
			r.Report("persist/crash/restart-failed/"+errClass(err)+"/"+st.point, fmt.Sprintf("%s: after a crash at this stage the emulator cannot load its files (%s): %v", key, filesNow, err), rep)
			p.cleanup()
			continue
		}
		after, err := fullDump(cn2)
		if err == nil {
			// every database must equal its snapshot before or after the interrupted save
			for db := 0; db < 16; db++ {
				a := fmt.Sprint(after[db])
				okOld := a == fmt.Sprint(s0[db])
				okNew := s1 != nil && a == fmt.Sprint(s1[db])
				if s1 == nil {
					okNew = len(after[db]) > 0 && !okOld // cannot tell: accept a non-empty consistent-looking state? no: compare per key below
				}
				if !okOld && !okNew {
					cls := "mixed-or-partial"
					if len(after[db]) == 0 {
						cls = "empty"
					}
					r.Report("persist/crash/"+cls+"/"+st.point, fmt.Sprintf("%s: database %d after the crash is neither the previous snapshot nor the new one (%s):\n loaded: %v\n previous: %v\n new: %v", key, db, filesNow, after[db], s0[db], s1[db]), rep)
					break
				}
			}
		}
		r.Distinct("crash/" + key)
		c2.Stop()
		p.cleanup()
	}
}

func checkC19(r *verdict.Run) {
	r.Rule = "each case runs the emulator in a child process on a persist path in a scratch directory and restarts it in a new child: (1) round trips over random histories (all types, binary keys/values, deadlines, several databases, in-place changes, deletions, flushes): full dump of all 16 databases (types, values, order, absolute deadlines) before Close() = after restart; " +
		"(2) dirty gating: after a completed periodic save (saveall hooks) exactly one mutating command (each of " + strconv.Itoa(len(c19Mutators)) + " writers, plus writes in another database) then Close() and restart: the change must be there; " +
		"(3) crash atomicity: the child is SIGKILLed by the save hooks at every stage of a snapshot write (file created, header, each key, before close) of the periodic and the final save for 1-8 keys in 1-2 databases: the restarted emulator must load, and every database must equal its previous or its new snapshot; " +
		"(4) write errors: the emulator runs under strace, which fails write(2) on the snapshot's temporary file with ENOSPC (every write, from the 2nd/4th/7th on, or once, counted per thread): the process must stay alive and keep serving the acknowledged state, an attempt that did not reach save:done must leave the previous snapshot byte-identical, every later pass must retry while the change is unsaved, and the restart (without faults) loads the new state iff an attempt completed, else exactly the previous one. " +
		"distinct = round-trip shapes + mutators + crash stages + write-error variants"
	nrt := tierPick(r, 12, 300)
	parallel(nrt, 16, func(i int) { c19RoundTrip(r, i) })
	muts := len(c19Mutators)
	sel := make([]int, 0, muts)
	for i := 0; i < muts; i++ {
		// every mutator in both tiers: one writer that forgets to mark the store dirty is exactly what this part is for
		sel = append(sel, i)
	}
	parallel(len(sel), 16, func(i int) { c19DirtyGating(r, sel[i], false) })
	parallel(3, 3, func(i int) { c19DirtyGating(r, i, true) })
	parallel(4, 4, func(i int) { c19CloseWhileBusy(r, i) })
	ncrash := tierPick(r, 8, 16) // 8 = every key count 1..8 once; the stages of each are enumerated completely
	parallel(ncrash, 8, func(i int) { c19Crash(r, i+int(r.Seed)%8, i%4 == 3) })
	nwe := tierPick(r, 6, 30)
	parallel(nwe, 6, func(i int) { c19WriteError(r, i+int(r.Seed)) })
	r.Assume("fault model: process death (SIGKILL) at the hooked stages of a snapshot write, and write(2) on the snapshot's temporary file failing with ENOSPC (injected by strace, counted per thread); power loss (page cache, rename durability) is out of scope")
}

// ---- 5. write errors ------------------------------------------------------------------------------------

// c19WriteError: a save is interrupted by an I/O error instead of the death of the process. The emulator runs under
// strace, which makes write(2) on the snapshot's temporary file fail with ENOSPC (from the k-th write of each thread
// on, or exactly once per thread). Oracle, from hook events and the files only: the emulator stays alive and serves its
// in-memory state; a save attempt that did not reach save:done must leave the previous snapshot loadable and
// unchanged; while the store is dirty and the last attempt failed, every later save pass must try again; the restart
// loads the new state iff some attempt after the writes reached save:done, else exactly the previous one.
func c19WriteError(r *verdict.Run, idx int) {
	if _, err := exec.LookPath("strace"); err != nil {
		r.Count("write_error_cases_skipped_no_strace", 1)
		return
	}
	type variant struct {
		name string
		when string
	}
	variants := []variant{{"every-write", "1+"}, {"from-2nd", "2+"}, {"from-4th", "4+"}, {"once-1st", "1"}, {"once-3rd", "3"}, {"from-7th", "7+"}}
	v := variants[idx%len(variants)]
	nkeys := 2 + (idx/len(variants))%5
	p := newC19Env(r)
	if p == nil {
		return
	}
	defer p.cleanup()
	var s0cmds, s1cmds [][]string
	for i := 0; i < nkeys; i++ {
		k := fmt.Sprintf("k%d", i)
		switch i % 4 {
		case 0:
			s0cmds = append(s0cmds, []string{"SET", k, "old" + strconv.Itoa(i)})
			s1cmds = append(s1cmds, []string{"SET", k, "new" + strconv.Itoa(i)})
		case 1:
			s0cmds = append(s0cmds, []string{"RPUSH", k, "o1", "o2"})
			s1cmds = append(s1cmds, []string{"RPUSH", k, "n3"})
		case 2:
			s0cmds = append(s0cmds, []string{"HSET", k, "f", "old"})
			s1cmds = append(s1cmds, []string{"HSET", k, "f", "new", "g", "added"})
		case 3:
			s0cmds = append(s0cmds, []string{"SADD", k, "old"})
			s1cmds = append(s1cmds, []string{"DEL", k})
		}
	}
	key := fmt.Sprintf("%s/keys%d", v.name, nkeys)
	rep := map[string]any{"state_before": quoteCmds(s0cmds), "writes": quoteCmds(s1cmds), "injection": "write(2) on " + filepath.Base(p.base) + ".db0.tmp fails with ENOSPC, when=" + v.when + " (per thread)"}
	// phase A: the previous snapshot, written without faults
	c, e, cn, err := p.start()
	if err != nil {
		r.Inconclusive("infra: " + err.Error())
		return
	}
	for _, cmd := range s0cmds {
		cn.Do(cmd...)
	}
	s0, err := fullDump(cn)
	cn.Close()
	if _, err2 := c.CloseEmu(e.name, 15*time.Second); err != nil || err2 != nil {
		c.Stop()
		r.Inconclusive("infra: phase A did not complete")
		return
	}
	c.Stop()
	prevFile, _ := os.ReadFile(p.base + ".db0")
	// phase B: the same path under the injector
	straceLog := filepath.Join(p.dir, "strace.log")
	p.wrap = []string{"strace", "-f", "-qq", "-o", straceLog, "-e", "trace=write", "-e", "inject=write:error=ENOSPC:when=" + v.when, "-P", p.base + ".db0.tmp"}
	c, e, cn, err = p.start()
	p.wrap = nil
	if err != nil {
		r.Inconclusive("infra: cannot start the emulator under strace: " + err.Error())
		return
	}
	defer func() { c.Stop() }()
	c.Ctl("watch save")
	for _, cmd := range s1cmds {
		cn.Do(cmd...)
	}
	tWrites := c.EventCount()
	s1, err := fullDump(cn)
	if err != nil {
		r.Report("persist/write-error/unresponsive", key+": the state cannot be read after the writes: "+err.Error(), rep)
		return
	}
	// observe save passes: per pass, was an attempt made (save:created) and did it complete (save:done)?
	// (a pass whose save fails ends without saveall:done, so passes are delimited by saveall:begin)
	type pass struct{ attempted, done bool }
	var passes []pass
	succeeded := false
	c.WaitEvent(tWrites, func() func(host.Event) bool {
		begins := 0
		return func(e host.Event) bool {
			if e.Kind == "hit" && e.Point == "saveall:begin" {
				begins++
			}
			return begins >= 6 || (e.Kind == "hit" && e.Point == "save:done")
		}
	}(), 9*time.Second)
	time.Sleep(200 * time.Millisecond)
	evs := c.EventsSince(tWrites)
	for k, ev := range evs {
		if ev.Kind != "hit" {
			continue
		}
		switch ev.Point {
		case "saveall:begin":
			// the last pass counts only when it is known to be over
			over := false
			for _, later := range evs[k+1:] {
				if later.Kind == "hit" && (later.Point == "saveall:begin" || later.Point == "saveall:done") {
					over = true
				}
			}
			if !over {
				break
			}
			passes = append(passes, pass{})
		case "save:created":
			if len(passes) > 0 {
				passes[len(passes)-1].attempted = true
			}
		case "save:done":
			if len(passes) > 0 {
				passes[len(passes)-1].done = true
				succeeded = true
			}
		}
	}
	if len(passes) == 0 {
		var evs []string
		for _, ev := range c.EventsSince(tWrites) {
			evs = append(evs, ev.Kind+":"+ev.Point)
		}
		r.Inconclusive(fmt.Sprintf("no periodic save pass observed under strace (%s; alive=%v; events=%v; stderr=%s)", key, c.Alive(), evs, headLines(c.StderrHead(600), 6)))
		return
	}
	if !c.Alive() {
		r.Report("persist/write-error/process-died", fmt.Sprintf("%s: the emulator process ended after a failed snapshot write:\n%s", key, headLines(c.StderrHead(3000), 20)), rep)
		return
	}
	// the emulator must keep serving its in-memory state
	mem, err := fullDump(cn)
	if err != nil || fmt.Sprint(mem) != fmt.Sprint(s1) {
		r.Report("persist/write-error/memory-state-changed", fmt.Sprintf("%s: after failed snapshot writes the served state differs from the acknowledged one (%v)", key, err), rep)
		return
	}
	// retry: a pass after a failed attempt (nothing succeeded since, store still dirty) must attempt again
	for i := 1; i < len(passes); i++ {
		if !passes[i].attempted && !succeeded {
			r.Report("persist/write-error/failed-save-not-retried", fmt.Sprintf("%s: save pass %d made no attempt although the previous attempt had failed and the changes are unsaved (passes: %+v)", key, i+1, passes), rep)
			return
		}
	}
	if !passes[0].attempted {
		r.Report("persist/write-error/dirty-store-not-saved", fmt.Sprintf("%s: the first save pass after the writes made no attempt (passes: %+v)", key, passes), rep)
		return
	}
	if !succeeded {
		// every attempt failed: the previous snapshot must be untouched on disk, right now
		if now, _ := os.ReadFile(p.base + ".db0"); !bytes.Equal(now, prevFile) {
			r.Report("persist/write-error/previous-snapshot-damaged", fmt.Sprintf("%s: no save attempt completed, yet the snapshot file changed (%d -> %d bytes; files: %s)", key, len(prevFile), len(now), p.files()), rep)
			return
		}
	}
	cn.Close()
	doneBefore := 0
	for _, ev := range c.EventsSince(tWrites) {
		if ev.Kind == "hit" && ev.Point == "save:done" {
			doneBefore++
		}
	}
	c.CloseEmu(e.name, 15*time.Second) // the final save runs under the injector too
	doneAfter := 0
	for _, ev := range c.EventsSince(tWrites) {
		if ev.Kind == "hit" && ev.Point == "save:done" {
			doneAfter++
		}
	}
	files := p.files()
	c.Stop()
	injected := 0
	if b, err := os.ReadFile(straceLog); err == nil {
		injected = strings.Count(string(b), "(INJECTED)")
	}
	r.Count("injected_write_errors", int64(injected))
	if injected == 0 {
		r.Inconclusive("strace injected no write error (" + key + ")")
		return
	}
	// phase C: restart without faults
	c2, _, cn2, err := p.start()
	r.Eval(1)
	if err != nil {
		r.Report("persist/write-error/restart-failed/"+errClass(err), fmt.Sprintf("%s: after failed snapshot writes the emulator cannot load its files (%s): %v", key, files, err), rep)
		return
	}
	defer c2.Stop()
	after, err := fullDump(cn2)
	if err != nil {
		return
	}
	want, which := s0, "previous"
	if doneAfter > 0 {
		want, which = s1, "new"
	}
	if fmt.Sprint(after) != fmt.Sprint(want) {
		other := "neither the previous nor the new state"
		if fmt.Sprint(after) == fmt.Sprint(s0) {
			other = "the previous state"
		} else if fmt.Sprint(after) == fmt.Sprint(s1) {
			other = "the new state"
		}
		r.Report("persist/write-error/wrong-snapshot-loaded", fmt.Sprintf("%s: %d save attempts completed after the writes (%d before Close), so the restart must load the %s state, but it loaded %s (files: %s; %d injected errors)\n loaded: %v", key, doneAfter, doneBefore, which, other, files, injected, after[0]), rep)
	}
	r.Distinct(fmt.Sprintf("write-error/%s/restart-loads-%s", key, which))
}
