package main

import (
	"fmt"
	"net"
	"os"
	"strconv"
	"strings"
	"sync"
	"sync/atomic"
	"time"

	"verif/harness/host"
	"verif/harness/resp"
	"verif/harness/verdict"
	"verif/harness/wire"
)

func init() { register("C20", "exploration", checkC20) }

type lifeClient struct {
	kind string
	cn   *wire.Conn
	id   int64
	// pollers: closed when the polling goroutine has seen the connection end; served counts its answered commands
	ended  chan struct{}
	served atomic.Int64
}

// afterClose: what a pre-existing connection experiences on its next request after Close() returned.
func probeDead(cn *wire.Conn, args ...string) (alive bool, what string) {
	cn.Timeout = 2 * time.Second
	if err := cn.SendCmd(args...); err != nil {
		return false, "write failed: " + err.Error()
	}
	v, _, err := cn.ReadValue(2 * time.Second)
	if err != nil {
		if err == wire.ErrTimeout {
			return false, "no reply (timeout), connection still open"
		}
		return false, "closed: " + err.Error()
	}
	return true, v.String()
}

func c20Termination(r *verdict.Run, race bool) {
	scenarios := []string{"idle", "half-command", "pipeline-in-flight", "in-multi", "blocked-forever", "blocked-10s", "many-connections", "mixture", "no-clients", "close-api", "reqterm-then-wait",
		// clients of every kind that went away before the termination (orderly close, reset, half-close), alone or next to live ones
		"departed-close", "departed-rst", "departed-half-close", "departed-and-live", "departed-blocked-rst",
		// clients whose blocking command has been dispatched but does not count as blocked yet when the termination starts
		"about-to-block",
		// clients that do not read their (large) replies: still connected, or gone by reset while the emulator was writing
		"stalled-reader", "stalled-reader-rst",
		// many idle clients plus clients that keep asking for INFO / CLIENT LIST / CLIENT INFO / DBSIZE and keep connecting
		// and disconnecting while the termination runs (the commands that look at the client table and the statistics)
		"busy-introspection",
		// clients that connect at the very moment of the termination (a storm of connection attempts while Close() runs):
		// whichever of them got as far as being served must be closed like everybody else
		"connect-storm"}
	parallel(len(scenarios), 6, func(i int) {
		sc := scenarios[i]
		c, err := startChild(race)
		if err != nil {
			r.Inconclusive("cannot start child")
			return
		}
		defer func() {
			if race {
				c.QuitGracefully()
				for _, rep := range c.RaceReports() {
					r.Report("race/"+rep.Sig, "race detector report during the termination scenarios:\n"+headLines(rep.Text, 40), nil)
				}
				os_RemoveAll(c.Dir)
			} else {
				c.Stop()
			}
		}()
		e, err := startEmu(c, "")
		if err != nil {
			r.Inconclusive("infra: " + err.Error())
			return
		}
		var log []string
		var clients []*lifeClient
		add := func(kind string) *lifeClient {
			cn, err := e.dial()
			if err != nil {
				return nil
			}
			cn.Proto = 3
			lc := &lifeClient{kind: kind, cn: cn}
			lc.id, _ = cn.ClientID()
			clients = append(clients, lc)
			return lc
		}
		setup, _ := e.dial()
		setup.Do("SET", "secret", "data-before-close")
		setup.Do("SET", "big", strings.Repeat("B", 1<<20))
		setup.Close()
		mk := func(kind string) {
			lc := add(kind)
			if lc == nil {
				return
			}
			switch kind {
			case "idle":
				lc.cn.Do("PING")
			case "half-command":
				lc.cn.Send([]byte("*2\r\n$3\r\nGET\r\n$6\r\nsec"))
			case "pipeline-in-flight":
				var b []byte
				for j := 0; j < 200; j++ {
					b = append(b, resp.Cmd("INCR", "pipe-counter")...)
				}
				lc.cn.Send(b)
			case "in-multi":
				lc.cn.Pipeline([][]string{{"MULTI"}, {"SET", "from-multi", "1"}, {"INCR", "x"}})
			case "stalled-reader":
				// 48 replies of 1 MiB each that the client never reads: the emulator ends up blocked in a socket write
				var b []byte
				for j := 0; j < 48; j++ {
					b = append(b, resp.Cmd("GET", "big")...)
				}
				lc.cn.Send(b)
			case "poller":
				lc.ended = make(chan struct{})
				go func(n int) {
					defer close(lc.ended)
					lc.cn.Timeout = 3 * time.Second
					for i := 0; ; i++ {
						var err error
						switch (i + n) % 5 {
						case 0:
							_, err = lc.cn.Do("INFO")
						case 1:
							_, err = lc.cn.Do("CLIENT", "LIST")
						case 2:
							_, err = lc.cn.Do("CLIENT", "INFO")
						case 3:
							_, err = lc.cn.Do("DBSIZE")
						case 4:
							// connection churn next to the polling
							if tmp, e2 := wire.Dial(e.port); e2 == nil {
								tmp.Timeout = time.Second
								tmp.Do("INFO", "clients")
								tmp.Close()
							}
							_, err = lc.cn.Do("INFO", "stats")
						}
						if err != nil {
							return
						}
						lc.served.Add(1)
					}
				}(len(clients))
			case "blocked-forever":
				lc.cn.SendCmd("BLPOP", "never-pushed", "0")
			case "blocked-10s":
				lc.cn.SendCmd("BRPOP", "never-pushed", "10")
			}
		}
		switch sc {
		case "many-connections":
			for j := 0; j < 200; j++ {
				mk([]string{"idle", "in-multi", "blocked-forever"}[j%3])
			}
		case "mixture":
			for _, k := range []string{"idle", "half-command", "pipeline-in-flight", "in-multi", "blocked-forever", "blocked-10s"} {
				mk(k)
				mk(k)
			}
		case "departed-close", "departed-rst", "departed-half-close", "departed-and-live":
			for _, k := range []string{"idle", "half-command", "pipeline-in-flight", "in-multi", "blocked-forever", "blocked-10s"} {
				mk(k)
				mk(k)
			}
		case "departed-blocked-rst":
			for j := 0; j < 4; j++ {
				mk("blocked-forever")
			}
		case "stalled-reader", "stalled-reader-rst":
			for j := 0; j < 3; j++ {
				mk("stalled-reader")
			}
			mk("idle")
			time.Sleep(300 * time.Millisecond) // the socket buffers fill up, the writes block
		case "about-to-block":
			c.Ctl("park blk:before-begin -1")
			from := c.EventCount()
			for j := 0; j < 3; j++ {
				mk("blocked-forever")
			}
			for j := 0; j < 3; j++ {
				c.WaitEvent(from, func() func(host.Event) bool {
					n := 0
					return func(ev host.Event) bool {
						if ev.Kind == "parked" && ev.Point == "blk:before-begin" {
							n++
						}
						return n >= 3
					}
				}(), 3*time.Second)
			}
		case "busy-introspection":
			for j := 0; j < 150; j++ {
				mk("idle")
			}
			for j := 0; j < 8; j++ {
				mk("poller")
			}
		case "no-clients", "close-api", "reqterm-then-wait":
			mk("idle")
		default:
			for j := 0; j < 3; j++ {
				mk(sc)
			}
		}
		time.Sleep(50 * time.Millisecond) // let blocking commands block, pipelines start
		if sc == "stalled-reader-rst" {
			var live []*lifeClient
			for _, lc := range clients {
				if lc.kind == "stalled-reader" {
					lc.cn.CloseRST()
				} else {
					live = append(live, lc)
				}
			}
			clients = live
			time.Sleep(200 * time.Millisecond) // the blocked writes fail
		}
		if strings.HasPrefix(sc, "departed-") {
			var live []*lifeClient
			for j, lc := range clients {
				switch {
				case sc == "departed-close":
					lc.cn.Close()
				case sc == "departed-rst", sc == "departed-blocked-rst":
					lc.cn.CloseRST()
				case sc == "departed-half-close":
					lc.cn.CloseWrite()
					live = append(live, lc) // still readable: probed like the others
				case j%2 == 0:
					lc.cn.CloseRST()
				default:
					live = append(live, lc)
				}
			}
			departed := len(clients) - len(live)
			if sc == "departed-half-close" {
				departed = len(clients)
			}
			clients = live
			log = append(log, fmt.Sprintf("%d clients went away (%s) before the termination", departed, sc))
			time.Sleep(100 * time.Millisecond) // the emulator notices (or not) before it is closed
		}
		log = append(log, fmt.Sprintf("%d clients of kinds for scenario %s", len(clients), sc))
		var stormStop atomic.Bool
		var stormWg sync.WaitGroup
		var stormMu sync.Mutex
		var stormConns []*wire.Conn
		var stormAttempts atomic.Int64
		if sc == "connect-storm" {
			for g := 0; g < 12; g++ {
				stormWg.Add(1)
				go func() {
					defer stormWg.Done()
					for !stormStop.Load() {
						stormAttempts.Add(1)
						nc, err := net.DialTimeout("tcp", fmt.Sprintf("127.0.0.1:%d", e.port), 200*time.Millisecond)
						if err != nil {
							continue
						}
						cn := &wire.Conn{C: nc, Proto: 2, Timeout: 500 * time.Millisecond, Port: e.port}
						if v, err := cn.Do("PING"); err == nil && v.Text() == "PONG" {
							stormMu.Lock()
							stormConns = append(stormConns, cn)
							stormMu.Unlock()
						} else {
							cn.Close()
						}
					}
				}()
			}
			time.Sleep(30 * time.Millisecond)
		}
		// terminate
		t0 := time.Now()
		var termErr error
		if sc == "reqterm-then-wait" {
			if _, termErr = c.Do(6*time.Second, "reqterm %s", e.name); termErr == nil {
				_, termErr = c.Do(6*time.Second, "waitterm %s", e.name)
			}
		} else {
			_, termErr = c.Do(6*time.Second, "close %s", e.name)
		}
		took := time.Since(t0)
		if sc == "connect-storm" {
			time.Sleep(20 * time.Millisecond)
			stormStop.Store(true)
			stormWg.Wait()
			stormMu.Lock()
			// the connections that were served at some point are probed like the pre-existing ones (the most recent 400)
			if len(stormConns) > 400 {
				for _, cn := range stormConns[:len(stormConns)-400] {
					cn.Close()
				}
				stormConns = stormConns[len(stormConns)-400:]
			}
			for _, cn := range stormConns {
				clients = append(clients, &lifeClient{kind: "idle", cn: cn})
			}
			stormMu.Unlock()
			r.Count("connect_storm_attempts", stormAttempts.Load())
			r.Count("connect_storm_connections_served", int64(len(stormConns)))
		}
		r.Eval(1)
		rep := map[string]any{"scenario": sc, "clients": len(clients), "close_took_ms": took.Milliseconds()}
		if termErr != nil {
			dump := ""
			if c.Alive() {
				dump = c16Busy(c.SigQuitDump())
			}
			r.Report("life/close-does-not-return/"+sc, fmt.Sprintf("scenario %s: Close()/WaitForTermination did not return within 6 s (%v) with %d clients connected\n%s", sc, termErr, len(clients), dump), rep)
			return
		}
		log = append(log, fmt.Sprintf("Close returned after %v", took))
		if sc == "about-to-block" {
			c.Ctl("releaseall") // the parked commands go on only now, after the termination
		}
		// from now on no previously connected client may read or modify data
		survivors, wrote := 0, 0
		var examples []string
		for _, lc := range clients {
			var alive bool
			var what string
			switch lc.kind {
			case "half-command":
				lc.cn.Send([]byte("ret\r\n")) // completes GET secret
				v, _, err := lc.cn.ReadValue(2 * time.Second)
				alive, what = err == nil, v.String()
				if err != nil {
					what = err.Error()
				}
			case "poller":
				// its polling loop ends when the connection does
				select {
				case <-lc.ended:
					alive, what = false, "ended"
				case <-time.After(4 * time.Second):
					alive, what = true, fmt.Sprintf("still polling after Close() (%d commands answered so far)", lc.served.Load())
				}
			case "in-multi":
				alive, what = probeDead(lc.cn, "EXEC")
			case "blocked-forever", "blocked-10s":
				// its own pending reply first (must not be a normal one), then a fresh request
				lc.cn.Timeout = time.Second
				v, _, err := lc.cn.ReadValue(time.Second)
				if err == nil && v.Null {
					// the aborted block may be answered with a null reply (no data); the connection must be dead afterwards
					alive, what = probeDead(lc.cn, "GET", "secret")
				} else if err == nil {
					alive, what = true, "blocked command completed normally with "+v.String()
				} else if err == wire.ErrTimeout {
					alive, what = probeDead(lc.cn, "GET", "secret")
					if !alive && strings.Contains(what, "timeout") {
						alive, what = true, "connection still open and blocked after Close()"
					}
				} else {
					alive, what = false, err.Error()
				}
			default:
				// drain whatever was legitimately answered before Close, then probe
				lc.cn.Timeout = 300 * time.Millisecond
				for {
					if _, _, err := lc.cn.ReadValue(300 * time.Millisecond); err != nil {
						break
					}
				}
				alive, what = probeDead(lc.cn, "GET", "secret")
			}
			if alive {
				survivors++
				if len(examples) < 4 {
					examples = append(examples, fmt.Sprintf("%s client %d: %s", lc.kind, lc.id, what))
				}
				// can it still modify data?
				if ok, _ := probeDead(lc.cn, "SET", "written-after-close", "1"); ok {
					wrote++
				}
			}
			lc.cn.Close()
		}
		if survivors > 0 {
			r.Report("life/connections-survive-close/"+sc, fmt.Sprintf("scenario %s: after Close() returned, %d of %d previously connected clients were still served (%d could still write), e.g. %v", sc, survivors, len(clients), wrote, examples), rep)
		}
		// new connections are refused (the port is released)
		if cn, err := wire.Dial(e.port); err == nil {
			v, err2 := cn.Do("PING")
			if err2 == nil {
				r.Report("life/new-connection-served-after-close/"+sc, fmt.Sprintf("scenario %s: a connection opened after Close() was served: %s", sc, v), rep)
			}
			cn.Close()
		}
		// termination is complete only when the emulator's goroutines are gone (connections, blocked commands, saver)
		if !race {
			left, tops := -1, ""
			for t := time.Now(); time.Since(t) < 3*time.Second; time.Sleep(20 * time.Millisecond) {
				out, err := c.Do(5*time.Second, "emugoroutines")
				if err != nil {
					break
				}
				f := strings.SplitN(strings.TrimPrefix(out, "ok "), " ", 2)
				left, _ = strconv.Atoi(f[0])
				if len(f) > 1 {
					tops = f[1]
				}
				if left == 0 {
					break
				}
			}
			r.Count("goroutine_leak_checks", 1)
			if left > 0 {
				r.Report("life/goroutines-left-after-close/"+sc, fmt.Sprintf("scenario %s: 3 s after Close() returned and every client connection was closed, %d goroutines of the emulator are still alive: %s", sc, left, tops), rep)
			}
		}
		r.Distinct(fmt.Sprintf("termination/%s/survivors=%v", sc, survivors > 0))
	})
}

// c20PortReuse: stop and immediately restart on the same port in the same process.
func c20PortReuse(r *verdict.Run, cycles int) {
	c, err := startChild(false)
	if err != nil {
		r.Inconclusive("cannot start child")
		return
	}
	defer c.Stop()
	port, err := host.FreePort()
	if err != nil {
		r.Inconclusive("no port")
		return
	}
	var old []*wire.Conn
	for cyc := 0; cyc < cycles; cyc++ {
		name := fmt.Sprintf("reuse%d", cyc)
		if err := c.StartEmuOn(name, port, ""); err != nil {
			if !c.Alive() && strings.Contains(c.StdoutTail(2000), "Error listening") {
				r.Report("life/port-not-released", fmt.Sprintf("cycle %d: a new emulator could not listen on port %d right after Close() of its predecessor: %s", cyc, port, strings.TrimSpace(c.StdoutTail(300))), map[string]any{"cycle": cyc})
			} else {
				r.Report("life/restart-failed", fmt.Sprintf("cycle %d: %v", cyc, err), nil)
			}
			return
		}
		e := &emu{c, name, port}
		cn, err := e.dial()
		if err != nil {
			r.Report("life/restart-not-serving", fmt.Sprintf("cycle %d: %v", cyc, err), nil)
			return
		}
		cn.Timeout = 5 * time.Second
		// without a persist path the new emulator starts empty, in all 16 databases
		total := int64(0)
		var found []string
		for db := 0; db < 16; db++ {
			cn.Do("SELECT", strconv.Itoa(db))
			v, err := cn.Do("KEYS", "*")
			if err != nil {
				r.Report("life/restart-not-serving", fmt.Sprintf("cycle %d: %v", cyc, err), nil)
				return
			}
			total += int64(len(v.Elems))
			for _, k := range v.Elems {
				found = append(found, fmt.Sprintf("db%d:%s", db, k.Text()))
			}
		}
		r.Eval(1)
		if total != 0 {
			r.Report("life/restart-not-empty", fmt.Sprintf("cycle %d: the emulator started without a persist path on the reused port holds %d keys %v written through its predecessor", cyc, total, found), map[string]any{"cycle": cyc})
			return
		}
		cn.Do("SELECT", strconv.Itoa(cyc%16))
		cn.Do("SET", fmt.Sprintf("key-of-cycle-%d", cyc), "v")
		cn.Do("RPUSH", "list", "e")
		// predecessor connections that are still open keep issuing writes
		for _, o := range old {
			o.Timeout = 200 * time.Millisecond
			o.Do("SET", "zombie-write", "x")
		}
		old = append(old, cn)
		if len(old) > 3 {
			old[0].Close()
			old = old[1:]
		}
		if _, err := c.Do(6*time.Second, "close %s", name); err != nil {
			dump := ""
			if c.Alive() {
				full := c.SigQuitDump()
				dump = c16Busy(full) + "\n--- waiting goroutines of the emulator ---\n" + c20Waiting(full)
			}
			r.Report("life/close-does-not-return/port-reuse", fmt.Sprintf("cycle %d: %v\n%s", cyc, err, dump), nil)
			return
		}
		c.Ctl("forget %s", name)
		r.Distinct(fmt.Sprintf("port-reuse/db%d", cyc%16))
	}
	r.Count("port_reuse_cycles", int64(cycles))
}

// c20MultiInstance: two emulators in one process must not affect each other's clients or data.
func c20MultiInstance(r *verdict.Run, race bool) {
	c, err := startChild(race)
	if err != nil {
		r.Inconclusive("cannot start child")
		return
	}
	defer func() {
		if race {
			c.QuitGracefully()
			for _, rep := range c.RaceReports() {
				r.Report("race/"+rep.Sig, "race detector report during the multi-instance scenarios:\n"+headLines(rep.Text, 40), nil)
			}
			os_RemoveAll(c.Dir)
		} else {
			c.Stop()
		}
	}()
	X, err := startEmu(c, "")
	if err != nil {
		r.Inconclusive("infra: " + err.Error())
		return
	}
	Y, err := startEmu(c, "")
	if err != nil {
		r.Inconclusive("infra: " + err.Error())
		return
	}
	x1, _ := X.dial()
	x2, _ := X.dial()
	y1, _ := Y.dial()
	y2, _ := Y.dial()
	for _, cn := range []*wire.Conn{x1, x2, y1, y2} {
		cn.Timeout = 5 * time.Second
		cn.Proto = 3
	}
	idOf := func(cn *wire.Conn) int64 { id, _ := cn.ClientID(); return id }
	ids := map[string]int64{"x1": idOf(x1), "x2": idOf(x2), "y1": idOf(y1), "y2": idOf(y2)}
	rep := map[string]any{"client_ids": ids}
	check := func(name string, ok bool, what string) {
		r.Eval(1)
		r.Distinct("multi-instance/" + name)
		if !ok {
			r.Report("life/multi-instance/"+name, what, rep)
		}
	}
	// data isolation
	x1.Do("SET", "shared-name", "from-x")
	v, _ := y1.Do("GET", "shared-name")
	check("data-leak", v.Null, fmt.Sprintf("a key written through emulator X is visible through emulator Y: %s", v))
	y1.Do("SET", "shared-name", "from-y")
	v, _ = x1.Do("GET", "shared-name")
	check("data-overwrite", v.Text() == "from-x", fmt.Sprintf("a write through Y changed X's key: %s", v))
	// CLIENT LIST on X lists only X's clients
	v, _ = x1.Do("CLIENT", "LIST")
	list := v.Text()
	leak := strings.Contains(list, fmt.Sprintf("id=%d ", ids["y1"])) || strings.Contains(list, fmt.Sprintf("id=%d ", ids["y2"]))
	own := strings.Contains(list, fmt.Sprintf("id=%d ", ids["x1"])) && strings.Contains(list, fmt.Sprintf("id=%d ", ids["x2"]))
	check("client-list-leak", !leak && own, fmt.Sprintf("CLIENT LIST on X (own clients listed: %v) lists clients of Y: %s", own, strings.ReplaceAll(list, "\n", " | ")))
	// CLIENT UNBLOCK <id of a Y client> on X must not end a block on Y
	y2.SendCmd("BLPOP", "yq", "0")
	time.Sleep(50 * time.Millisecond)
	u, _ := x1.Do("CLIENT", "UNBLOCK", strconv.FormatInt(ids["y2"], 10))
	_, _, err = y2.ReadValue(400 * time.Millisecond)
	check("unblock-across-instances", err == wire.ErrTimeout && u.Int == 0, fmt.Sprintf("CLIENT UNBLOCK %d issued on X replied %s; Y's blocked client: %v (must stay blocked, reply 0)", ids["y2"], u, err))
	y1.Do("RPUSH", "yq", "release")
	y2.ReadValue(2 * time.Second)
	// CLIENT KILL ID <y1> on X must not kill Y's client
	k, _ := x1.Do("CLIENT", "KILL", "ID", strconv.FormatInt(ids["y1"], 10))
	p, err := y1.Do("PING")
	check("kill-id-across-instances", err == nil && p.Text() == "PONG", fmt.Sprintf("CLIENT KILL ID %d on X replied %s and Y's client is dead: %v", ids["y1"], k, err))
	// CLIENT KILL with a match-all filter on X leaves Y's connections usable
	x1.Do("CLIENT", "KILL", "TYPE", "normal", "SKIPME", "yes")
	p, err = y2.Do("PING")
	check("kill-all-across-instances", err == nil && p.Text() == "PONG", fmt.Sprintf("CLIENT KILL TYPE normal on X killed a client of Y: %v", err))
	if y1b, err := Y.dial(); err == nil {
		p, err = y1b.Do("PING")
		check("y-serving-after-kill-on-x", err == nil && p.Text() == "PONG", fmt.Sprintf("Y does not serve new connections after CLIENT KILL on X: %v", err))
		y1b.Close()
	}
	// closing X leaves Y serving, with its data
	if _, err := c.Do(6*time.Second, "close %s", X.name); err != nil {
		r.Report("life/close-does-not-return/multi-instance", err.Error(), rep)
		return
	}
	yc, err := Y.dial()
	if err == nil {
		g, err2 := yc.Do("GET", "shared-name")
		check("y-survives-close-of-x", err2 == nil && g.Text() == "from-y", fmt.Sprintf("after Close() of X, Y answers GET shared-name with %s (%v)", g, err2))
		yc.Close()
	} else {
		check("y-survives-close-of-x", false, "after Close() of X, Y refuses connections: "+err.Error())
	}
	p, err = y2.Do("PING")
	check("y-connection-survives-close-of-x", err == nil && p.Text() == "PONG", fmt.Sprintf("an existing connection of Y died when X was closed: %v", err))
	for _, cn := range []*wire.Conn{x1, x2, y1, y2} {
		cn.Close()
	}
}

var _ sync.Mutex

func checkC20(r *verdict.Run) {
	r.Rule = "scenarios run inside child processes through the emulator's Go API (RequestTermination / WaitForTermination / Close), observed through sockets: (1) termination with 18 client populations (a storm of clients connecting while Close() runs, 150 idle clients next to 8 that poll INFO / CLIENT LIST / CLIENT INFO / DBSIZE and connect and disconnect all the time, idle, half a command sent, pipeline in flight, inside MULTI, blocked with timeout 0 and 10 s, 200 connections, mixtures, and the same kinds after the clients went away by close / reset / half-close before the termination, alone or next to live clients, clients whose blocking command was dispatched but not yet blocked, and clients that do not read 48 MiB of replies - still connected or reset while the emulator was writing): Close must return within 6 s and afterwards every pre-existing connection must get EOF/reset on its next request (never a normal reply, never a write), new connections are refused, and within 3 s no goroutine of the emulator is left; " +
		"(2) port/state reuse: Close then a new emulator on the same port in the same process, repeatedly, with predecessor connections still open and writing: it must bind and be empty in all 16 databases; (3) two emulators in one process: data, CLIENT LIST, CLIENT KILL, CLIENT UNBLOCK must not cross instances, closing one leaves the other serving. distinct = scenarios and cycles"
	c20Termination(r, false)
	c20PortReuse(r, tierPick(r, 50, 1000))
	c20ConnectStorm(r, tierPick(r, 40, 400))
	c20MultiInstance(r, false)
	if r.Tier == "thorough" {
		c20Termination(r, true)
		c20MultiInstance(r, true)
	}
	r.Assume("'promptly' = 6 s watchdog on Close(); a failed bind is visible because startServer calls os.Exit(1) (the child's exit)")
}

// c20Waiting lists emulator goroutines with their state and top frames (for hangs in Close).
func c20Waiting(dump string) string {
	var out []string
	for _, g := range strings.Split(dump, "\n\n") {
		if !strings.Contains(g, "go-redisemu.") {
			continue
		}
		first := strings.SplitN(g, "\n", 2)[0]
		var fr []string
		for _, l := range strings.Split(g, "\n") {
			if strings.HasPrefix(l, "github.com/jimsnab/go-redisemu.") {
				fr = append(fr, strings.SplitN(strings.TrimPrefix(l, "github.com/jimsnab/go-redisemu."), "(0x", 2)[0])
			}
		}
		if len(fr) > 4 {
			fr = fr[:4]
		}
		out = append(out, first+" "+strings.Join(fr, " <- "))
		if len(out) >= 25 {
			break
		}
	}
	return strings.Join(out, "\n")
}

// c20ConnectStorm: start, let clients connect in a storm (next to clients that are busy with round trips), Close(), over and over: a connection that was accepted at the
// very moment of the termination and got as far as being served must be dead afterwards like every other one, and
// Close() must return.
func c20ConnectStorm(r *verdict.Run, cycles int) {
	c, err := startChild(false)
	if err != nil {
		r.Inconclusive("cannot start child")
		return
	}
	defer c.Stop()
	served, attempts := int64(0), int64(0)
	for cycle := 0; cycle < cycles; cycle++ {
		if !c.Alive() {
			r.Report("life/connect-storm/crash", "the emulator host died during the connect storm:\n"+headLines(c.StderrHead(20000), 30), nil)
			return
		}
		e, err := startEmu(c, "")
		if err != nil {
			r.Inconclusive("infra: " + err.Error())
			return
		}
		var stop atomic.Bool
		var wg sync.WaitGroup
		var mu sync.Mutex
		var conns []*wire.Conn
		var att atomic.Int64
		for g := 0; g < 10; g++ {
			wg.Add(1)
			go func() {
				defer wg.Done()
				for !stop.Load() {
					att.Add(1)
					nc, err := net.DialTimeout("tcp", fmt.Sprintf("127.0.0.1:%d", e.port), 200*time.Millisecond)
					if err != nil {
						continue
					}
					// (no round trip here: the connections are only probed after Close() has returned)
					cn := &wire.Conn{C: nc, Proto: 2, Timeout: 500 * time.Millisecond, Port: e.port}
					mu.Lock()
					conns = append(conns, cn)
					mu.Unlock()
				}
			}()
		}
		time.Sleep(time.Duration(5+cycle%20) * time.Millisecond)
		_, cerr := c.Do(8*time.Second, "close %s", e.name)
		stop.Store(true)
		wg.Wait()
		r.Eval(1)
		attempts += att.Load()
		served += int64(len(conns))
		if cerr != nil {
			dump := ""
			if c.Alive() {
				dump = c16Busy(c.SigQuitDump())
			}
			r.Report("life/connect-storm/close-does-not-return", fmt.Sprintf("cycle %d: Close() did not return within 8 s while clients kept connecting (%v)\n%s", cycle, cerr, dump), map[string]any{"cycle": cycle})
			return
		}
		survivors := 0
		example := ""
		// every connection made during the storm is probed (which of them raced with the termination cannot be told
		// from the client side: a connection sits in the accept backlog for a while): first a request to all, then the
		// replies - a dead connection fails at once, only a surviving one answers
		for _, cn := range conns {
			cn.C.SetWriteDeadline(time.Now().Add(200 * time.Millisecond))
			cn.C.Write(resp.Cmd("SET", "written-after-close", "1"))
		}
		for _, cn := range conns {
			if v, _, err := cn.ReadValue(300 * time.Millisecond); err == nil {
				survivors++
				example = v.String()
			}
			cn.Close()
		}
		if survivors > 0 {
			r.Report("life/connect-storm/connection-survives-close", fmt.Sprintf("cycle %d: %d connections that were accepted while Close() ran are still served after it returned (e.g. SET -> %s)", cycle, survivors, example), map[string]any{"cycle": cycle})
			return
		}
		c.Ctl("forget %s", e.name)
	}
	// the same with the clients inside the emulator's process (they share its scheduler, as in a user's test binary)
	inproc, made := 0, int64(0)
	// (three storms at a time on three emulators of the process: connections of one are torn down while the others
	// accept and terminate - the client table and the statistics are shared by all emulators of a process)
	for cycle := 0; cycle < 8*cycles && c.Alive(); cycle += 3 {
		type res struct {
			out string
			err error
		}
		results := make([]res, 3)
		var wg sync.WaitGroup
		for k := 0; k < 3; k++ {
			port, err := host.FreePort()
			if err != nil {
				continue
			}
			wg.Add(1)
			go func(k, port int) {
				defer wg.Done()
				time.Sleep(time.Duration(k*(1+cycle%4)) * time.Millisecond)
				results[k].out, results[k].err = c.Do(30*time.Second, "stormclose %d %d %d %d", port, 8, 2000+((cycle+k)%5)*1000, []int{32, 48, 64}[(cycle/3+k)%3])
			}(k, port)
		}
		wg.Wait()
		for k := range results {
			out, err := results[k].out, results[k].err
			if err != nil {
				r.Report("life/connect-storm/close-does-not-return", fmt.Sprintf("in-process cycle %d: no answer from the storm within 30 s (%v)", cycle+k, err), nil)
				return
			}
			if out == "" {
				continue
			}
			if os.Getenv("C20_DEBUG") != "" {
				fmt.Println("stormclose:", out)
			}
			f := map[string]string{}
			for _, kv := range strings.Fields(out) {
				if p := strings.IndexByte(kv, '='); p > 0 {
					f[kv[:p]] = kv[p+1:]
				}
			}
			r.Eval(1)
			inproc++
			n, _ := strconv.Atoi(f["conns"])
			made += int64(n)
			if f["survivors"] != "0" || f["hung"] != "false" {
				r.Report("life/connect-storm/connection-survives-close", fmt.Sprintf("in-process cycle %d: %s connections were made while the emulator was being closed; %s of them are still served after Close() (which hung: %s)", cycle+k, f["conns"], f["survivors"], f["hung"]), map[string]any{"cycle": cycle + k, "result": out})
				return
			}
		}
	}
	r.Count("connect_storm_in_process_cycles", int64(inproc))
	r.Count("connect_storm_in_process_connections", made)
	r.Count("connect_storm_cycles", int64(cycles))
	r.Count("connect_storm_attempts", attempts)
	r.Count("connect_storm_connections_served", served)
	r.Distinct("connect-storm")
}
