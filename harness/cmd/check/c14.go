package main

import (
	"fmt"
	"math/rand"
	"strconv"
	"strings"
	"time"

	"verif/harness/model"
	"verif/harness/verdict"
)

func init() { register("C14", "exploration", checkC14) }

var c14Keys = []string{"k", "l", "h", "s"}

func c14Cmd(rng *rand.Rand, sess *model.Session) []string {
	k := pick(rng, c14Keys)
	switch rng.Intn(40) {
	case 0, 1, 2, 3, 4, 5:
		return []string{"SELECT", pick(rng, []string{"0", "1", "2", "3", "7", "15", "15", "1", "-1", "16", "99", "9223372036854775808", "x", ""})}
	case 6, 7:
		return []string{"SET", k, fmt.Sprintf("db%d-%d", sess.DB, rng.Intn(100))}
	case 8, 9:
		return []string{"GET", k}
	case 10:
		return []string{"RPUSH", k, "e" + strconv.Itoa(rng.Intn(9))}
	case 11:
		return []string{"LRANGE", k, "0", "-1"}
	case 12:
		return []string{"HSET", k, "f", strconv.Itoa(rng.Intn(9))}
	case 13:
		return []string{"SADD", k, "m" + strconv.Itoa(rng.Intn(4))}
	case 14:
		return []string{"DEL", k}
	case 15, 16:
		return []string{"DBSIZE"}
	case 17:
		return []string{"KEYS", "*"}
	case 18, 19:
		a := []string{"FLUSHDB"}
		if rng.Intn(4) == 0 {
			a = append(a, pick(rng, []string{"SYNC", "ASYNC", "sync", "BOGUS"}))
		}
		return a
	case 20:
		a := []string{"FLUSHALL"}
		if rng.Intn(4) == 0 {
			a = append(a, pick(rng, []string{"SYNC", "ASYNC"}))
		}
		return a
	case 21:
		return []string{"CLIENT", "SETNAME", pick(rng, []string{"alice", "bob", "c-3", "with space", ""})}
	case 22, 23:
		return []string{"CLIENT", "GETNAME"}
	case 24:
		return []string{"HELLO", pick(rng, []string{"2", "3", "3", "1", "4", "x"})}
	case 25:
		return []string{"HGETALL", k} // map vs flat array tells the protocol of this connection
	case 26:
		return []string{"MULTI"}
	case 27, 28:
		return []string{"EXEC"}
	case 29:
		return []string{"DISCARD"}
	case 30:
		return []string{"WATCH", k}
	case 31:
		return []string{"EXISTS", "k", "l", "h", "s"}
	case 32:
		return []string{"TYPE", k}
	case 33:
		return []string{"INCR", "counter"}
	case 34:
		return []string{"RENAME", k, pick(rng, c14Keys)}
	case 35:
		return []string{"EXPIRE", k, "100"}
	case 36:
		return []string{"RANDOMKEY"}
	case 37:
		return []string{"LPOP", k}
	case 38:
		return []string{"APPEND", k, "+"}
	case 39:
		return []string{"PING"}
	}
	return []string{"PING"}
}

func c14Script(r *verdict.Run, d *diffEnv, rng *rand.Rand, steps int) {
	for i := 0; i < steps; i++ {
		// connections join (and are replaced) over time: some are opened before a flush, some after
		if rng.Intn(25) == 0 && len(d.cns) < 5 {
			d.addConn()
		}
		if rng.Intn(60) == 0 {
			d.reconnect(rng.Intn(len(d.cns)))
		}
		ci := rng.Intn(len(d.cns))
		args := c14Cmd(rng, d.sessions[ci])
		before := r.Violations()
		got, ok := d.stepOn(ci, args)
		if !ok {
			return
		}
		r.Eval(1)
		name := strings.ToUpper(args[0])
		if name == "CLIENT" {
			name += " " + strings.ToUpper(args[1])
		}
		st := "normal"
		if d.sessions[ci].InMulti {
			st = "in-multi"
		}
		r.Distinct(fmt.Sprintf("script/%s/%s/db%d/%s", name, st, d.sessions[ci].DB, model.Class(got)))
		_ = before
		if d.lastDiverged {
			d.reconnect(ci)
		}
	}
}

// c14BlockedDuringFlush: a client blocked on a key of database d must still be served after FLUSHDB/FLUSHALL.
func c14BlockedDuringFlush(r *verdict.Run) {
	c, err := startChild(false)
	if err != nil {
		r.Inconclusive("cannot start child")
		return
	}
	defer c.Stop()
	for _, flush := range []string{"FLUSHDB", "FLUSHALL"} {
		for _, db := range []string{"0", "5"} {
			for _, blocker := range [][]string{{"BLPOP", "q", "0"}, {"BRPOP", "other", "q", "0"}, {"BLMOVE", "q", "dst", "LEFT", "RIGHT", "0"}, {"BLMPOP", "0", "1", "q", "LEFT"}} {
				e, err := startEmu(c, "")
				if err != nil {
					r.Inconclusive("infra: " + err.Error())
					return
				}
				A, _ := e.dial()
				B, _ := e.dial()
				A.Do("SELECT", db)
				B.Do("SELECT", db)
				B.Do("SET", "filler", "1")
				A.SendCmd(blocker...)
				time.Sleep(60 * time.Millisecond) // let A block (bounded observation, see evidence)
				v1, _ := B.Do(flush)
				v2, _ := B.Do("RPUSH", "q", "item")
				v, _, err := A.ReadValue(3 * time.Second)
				r.Eval(1)
				key := fmt.Sprintf("blocked-during-%s/db%s/%s", flush, db, blocker[0])
				rep := map[string]any{"blocked": blocker, "flush": flush, "db": db, "flush_reply": v1.String(), "push_reply": v2.String()}
				if err != nil {
					r.Report("flush/blocked-client-not-served/"+flush, fmt.Sprintf("%s: a client blocked in %s before %s was not served by a later RPUSH q item within 3 s: %v", key, cmdString(blocker), flush, err), rep)
				} else if !strings.Contains(v.String(), "item") {
					r.Report("flush/blocked-client-wrong-reply/"+flush, fmt.Sprintf("%s: blocked client got %s", key, v), rep)
				}
				// the flushed filler key must be gone for a third, new connection
				C, _ := e.dial()
				C.Do("SELECT", db)
				if g, _ := C.Do("EXISTS", "filler"); g.Int != 0 {
					r.Report("flush/not-visible-to-new-connection/"+flush, key+": a connection opened after the flush still sees the flushed key", rep)
				}
				r.Distinct(key)
				A.Close()
				B.Close()
				C.Close()
				e.close()
			}
		}
	}
}

func checkC14(r *verdict.Run) {
	r.Rule = "scripts over 3-5 connections of one emulator, commands executed one at a time in a generated global order: SELECT with valid and invalid indexes, the same key names in several databases, FLUSHDB/FLUSHALL (with SYNC/ASYNC), DBSIZE/KEYS, CLIENT SETNAME/GETNAME, HELLO 2/3/other, MULTI/EXEC/WATCH on one connection while others work, connections opened before and after flushes; " +
		"oracle: every reply = reference model with per-connection sessions; after every step every database in use is dumped through an observer connection and compared (so a flush must be what every client sees). Plus: a client blocked on a key during FLUSHDB/FLUSHALL must be served by a later push. distinct = (command, MULTI state, database, outcome class)"
	nscripts := tierPick(r, 300, 6000)
	perChild := 20
	nsh := (nscripts + perChild - 1) / perChild
	parallel(nsh, 16, func(shard int) {
		rng := shardRng(r, shard)
		c, err := startChild(false)
		if err != nil {
			r.Inconclusive("cannot start child")
			return
		}
		defer func() { c.Stop() }()
		for i := 0; i < perChild && shard*perChild+i < nscripts; i++ {
			if !c.Alive() {
				c.Stop()
				if c, err = startChild(false); err != nil {
					return
				}
			}
			d, err := newDiffEnv(r, c, append([]string{"counter", "filler"}, c14Keys...))
			if err != nil {
				r.Count("infra_retries", 1)
				c.Stop()
				c, _ = startChild(false)
				continue
			}
			d.monitor = "dbs"
			d.addConn()
			d.addConn()
			c14Script(r, d, rng, 50+rng.Intn(50))
			if shard == 0 && i == 0 {
				var sample []string
				for _, s := range d.log {
					if len(sample) < 16 {
						sample = append(sample, cmdString(s.Cmd)+" -> "+s.Got)
					}
				}
				r.Sample(map[string]any{"script_prefix": sample})
			}
			d.close()
		}
	})
	c14BlockedDuringFlush(r)
}
