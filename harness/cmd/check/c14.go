package main

import (
	"fmt"
	"math/rand"
	"strconv"
	"strings"
	"sync"
	"sync/atomic"
	"time"

	"verif/harness/model"
	"verif/harness/resp"
	"verif/harness/verdict"
	"verif/harness/wire"
)

func init() { register("C14", "exploration", checkC14) }

var c14Keys = []string{"k", "l", "h", "s"}

func c14Cmd(rng *rand.Rand, sess *model.Session) []string {
	k := pick(rng, c14Keys)
	switch rng.Intn(40) {
	case 0, 1, 2, 3, 4, 5:
		return []string{"SELECT", pick(rng, []string{"0", "1", "2", "3", "7", "15", "15", "1", "-1", "16", "99", "9223372036854775808", "x", "",
			// out of range, but in range after a truncation to 8, 16 or 32 bits
			"256", "257", "271", "-256", "-255", "65536", "65537", "4294967296", "4294967297", "-4294967295", "9223372036854775807", "-9223372036854775808", "1.0", " 1"})}
	case 6, 7:
		return []string{"SET", k, fmt.Sprintf("db%d-%d", sess.DB, rng.Intn(100))}
	case 8, 9:
		return []string{"GET", k}
	case 10:
		return []string{"RPUSH", k, "e" + strconv.Itoa(rng.Intn(9))}
	case 11:
		return []string{"LRANGE", k, "0", "-1"}
	case 12:
		return []string{"HSET", k, "f", strconv.Itoa(rng.Intn(9))}
	case 13:
		return []string{"SADD", k, "m" + strconv.Itoa(rng.Intn(4))}
	case 14:
		return []string{"DEL", k}
	case 15, 16:
		return []string{"DBSIZE"}
	case 17:
		return []string{"KEYS", "*"}
	case 18, 19:
		a := []string{"FLUSHDB"}
		if rng.Intn(4) == 0 {
			a = append(a, pick(rng, []string{"SYNC", "ASYNC", "sync", "BOGUS"}))
		}
		return a
	case 20:
		a := []string{"FLUSHALL"}
		if rng.Intn(4) == 0 {
			a = append(a, pick(rng, []string{"SYNC", "ASYNC"}))
		}
		return a
	case 21:
		return []string{"CLIENT", "SETNAME", pick(rng, []string{"alice", "bob", "c-3", "with space", ""})}
	case 22, 23:
		return []string{"CLIENT", "GETNAME"}
	case 24:
		return []string{"HELLO", pick(rng, []string{"2", "3", "3", "1", "4", "x"})}
	case 25:
		return []string{"HGETALL", k} // map vs flat array tells the protocol of this connection
	case 26:
		return []string{"MULTI"}
	case 27, 28:
		return []string{"EXEC"}
	case 29:
		return []string{"DISCARD"}
	case 30:
		return []string{"WATCH", k}
	case 31:
		return []string{"EXISTS", "k", "l", "h", "s"}
	case 32:
		return []string{"TYPE", k}
	case 33:
		return []string{"INCR", "counter"}
	case 34:
		return []string{"RENAME", k, pick(rng, c14Keys)}
	case 35:
		return []string{"EXPIRE", k, "100"}
	case 36:
		return []string{"RANDOMKEY"}
	case 37:
		return []string{"LPOP", k}
	case 38:
		return []string{"APPEND", k, "+"}
	case 39:
		return []string{"PING"}
	}
	return []string{"PING"}
}

func c14Script(r *verdict.Run, d *diffEnv, rng *rand.Rand, steps int) {
	for i := 0; i < steps; i++ {
		// connections join (and are replaced) over time: some are opened before a flush, some after
		if rng.Intn(25) == 0 && len(d.cns) < 5 {
			d.addConn()
		}
		if rng.Intn(60) == 0 {
			d.reconnect(rng.Intn(len(d.cns)))
		}
		ci := rng.Intn(len(d.cns))
		args := c14Cmd(rng, d.sessions[ci])
		before := r.Violations()
		got, ok := d.stepOn(ci, args)
		if !ok {
			return
		}
		r.Eval(1)
		name := strings.ToUpper(args[0])
		if name == "CLIENT" {
			name += " " + strings.ToUpper(args[1])
		}
		st := "normal"
		if d.sessions[ci].InMulti {
			st = "in-multi"
		}
		r.Distinct(fmt.Sprintf("script/%s/%s/db%d/%s", name, st, d.sessions[ci].DB, model.Class(got)))
		_ = before
		if d.lastDiverged {
			d.reconnect(ci)
		} else if !d.sessions[ci].InMulti && (name == "SELECT" || rng.Intn(6) == 0) {
			// what the connection is reported to have selected (CLIENT INFO of itself, CLIENT LIST of another connection)
			// is the database its commands really work on - also right after a SELECT that was refused
			want := strconv.Itoa(d.sessions[ci].DB)
			if v, err := d.cns[ci].Do("CLIENT", "INFO"); err == nil && !v.IsError() {
				for _, kv := range strings.Fields(v.Text()) {
					if strings.HasPrefix(kv, "db=") && kv[3:] != want {
						r.Report("dbs/reported-selection/client-info", fmt.Sprintf("after %s on connection %d: CLIENT INFO says %s but the connection works in database %s", cmdString(args), ci, kv, want), d.replay(nil))
					}
				}
			}
		}
	}
}

// c14BlockedDuringFlush: a client blocked on a key of database d must still be served after FLUSHDB/FLUSHALL.
func c14BlockedDuringFlush(r *verdict.Run) {
	c, err := startChild(false)
	if err != nil {
		r.Inconclusive("cannot start child")
		return
	}
	defer c.Stop()
	for _, flush := range []string{"FLUSHDB", "FLUSHALL"} {
		for _, db := range []string{"0", "5"} {
			for _, blocker := range [][]string{{"BLPOP", "q", "0"}, {"BRPOP", "other", "q", "0"}, {"BLMOVE", "q", "dst", "LEFT", "RIGHT", "0"}, {"BLMPOP", "0", "1", "q", "LEFT"}} {
				e, err := startEmu(c, "")
				if err != nil {
					r.Inconclusive("infra: " + err.Error())
					return
				}
				A, _ := e.dial()
				B, _ := e.dial()
				A.Do("SELECT", db)
				B.Do("SELECT", db)
				B.Do("SET", "filler", "1")
				A.SendCmd(blocker...)
				time.Sleep(60 * time.Millisecond) // let A block (bounded observation, see evidence)
				v1, _ := B.Do(flush)
				v2, _ := B.Do("RPUSH", "q", "item")
				v, _, err := A.ReadValue(3 * time.Second)
				r.Eval(1)
				key := fmt.Sprintf("blocked-during-%s/db%s/%s", flush, db, blocker[0])
				rep := map[string]any{"blocked": blocker, "flush": flush, "db": db, "flush_reply": v1.String(), "push_reply": v2.String()}
				if err != nil {
					r.Report("flush/blocked-client-not-served/"+flush, fmt.Sprintf("%s: a client blocked in %s before %s was not served by a later RPUSH q item within 3 s: %v", key, cmdString(blocker), flush, err), rep)
				} else if !strings.Contains(v.String(), "item") {
					r.Report("flush/blocked-client-wrong-reply/"+flush, fmt.Sprintf("%s: blocked client got %s", key, v), rep)
				}
				// the flushed filler key must be gone for a third, new connection
				C, _ := e.dial()
				C.Do("SELECT", db)
				if g, _ := C.Do("EXISTS", "filler"); g.Int != 0 {
					r.Report("flush/not-visible-to-new-connection/"+flush, key+": a connection opened after the flush still sees the flushed key", rep)
				}
				r.Distinct(key)
				A.Close()
				B.Close()
				C.Close()
				e.close()
			}
		}
	}
}

func checkC14(r *verdict.Run) {
	r.Rule = "scripts over 3-5 connections of one emulator, commands executed one at a time in a generated global order: SELECT with valid and invalid indexes, the same key names in several databases, FLUSHDB/FLUSHALL (with SYNC/ASYNC), DBSIZE/KEYS, CLIENT SETNAME/GETNAME, HELLO 2/3/other, MULTI/EXEC/WATCH on one connection while others work, connections opened before and after flushes; " +
		"oracle: every reply = reference model with per-connection sessions; after every step every database in use is dumped through an observer connection and compared (so a flush must be what every client sees). Plus: directed transactions MULTI; SELECT b; <FLUSHDB|FLUSHALL|DBSIZE|KEYS|RANDOMKEY|SET|DEL|RENAME|COPY|SCAN ...>; EXEC from database a for several (a, b), every database compared with the model afterwards; the same key name watched in two databases by one connection (a write to either copy aborts EXEC, a write to a third copy does not); a client blocked on a key during FLUSHDB/FLUSHALL must be served by a later push; 2-4 connections select a never used database at the same moment (15 databases per fresh emulator): they must share one namespace (mutual reads, DBSIZE, FLUSHALL). distinct = (command, MULTI state, database, outcome class)"
	nscripts := tierPick(r, 300, 6000)
	perChild := 20
	nsh := (nscripts + perChild - 1) / perChild
	parallel(nsh, 16, func(shard int) {
		rng := shardRng(r, shard)
		c, err := startChild(false)
		if err != nil {
			r.Inconclusive("cannot start child")
			return
		}
		defer func() { c.Stop() }()
		for i := 0; i < perChild && shard*perChild+i < nscripts; i++ {
			if !c.Alive() {
				c.Stop()
				if c, err = startChild(false); err != nil {
					return
				}
			}
			d, err := newDiffEnv(r, c, append([]string{"counter", "filler"}, c14Keys...))
			if err != nil {
				r.Count("infra_retries", 1)
				c.Stop()
				c, _ = startChild(false)
				continue
			}
			d.monitor = "dbs"
			d.addConn()
			d.addConn()
			c14Script(r, d, rng, 50+rng.Intn(50))
			if shard == 0 && i == 0 {
				var sample []string
				for _, s := range d.log {
					if len(sample) < 16 {
						sample = append(sample, cmdString(s.Cmd)+" -> "+s.Got)
					}
				}
				r.Sample(map[string]any{"script_prefix": sample})
			}
			d.close()
		}
	})
	c14BlockedDuringFlush(r)
	c14QueuedSelectThenCommand(r)
	c14WatchesPerDatabase(r)
	c14ConcurrentFirstUse(r, tierPick(r, 24, 240))
}

// c14ConcurrentFirstUse: databases come into being when they are first selected. When several connections select a
// database nobody has used yet at the same moment, they must all end up in the same namespace: what one writes the
// others (and later connections) read, DBSIZE agrees, and FLUSHALL by anyone empties it for all of them.
func c14ConcurrentFirstUse(r *verdict.Run, nemu int) {
	perChild := 6
	nsh := (nemu + perChild - 1) / perChild
	var firstUses, overlapping int64
	parallel(nsh, 8, func(shard int) {
		c, err := startChild(false)
		if err != nil {
			r.Inconclusive("cannot start child")
			return
		}
		defer c.Stop()
		for i := 0; i < perChild && shard*perChild+i < nemu; i++ {
			e, err := startEmu(c, "")
			if err != nil {
				r.Inconclusive("infra: " + err.Error())
				return
			}
			nconn := 2 + (shard+i)%3
			var cns []*wire.Conn
			for k := 0; k < nconn; k++ {
				cn, err := e.dial()
				if err != nil {
					r.Inconclusive("infra: " + err.Error())
					return
				}
				cn.Do("PING")
				cns = append(cns, cn)
			}
			for db := 1; db <= 15; db++ {
				dbs := strconv.Itoa(db)
				start := make(chan struct{})
				var wg sync.WaitGroup
				t0 := make([]int64, nconn)
				t1 := make([]int64, nconn)
				okSel := make([]bool, nconn)
				req := resp.Cmd("SELECT", dbs)
				for k := range cns {
					wg.Add(1)
					go func(k int) {
						defer wg.Done()
						<-start
						t0[k] = wire.Now()
						cns[k].Send(req)
						v, _, err := cns[k].ReadValue(5 * time.Second)
						t1[k] = wire.Now()
						okSel[k] = err == nil && v.Text() == "OK"
					}(k)
				}
				close(start)
				wg.Wait()
				atomic.AddInt64(&firstUses, 1)
				maxT0, minT1 := t0[0], t1[0]
				for k := range cns {
					if t0[k] > maxT0 {
						maxT0 = t0[k]
					}
					if t1[k] < minT1 {
						minT1 = t1[k]
					}
				}
				if maxT0 < minT1 {
					atomic.AddInt64(&overlapping, 1)
				}
				r.Eval(1)
				rep := map[string]any{"database": db, "connections": nconn}
				for k := range cns {
					if !okSel[k] {
						r.Report("first-use/select-refused", fmt.Sprintf("connection %d: SELECT %d was not answered with OK", k, db), rep)
					}
				}
				// every connection writes a key of its own, then every connection reads all of them
				for k, cn := range cns {
					cn.Do("SET", fmt.Sprintf("k%d", k), fmt.Sprintf("v%d-%d", db, k))
				}
				late, _ := e.dial()
				late.Do("SELECT", dbs)
				split := false
				for k, cn := range append(append([]*wire.Conn{}, cns...), late) {
					for j := range cns {
						v, _ := cn.Do("GET", fmt.Sprintf("k%d", j))
						if v.Text() != fmt.Sprintf("v%d-%d", db, j) && !split {
							split = true
							r.Report("first-use/database-split-into-two-namespaces", fmt.Sprintf("%d connections selected the unused database %d at the same moment; afterwards connection %d (of %d, the last one connected later) reads k%d = %s although connection %d has set it in the same database", nconn, db, k, nconn+1, j, v, j), rep)
						}
					}
					if v, _ := cn.Do("DBSIZE"); v.Int != int64(nconn) && !split {
						split = true
						r.Report("first-use/dbsize-disagrees", fmt.Sprintf("database %d after %d connections wrote one key each: connection %d sees DBSIZE %s", db, nconn, k, v), rep)
					}
				}
				// FLUSHALL by the late connection must empty the database for every connection
				late.Do("FLUSHALL")
				for k, cn := range cns {
					if v, _ := cn.Do("DBSIZE"); v.Int != 0 && !split {
						split = true
						r.Report("first-use/flushall-misses-a-connection", fmt.Sprintf("database %d: after FLUSHALL connection %d still sees DBSIZE %s", db, k, v), rep)
					}
				}
				late.Close()
			}
			for _, cn := range cns {
				cn.Close()
			}
			e.close()
			r.Distinct(fmt.Sprintf("first-use/%d-connections", nconn))
		}
	})
	r.Count("first_use_selects_released_together", firstUses)
	r.Count("first_use_selects_overlapping_at_the_client", overlapping)
}

// c14QueuedSelectThenCommand: inside a transaction a queued SELECT moves the commands behind it to another database:
// database-wide commands (flushes, DBSIZE, KEYS, RANDOMKEY, SCAN) and plain ones must then work on THAT database, for
// every connected client. Directed programs in lock step with the model, all databases compared after every step.
func c14QueuedSelectThenCommand(r *verdict.Run) {
	c, err := startChild(false)
	if err != nil {
		r.Inconclusive("cannot start child")
		return
	}
	defer func() { c.Stop() }()
	bodies := [][][]string{
		{{"FLUSHDB"}, {"DBSIZE"}}, {{"FLUSHDB", "ASYNC"}, {"DBSIZE"}}, {{"FLUSHDB", "SYNC"}, {"KEYS", "*"}}, {{"FLUSHALL"}, {"DBSIZE"}},
		{{"DBSIZE"}, {"KEYS", "*"}, {"RANDOMKEY"}}, {{"SET", "k", "moved"}, {"DEL", "counter"}, {"DBSIZE"}}, {{"RENAME", "filler", "renamed"}, {"EXISTS", "filler", "renamed"}},
		{{"COPY", "filler", "copied"}, {"DBSIZE"}}, {{"SCAN", "0", "COUNT", "100"}}, {{"RPUSH", "l", "x"}, {"LLEN", "l"}, {"TYPE", "l"}}, {{"EXPIRE", "filler", "100"}, {"TTL", "filler"}},
	}
	for _, ab := range [][2]int{{0, 1}, {1, 0}, {2, 5}, {0, 15}, {3, 3}} {
		for bi, body := range bodies {
			if !c.Alive() {
				c.Stop()
				if c, err = startChild(false); err != nil {
					return
				}
			}
			d, err := newDiffEnv(r, c, append([]string{"counter", "filler", "renamed", "copied"}, c14Keys...))
			if err != nil {
				r.Inconclusive("infra: " + err.Error())
				return
			}
			d.monitor = "dbs"
			d.addConn()
			a, b := strconv.Itoa(ab[0]), strconv.Itoa(ab[1])
			// both databases (and a third one) hold keys, written by the other connection
			prog := [][]string{}
			for _, db := range []string{a, b, "7"} {
				prog = append(prog, []string{"SELECT", db}, []string{"SET", "filler", "in-" + db}, []string{"SET", "counter", "1"}, []string{"RPUSH", "l", "e-" + db})
			}
			ok := true
			for _, p := range prog {
				if _, ok = d.stepOn(1, p); !ok {
					break
				}
			}
			steps := [][]string{{"SELECT", a}, {"MULTI"}, {"SELECT", b}}
			steps = append(steps, body...)
			steps = append(steps, []string{"EXEC"}, []string{"DBSIZE"}, []string{"SELECT", a}, []string{"DBSIZE"})
			for _, p := range steps {
				if !ok {
					break
				}
				_, ok = d.stepOn(0, p)
				r.Eval(1)
			}
			if ok && !d.lastDiverged {
				r.Distinct(fmt.Sprintf("queued-select/%d-to-%d/body-%d", ab[0], ab[1], bi))
			}
			d.close()
		}
	}
}

// c14WatchesPerDatabase: a watched key is a (database, name) pair. One connection watches the same name in two
// databases; another connection then writes that name in the first, the second, or a third database (or nowhere).
func c14WatchesPerDatabase(r *verdict.Run) {
	c, err := startChild(false)
	if err != nil {
		r.Inconclusive("cannot start child")
		return
	}
	defer func() { c.Stop() }()
	for _, order := range [][]string{{"1", "4"}, {"0", "1"}, {"5", "0"}, {"2", "2"}} {
		for _, writeIn := range []string{order[0], order[1], "9", ""} {
			for _, existing := range []bool{true, false} {
				if !c.Alive() {
					c.Stop()
					if c, err = startChild(false); err != nil {
						return
					}
				}
				d, err := newDiffEnv(r, c, append([]string{"counter", "filler", "marker"}, c14Keys...))
				if err != nil {
					r.Inconclusive("infra: " + err.Error())
					return
				}
				d.monitor = "dbs"
				d.addConn()
				ok := true
				step := func(ci int, args ...string) {
					if ok {
						_, ok = d.stepOn(ci, args)
						r.Eval(1)
					}
				}
				if existing {
					for _, db := range []string{order[0], order[1], "9"} {
						step(1, "SELECT", db)
						step(1, "SET", "k", "old-"+db)
					}
				}
				step(0, "SELECT", order[0])
				step(0, "WATCH", "k")
				step(0, "SELECT", order[1])
				step(0, "WATCH", "k", "filler")
				if writeIn != "" {
					step(1, "SELECT", writeIn)
					step(1, "SET", "k", "changed")
				}
				step(0, "MULTI")
				step(0, "SET", "marker", "1")
				step(0, "EXEC")
				step(0, "GET", "marker")
				if ok && !d.lastDiverged {
					r.Distinct(fmt.Sprintf("watch-two-dbs/%s+%s/write-in-%s/existing=%v", order[0], order[1], writeIn, existing))
				}
				d.close()
			}
		}
	}
}
