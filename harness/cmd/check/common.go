package main

import (
	"fmt"
	"os"
	"path/filepath"
	"sort"
	"strconv"
	"strings"
	"sync"
	"time"

	"verif/harness/host"
	"verif/harness/resp"
	"verif/harness/verdict"
	"verif/harness/wire"
)

// emu is one emulator instance inside a child process.
type emu struct {
	child *host.Child
	name  string
	port  int
}

func startChild(race bool) (*host.Child, error) { return startChildLimited(race, 0) }

// startChildLimited starts a child whose address space is limited to memKiB
// (0 = unlimited); used where client input controls allocation sizes.
func startChildLimited(race bool, memKiB int) (*host.Child, error) {
	var c *host.Child
	var err error
	o := host.Options{Race: race}
	if memKiB > 0 && !race {
		o.Wrap = []string{"sh", "-c", fmt.Sprintf("ulimit -v %d; exec \"$0\"", memKiB)}
	}
	for i := 0; i < 3; i++ {
		c, err = host.StartChild(o)
		if err == nil {
			return c, nil
		}
	}
	return nil, err
}

// startEmu starts a fresh emulator; a failed bind (exit 1 of the child) is
// infrastructure noise: the caller gets an error and must use a new child.
func startEmu(c *host.Child, persist string) (*emu, error) {
	name, port, err := c.StartEmu(persist)
	if err != nil {
		if !c.Alive() {
			// why the child is gone decides whether this is noise (bind: address already in use) or a finding (a panic)
			tail := c.StderrHead(200000)
			if i := strings.LastIndex(tail, "panic:"); i >= 0 {
				tail = tail[i:]
			} else if len(tail) > 300 {
				tail = tail[len(tail)-300:]
			}
			// (startServer prints a failed bind to stdout before it exits)
			if b, rerr := os.ReadFile(filepath.Join(c.Dir, "stdout.txt")); rerr == nil && len(b) > 0 {
				if len(b) > 200 {
					b = b[len(b)-200:]
				}
				tail = strings.TrimSpace(string(b)) + " " + tail
			}
			return nil, fmt.Errorf("%v: %s", err, strings.ReplaceAll(headLines(tail, 6), "\n", " | "))
		}
		return nil, err
	}
	return &emu{c, name, port}, nil
}

func (e *emu) dial() (*wire.Conn, error) { return wire.Dial(e.port) }

func (e *emu) close() {
	e.child.CloseEmu(e.name, 10*time.Second)
}

// noteInfra counts a failure of the test infrastructure that made a scenario end without a verdict (callers that
// cannot connect simply return); the counts are printed and recorded as inconclusive when the run finishes, so a
// run that silently skipped work cannot pass for one that observed it.
var (
	infraMu    sync.Mutex
	infraNotes = map[string]int{}
)

func noteInfra(what string) {
	infraMu.Lock()
	infraNotes[what]++
	infraMu.Unlock()
}

// canary does a SET/GET round trip on its own connection and reports whether
// the emulator answered correctly within the watchdog.
type canary struct {
	mu   sync.Mutex // check and close may be called from different goroutines (a canary loop and its owner)
	port int
	c    *wire.Conn
	n    int
}

func newCanary(port int) *canary { return &canary{port: port} }

func (k *canary) check(watchdog time.Duration) (ok bool, why string) {
	k.mu.Lock()
	defer k.mu.Unlock()
	for attempt := 0; attempt < 2; attempt++ {
		if k.c == nil {
			c, err := wire.Dial(k.port)
			if err != nil {
				return false, "canary cannot connect: " + err.Error()
			}
			k.c = c
		}
		k.n++
		val := fmt.Sprintf("canary-%d", k.n)
		k.c.Timeout = watchdog
		vs, err := k.c.Pipeline([][]string{{"SELECT", "15"}, {"SET", "__canary__", val}, {"GET", "__canary__"}})
		if err != nil {
			// the hostile input may legitimately have killed this connection (CLIENT KILL): retry once on a new one
			k.c.Close()
			k.c = nil
			why = "canary: " + err.Error()
			if err == wire.ErrTimeout {
				return false, "canary timed out"
			}
			continue
		}
		if vs[2].Text() != val || vs[1].Text() != "OK" {
			return false, fmt.Sprintf("canary read back %s / %s, wrote %q", vs[1], vs[2], val)
		}
		return true, ""
	}
	return false, why
}

func (k *canary) close() {
	k.mu.Lock()
	defer k.mu.Unlock()
	if k.c != nil {
		k.c.Close()
		k.c = nil
	}
}

func cmdString(args []string) string {
	parts := make([]string, len(args))
	for i, a := range args {
		if len(a) > 64 {
			a = a[:64] + fmt.Sprintf("...(%d bytes)", len(a))
		}
		if a == "" || strings.ContainsAny(a, " \r\n\t\"\x00") || !isPrintable(a) {
			parts[i] = fmt.Sprintf("%q", a)
		} else {
			parts[i] = a
		}
	}
	return strings.Join(parts, " ")
}

func isPrintable(s string) bool {
	for i := 0; i < len(s); i++ {
		if s[i] < 32 || s[i] > 126 {
			return false
		}
	}
	return true
}

func vals(vs []resp.Value) []string {
	out := make([]string, len(vs))
	for i, v := range vs {
		out[i] = v.String()
	}
	return out
}

var _ = verdict.Root

func sortStrings(s []string) { sort.Strings(s) }

func os_RemoveAll(p string) { os.RemoveAll(p) }

// lock-discipline monitor of the emulator host (hooks ds:lock-skipped / ds:exclusive-*): the data store mutex may be
// skipped only by the commands of a transaction while EXEC holds that data store exclusively.
func enableLockMonitor(c *host.Child) { c.Ctl("lockmonitor on") }

func reportLockMonitor(r *verdict.Run, c *host.Child) {
	if c == nil || !c.Alive() {
		return
	}
	out, err := c.Do(5*time.Second, "lockmonitor report")
	if err != nil {
		return
	}
	f := strings.SplitN(strings.TrimPrefix(out, "ok "), " ", 3)
	if len(f) < 2 {
		return
	}
	viol, _ := strconv.ParseInt(f[0], 10, 64)
	skips, _ := strconv.ParseInt(f[1], 10, 64)
	r.Count("lock_monitor_skips_observed", skips)
	if viol > 0 {
		first := ""
		if len(f) > 2 {
			first = strings.ReplaceAll(f[2], "_", " ")
		}
		r.Report("lock/mutex-skipped-without-exclusive-owner", fmt.Sprintf("%d commands ran on a data store without taking its mutex although no transaction held that data store exclusively (of %d legitimate and illegitimate skips observed); first: %s", viol, skips, trunc(first, 1500)), nil)
	}
}
