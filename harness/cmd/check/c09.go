package main

import (
	"fmt"
	"math/rand"
	"strconv"
	"strings"
	"sync"
	"sync/atomic"
	"time"

	"verif/harness/model"
	"verif/harness/resp"
	"verif/harness/verdict"
	"verif/harness/wire"
)

func init() { register("C09", "exploration", checkC09) }

var c09Keys = []string{"x", "y", "l", "h", "s", "n"}

func c09DataCmd(rng *rand.Rand, inMulti bool) []string {
	k := pick(rng, c09Keys)
	switch rng.Intn(30) {
	case 28:
		// introspection and keyspace-wide commands: they take locks of their own and must still run inside EXEC
		return pick2(rng, [][]string{{"CLIENT", "LIST"}, {"CLIENT", "INFO"}, {"INFO"}, {"CLIENT", "GETNAME"}, {"CLIENT", "ID"}, {"COMMAND", "COUNT"}})
	case 29:
		return pick2(rng, [][]string{{"KEYS", "*"}, {"RANDOMKEY"}, {"SCAN", "0"}, {"FLUSHDB"}, {"COPY", k, "y", "REPLACE"}, {"SORT", k, "ALPHA"}})
	case 0:
		return []string{"SET", k, pick(rng, []string{"1", "v", "9223372036854775807"})}
	case 1:
		return []string{"GET", k}
	case 2:
		return []string{"INCR", k} // fails at run time on non-integers / overflow / wrong type
	case 3:
		return []string{"APPEND", k, "a"}
	case 4:
		return []string{"RPUSH", k, "e1", "e2"}
	case 5:
		return []string{"LPOP", k}
	case 6:
		return []string{"LRANGE", k, "0", "-1"}
	case 7:
		return []string{"HSET", k, "f", "1"}
	case 8:
		return []string{"HINCRBY", k, "f", "1"}
	case 9:
		return []string{"HGETALL", k}
	case 10:
		return []string{"SADD", k, "m1", "m2"}
	case 11:
		return []string{"SMEMBERS", k}
	case 12:
		return []string{"DEL", k}
	case 13:
		return []string{"EXISTS", "x", "y", "l"}
	case 14:
		return []string{"MSET", "x", "1", "y", "1"}
	case 15:
		return []string{"MGET", "x", "y"}
	case 16:
		return []string{"RENAME", k, pick(rng, c09Keys)}
	case 17:
		return []string{"EXPIRE", k, "100"}
	case 18:
		if rng.Intn(2) == 0 {
			// a container command with an unknown subcommand or a subcommand of wrong arity: rejected at queue time too
			return pick2(rng, [][]string{{"CLIENT", "NOSUCHSUB"}, {"CLIENT", "SETNAME"}, {"COMMAND", "NOSUCHSUB"}, {"CLIENT"}, {"CLIENT", "GETNAME", "extra"}, {"CLIENT", "SETNAME", "a", "b"}})
		}
		return []string{"NOSUCHCMD", k} // rejected at queue time
	case 19:
		return []string{"GET"} // wrong arity: rejected at queue time
	case 20:
		return []string{"SET", k} // wrong arity
	case 21:
		to := "0.01"
		if inMulti {
			to = pick(rng, []string{"0", "5", "0.01"}) // must not block inside a transaction
		}
		switch rng.Intn(4) {
		case 0:
			return []string{"BLPOP", k, "l", to}
		case 1:
			return []string{"BRPOP", k, to}
		case 2:
			return []string{"BLMOVE", k, "l", "LEFT", "RIGHT", to}
		}
		return []string{"BLMPOP", to, "1", k, "LEFT"}
	case 22:
		return []string{"SELECT", pick(rng, []string{"0", "1", "0", "16", "x"})}
	case 23:
		return []string{"DBSIZE"}
	case 24:
		return []string{"LPUSH", k, "z"}
	case 25:
		return []string{"SETRANGE", k, "-1", "x"} // run-time error
	case 26:
		return []string{"TYPE", k}
	case 27:
		return []string{"PING"}
	}
	return []string{"PING"}
}

// c09Program runs one random transaction program on connection 0 with a second connection interfering.
func c09Program(r *verdict.Run, d *diffEnv, rng *rand.Rand, steps int) {
	for i := 0; i < steps; i++ {
		sess := d.sessions[0]
		var args []string
		conn := 0
		p := rng.Intn(100)
		switch {
		case p < 10:
			args = []string{"MULTI"}
		case p < 22:
			args = []string{"EXEC"}
		case p < 26:
			args = []string{"DISCARD"}
		case p < 34:
			args = []string{"WATCH", pick(rng, c09Keys)}
			if rng.Intn(3) == 0 {
				args = append(args, pick(rng, c09Keys))
			}
		case p < 37:
			args = []string{"UNWATCH"}
		case p < 47:
			conn = 1 // the other connection modifies or reads
			args = c09DataCmd(rng, false)
			if n := strings.ToLower(args[0]); n == "select" || strings.HasPrefix(n, "b") {
				args = []string{"INCR", "n"}
			}
		case p < 49:
			args = []string{"MULTI", "extra"}
		default:
			args = c09DataCmd(rng, sess.InMulti)
		}
		before := d.r.Violations()
		got, ok := d.stepOn(conn, args)
		if !ok {
			return
		}
		r.Eval(1)
		name := strings.ToUpper(args[0])
		st := "normal"
		if sess.InMulti {
			st = "in-multi"
		}
		r.Distinct(fmt.Sprintf("program/%s/%s/%s", name, st, model.Class(got)))
		if name == "EXEC" && got.Kind == '*' && !got.Null {
			for _, e := range got.Elems {
				r.Distinct("exec-element/" + model.Class(e))
			}
		}
		// after a divergence in a transaction-control command the two sides may disagree on the MULTI state: start over
		_ = before
		if d.lastDiverged {
			d.reconnect(conn)
		}
	}
	// leave the transaction state clean and compare once more
	if d.sessions[0].InMulti {
		d.stepOn(0, []string{"DISCARD"})
	}
}

func c09Sequential(r *verdict.Run, nprog int) {
	perChild := 20
	nsh := (nprog + perChild - 1) / perChild
	parallel(nsh, 16, func(shard int) {
		rng := shardRng(r, shard)
		c, err := startChild(false)
		if err != nil {
			r.Inconclusive("cannot start child")
			return
		}
		defer func() { c.Stop() }()
		for i := 0; i < perChild && shard*perChild+i < nprog; i++ {
			if !c.Alive() {
				c.Stop()
				if c, err = startChild(false); err != nil {
					return
				}
			}
			d, err := newDiffEnv(r, c, c09Keys)
			if err != nil {
				r.Count("infra_retries", 1)
				c.Stop()
				c, _ = startChild(false)
				continue
			}
			d.monitor = "txn"
			if _, err := d.addConn(); err != nil {
				d.close()
				continue
			}
			can := newCanary(d.emu.port)
			for _, s := range [][]string{{"SET", "x", "1"}, {"SET", "y", "1"}, {"RPUSH", "l", "a", "b"}, {"HSET", "h", "f", "1"}, {"SADD", "s", "m"}} {
				d.stepOn(1, s)
			}
			c09Program(r, d, rng, 40+rng.Intn(40))
			if ok, why := can.check(5 * time.Second); !ok && c.Alive() {
				dump := c.SigQuitDump()
				r.Report("txn/stall-after-program", "the canary connection is no longer served after a transaction program: "+why+"\n"+stallSummary(dump), d.replay(nil))
			}
			can.close()
			if shard == 0 && i == 0 {
				var sample []string
				for _, s := range d.log {
					if len(sample) < 14 {
						sample = append(sample, cmdString(s.Cmd)+" -> "+s.Got)
					}
				}
				r.Sample(map[string]any{"program_prefix": sample})
			}
			d.close()
		}
	})
}

// c09Isolation: transactions that must be observed all-or-nothing by concurrent readers.
func c09Isolation(r *verdict.Run, runs int, race bool) {
	parallel(runs, 8, func(run int) {
		c, err := startChild(race)
		if err != nil {
			r.Inconclusive("cannot start child")
			return
		}
		defer c.Stop()
		defer reportLockMonitor(r, c)
		enableLockMonitor(c)
		e, err := startEmu(c, "")
		if err != nil {
			r.Inconclusive("infra: " + err.Error())
			return
		}
		// widen the window inside EXEC (the exclusive lock is held: this cannot create an interleaving the
		// program does not have, it only gives other clients time to slip in if exclusivity were broken)
		c.Ctl("seed %d", r.Seed*131+int64(run))
		c.Ctl("yield exec:between-commands 500 300")
		c.Ctl("yield ds: 100 50")
		setup, _ := e.dial()
		setup.Pipeline([][]string{{"SET", "x", "0"}, {"SET", "y", "0"}, {"SET", "tokA", "t"}, {"RPUSH", "la", "tok"}})
		setup.Close()
		var stop atomic.Bool
		var wg sync.WaitGroup
		var txns, reads, torn atomic.Int64
		// writers end by themselves (150 transactions each, or a failed connection); the wait below follows them, not
		// the transaction count, so that writers which lose their connections cannot make it wait for ever
		var wwg sync.WaitGroup
		var lostMu sync.Mutex
		var lost []string // how writers' connections failed
		writer := func(id int) {
			defer wg.Done()
			defer wwg.Done()
			cn, err := e.dial()
			if err != nil {
				noteInfra("isolation: a writer could not connect")
				return
			}
			defer cn.Close()
			for i := 0; !stop.Load() && i < 150; i++ {
				var cmds [][]string
				switch (i + id) % 3 {
				case 0: // x and y move together
					cmds = [][]string{{"MULTI"}, {"INCR", "x"}, {"INCR", "y"}, {"EXEC"}}
				case 1: // a token is in exactly one of two string keys
					cmds = [][]string{{"MULTI"}, {"RENAME", "tokA", "tokB"}, {"RENAME", "tokB", "tokA"}, {"EXEC"}}
				case 2: // an element moves between two lists and back
					cmds = [][]string{{"MULTI"}, {"LMOVE", "la", "lb", "LEFT", "LEFT"}, {"LMOVE", "lb", "la", "LEFT", "LEFT"}, {"EXEC"}}
				}
				vs, err := cn.Pipeline(cmds)
				if err != nil {
					if !stop.Load() {
						kind := "timeout"
						if wire.IsClosedErr(err) {
							kind = "closed"
						}
						lostMu.Lock()
						lost = append(lost, fmt.Sprintf("%s|writer %d, transaction %d (%s): %d of %d replies, then %v", kind, id, i, cmdString(cmds[1]), len(vs), len(cmds), err))
						lostMu.Unlock()
					}
					return
				}
				last := vs[len(vs)-1]
				if last.Kind != '*' || last.Null || len(last.Elems) != 2 {
					r.Report("isolation/exec-reply", fmt.Sprintf("EXEC of a 2-command transaction replied %s", last), map[string]any{"commands": cmds})
				}
				txns.Add(1)
			}
		}
		reader := func() {
			defer wg.Done()
			cn, err := e.dial()
			if err != nil {
				return
			}
			defer cn.Close()
			for !stop.Load() {
				v, err := cn.Do("MGET", "x", "y", "tokA", "tokB")
				if err != nil {
					return
				}
				reads.Add(1)
				if len(v.Elems) == 4 {
					if v.Elems[0].Text() != v.Elems[1].Text() {
						torn.Add(1)
						r.Report("isolation/half-done-transaction-observed/incr-pair", fmt.Sprintf("MGET x y = %s %s while every transaction increments both", v.Elems[0], v.Elems[1]), map[string]any{"observed": v.String()})
					}
					if v.Elems[2].Null == v.Elems[3].Null {
						torn.Add(1)
						r.Report("isolation/half-done-transaction-observed/token", fmt.Sprintf("MGET tokA tokB = %s %s: the token must be in exactly one key outside a transaction, and in tokA", v.Elems[2], v.Elems[3]), map[string]any{"observed": v.String()})
					} else if v.Elems[2].Null {
						torn.Add(1)
						r.Report("isolation/half-done-transaction-observed/token", "the token was seen in tokB: a reader ran between the two RENAMEs of one transaction", map[string]any{"observed": v.String()})
					}
				}
				ex, err := cn.Do("EXISTS", "la", "lb")
				if err != nil {
					return
				}
				if ex.Int != 1 {
					torn.Add(1)
					r.Report("isolation/half-done-transaction-observed/list-move", fmt.Sprintf("EXISTS la lb = %d (must be exactly 1)", ex.Int), nil)
				}
				lb, _ := cn.Do("LLEN", "lb")
				if lb.Int != 0 {
					torn.Add(1)
					r.Report("isolation/half-done-transaction-observed/list-move", "the element was seen in lb between the two LMOVEs of one transaction", nil)
				}
			}
		}
		for i := 0; i < 4; i++ {
			wg.Add(1)
			wwg.Add(1)
			go writer(i)
		}
		wdone := make(chan struct{})
		go func() { wwg.Wait(); close(wdone) }()
		rdone := make(chan struct{})
		var rwg sync.WaitGroup
		for i := 0; i < 4; i++ {
			wg.Add(1)
			rwg.Add(1)
			go func() { defer rwg.Done(); reader() }()
		}
		go func() { rwg.Wait(); close(rdone) }()
		// writers finish after 150 transactions each; then stop the readers
		time.Sleep(50 * time.Millisecond)
	waitWriters:
		for c.Alive() && reads.Load() <= 400000 {
			select {
			case <-wdone:
				break waitWriters
			case <-time.After(10 * time.Millisecond):
			}
		}
		stop.Store(true)
		wg.Wait()
		// a writer whose connection the emulator closed in the middle of MULTI ... EXEC while the process lives was not
		// answered; a reply that did not come within the connection's watchdog decides nothing by itself
		for _, l := range lost {
			kind, what, _ := strings.Cut(l, "|")
			if kind == "closed" && c.Alive() {
				r.Report("isolation/transaction-connection-closed", "the emulator closed the connection of a client that only runs MULTI / two commands / EXEC: "+what, nil)
			} else {
				r.Inconclusive("isolation: a writer's connection failed (" + kind + ")")
			}
		}
		fin, err := e.dial()
		if err == nil {
			v, _ := fin.Do("MGET", "x", "y")
			if len(v.Elems) == 2 {
				want := strconv.FormatInt(txns.Load(), 10)
				_ = want
				if v.Elems[0].Text() != v.Elems[1].Text() {
					r.Report("isolation/final-state", fmt.Sprintf("after all transactions x=%s y=%s", v.Elems[0], v.Elems[1]), nil)
				}
			}
			fin.Close()
		}
		r.Eval(int(txns.Load()))
		r.Count("isolation_transactions", txns.Load())
		r.Count("isolation_concurrent_reads", reads.Load())
		r.Distinct(fmt.Sprintf("isolation/run-%d/txns-%d", run, txns.Load()/100))
		if race {
			c.QuitGracefully()
			for _, rep := range c.RaceReports() {
				r.Report("race/"+rep.Sig, "race detector report during the transaction isolation workload:\n"+headLines(rep.Text, 40), nil)
			}
		}
	})
}

var _ = wire.Now
var _ = resp.Cmd

func checkC09(r *verdict.Run) {
	r.Rule = "(1) random transaction programs on one connection (any order of MULTI/EXEC/DISCARD/WATCH/UNWATCH, queued commands of all families incl. run-time failures, queue-time rejections, blocking commands with timeout 0, SELECT) with a second connection interfering, in lock step with the reference model: QUEUED replies, nothing visible before EXEC (state compared after every step through an observer connection), EXEC array per queued command or EXECABORT/null, state machine after EXEC/DISCARD, misuse errors; " +
		"(2) isolation under concurrency: 4 writers run transactions that keep invariants (x = y, a token in exactly one key, an element in exactly one list) while 4 readers check them with atomic multi-key reads, with yields injected between the commands of EXEC; (3) canary liveness after every program; (4) commands with locks of their own (CLIENT LIST/INFO/KILL/UNBLOCK, INFO, FLUSHALL, SELECT, KEYS, COPY ...) inside transactions on four connections and outside on four others at the same time: every command must be answered; (6) directed programs in lock step with the model: every blocking command (timeouts 0 and 30, empty and non-empty source) queued after queued SELECTs to a used, a never used and the own database, followed by further queued commands - EXEC must answer everything at once, in order; (7) a connection that is killed (by itself through a queued CLIENT KILL ... SKIPME no at any position, or by another client while its EXEC is parked between two commands) still runs its whole queue: afterwards all of the transaction's writes are there; (8) a fault (panic) injected at the handler of one queued command, at every position of the queue: EXEC still answers one reply per command - an error for that one -, the others take effect and the connection is back in normal mode; (9) commands queued before another client flushes the database and re-creates the keys, executed afterwards (DEL/UNLINK/GETDEL/last-element pops/RENAME/KEYS/DBSIZE/SCAN...): replies and state as if EXEC ran after the flush; (5) isolation against other databases: transactions in database 0 (five INCRs of one key must answer consecutive numbers, x and y are set together) while connections in other databases run FLUSHALL (plain, queued, ASYNC) and transactions with a queued SELECT 0. " +
		"distinct = (command, MULTI state, outcome class) + EXEC element classes + isolation runs"
	c09Sequential(r, tierPick(r, 400, 8000))
	c09BlockingInsideTransactions(r)
	c09KilledMidTransaction(r)
	c09FaultInQueuedCommand(r)
	queuedAcrossFlush(r, "txn")
	c09Isolation(r, tierPick(r, 6, 40), false)
	c09Introspection(r, tierPick(r, 8, 60))
	c09IsolationAcrossDatabases(r, tierPick(r, 6, 40))
	if r.Tier == "thorough" {
		c09Isolation(r, 6, true)
	}
}

func pick2(rng *rand.Rand, l [][]string) []string { return l[rng.Intn(len(l))] }

// c09Introspection: commands that take locks of their own (the client table, the statistics, other databases) run
// inside transactions on some connections and outside on others at the same time. Every command must be answered:
// a lock order that differs between the two paths shows as a wedge of all participants.
func c09Introspection(r *verdict.Run, runs int) {
	inside := [][]string{{"CLIENT", "LIST"}, {"CLIENT", "INFO"}, {"CLIENT", "KILL", "ID", "999999"}, {"CLIENT", "UNBLOCK", "999999"}, {"INFO"}, {"CLIENT", "GETNAME"}, {"CLIENT", "SETNAME", "n"}, {"DBSIZE"}, {"KEYS", "*"},
		{"FLUSHALL"}, {"SELECT", "1"}, {"COPY", "x", "y", "REPLACE"}, {"RANDOMKEY"}, {"SCAN", "0"}, {"COMMAND", "COUNT"}, {"SET", "x", "1"}}
	outside := [][]string{{"CLIENT", "LIST"}, {"CLIENT", "INFO"}, {"CLIENT", "KILL", "ID", "999998"}, {"CLIENT", "UNBLOCK", "999998"}, {"INFO"}, {"FLUSHALL"}, {"FLUSHDB"}, {"DBSIZE"}, {"CLIENT", "LIST", "ID", "1", "2"},
		{"SELECT", "1"}, {"SELECT", "0"}, {"SET", "x", "2"}, {"KEYS", "*"}, {"HELLO", "3"}, {"HELLO", "2"}}
	parallel(runs, 8, func(run int) {
		c, err := startChild(false)
		if err != nil {
			r.Inconclusive("cannot start child")
			return
		}
		defer c.Stop()
		e, err := startEmu(c, "")
		if err != nil {
			r.Inconclusive("infra: " + err.Error())
			return
		}
		defer reportLockMonitor(r, c)
		enableLockMonitor(c)
		c.Ctl("seed %d", r.Seed*59+int64(run))
		c.Ctl("yield ds: 200 100")
		c.Ctl("yield cs:checking 300 150")
		c.Ctl("yield exec:between-commands 300 200")
		var wg sync.WaitGroup
		var stuck atomic.Int64
		var ops atomic.Int64
		var mu sync.Mutex
		var lastCmds []string
		worker := func(id int, txn bool) {
			defer wg.Done()
			cn, err := e.dial()
			if err != nil {
				return
			}
			defer cn.Close()
			cn.Proto = 3
			cn.Timeout = 8 * time.Second
			if run%2 == 1 {
				// every other run spreads the connections over four databases: introspection commands of different
				// databases are not serialized by a data store lock and look at the same clients at the same time
				cn.Do("SELECT", strconv.Itoa(id%4))
			}
			rng := shardRng(r, 7000+run*100+id)
			own, _ := cn.ClientID()
			// forms that name clients that exist (the own id and its neighbours), by id and by other filters
			byID := func() []string {
				switch rng.Intn(4) {
				case 0:
					return []string{"CLIENT", "LIST", "ID", strconv.FormatInt(own, 10)}
				case 1:
					return []string{"CLIENT", "LIST", "ID", strconv.FormatInt(own-1, 10), strconv.FormatInt(own, 10), strconv.FormatInt(own+1, 10)}
				case 2:
					return []string{"CLIENT", "LIST", "TYPE", "normal"}
				}
				return []string{"CLIENT", "KILL", "ID", strconv.FormatInt(own+100000, 10)}
			}
			for i := 0; i < 120 && stuck.Load() == 0; i++ {
				var cmds [][]string
				if txn {
					cmds = [][]string{{"MULTI"}}
					for k := 0; k < 1+rng.Intn(3); k++ {
						if rng.Intn(5) == 0 {
							cmds = append(cmds, byID())
						} else {
							cmds = append(cmds, inside[rng.Intn(len(inside))])
						}
					}
					cmds = append(cmds, []string{"EXEC"})
				} else if rng.Intn(5) == 0 {
					cmds = [][]string{byID()}
				} else {
					cmds = [][]string{outside[rng.Intn(len(outside))]}
				}
				if _, err := cn.Pipeline(cmds); err != nil {
					if stuck.Add(1) == 1 {
						mu.Lock()
						lastCmds = quoteCmds(cmds)
						mu.Unlock()
					}
					return
				}
				ops.Add(int64(len(cmds)))
			}
		}
		for i := 0; i < 4; i++ {
			wg.Add(2)
			go worker(i, true)
			go worker(10+i, false)
		}
		wg.Wait()
		r.Eval(int(ops.Load()))
		r.Count("introspection_commands_answered", ops.Load())
		if stuck.Load() > 0 {
			dump := ""
			if c.Alive() {
				dump = stallSummary(c.SigQuitDump())
			}
			mu.Lock()
			r.Report("txn/wedged/introspection-inside-and-outside-transactions", fmt.Sprintf("run %d: %d connections got no reply within 8 s while 4 connections ran transactions containing CLIENT LIST/KILL/UNBLOCK/INFO/FLUSHALL/... and 4 ran the same commands outside transactions (first unanswered: %v)\ngoroutines blocked on a mutex:\n%s", run, stuck.Load(), lastCmds, dump), map[string]any{"unanswered": lastCmds})
			mu.Unlock()
		}
		r.Distinct(fmt.Sprintf("introspection/run%d/wedged=%v", run%4, stuck.Load() > 0))
	})
}

// c09IsolationAcrossDatabases: transactions in database 0 whose queued commands must see a frozen world (five INCRs
// of one key answer five consecutive numbers; x and y move together), while connections that have OTHER databases
// selected run commands that reach into database 0: FLUSHALL plain and inside MULTI/EXEC, transactions with a queued
// SELECT 0 followed by writes. Those are allowed to happen before or after a transaction, never in the middle of it.
func c09IsolationAcrossDatabases(r *verdict.Run, runs int) {
	parallel(runs, 8, func(run int) {
		c, err := startChild(false)
		if err != nil {
			r.Inconclusive("cannot start child")
			return
		}
		defer c.Stop()
		e, err := startEmu(c, "")
		if err != nil {
			r.Inconclusive("infra: " + err.Error())
			return
		}
		defer reportLockMonitor(r, c)
		enableLockMonitor(c)
		c.Ctl("seed %d", r.Seed*211+int64(run))
		c.Ctl("yield exec:between-commands 600 300")
		var stop atomic.Bool
		var wg sync.WaitGroup
		var txns, broken atomic.Int64
		var mu sync.Mutex
		example := ""
		writer := func(id int) {
			defer wg.Done()
			cn, err := e.dial()
			if err != nil {
				return
			}
			defer cn.Close()
			cn.Timeout = 20 * time.Second
			for i := 0; i < 120 && !stop.Load(); i++ {
				cmds := [][]string{{"MULTI"}, {"INCR", "seq"}, {"INCR", "seq"}, {"SET", "x", strconv.Itoa(i)}, {"INCR", "seq"}, {"SET", "y", strconv.Itoa(i)}, {"INCR", "seq"}, {"MGET", "x", "y"}, {"INCR", "seq"}, {"EXEC"}}
				vs, err := cn.Pipeline(cmds)
				if err != nil {
					return
				}
				txns.Add(1)
				ex := vs[len(vs)-1]
				if ex.Kind != '*' || ex.Null || len(ex.Elems) != 8 {
					continue
				}
				seqs := []int64{ex.Elems[0].Int, ex.Elems[1].Int, ex.Elems[3].Int, ex.Elems[5].Int, ex.Elems[7].Int}
				okSeq := true
				for k := 1; k < len(seqs); k++ {
					if seqs[k] != seqs[k-1]+1 {
						okSeq = false
					}
				}
				mg := ex.Elems[6]
				okPair := mg.Kind == '*' && len(mg.Elems) == 2 && mg.Elems[0].Text() == strconv.Itoa(i) && mg.Elems[1].Text() == strconv.Itoa(i)
				if !okSeq || !okPair {
					broken.Add(1)
					mu.Lock()
					if example == "" {
						example = fmt.Sprintf("EXEC of [INCR seq, INCR seq, SET x %d, INCR seq, SET y %d, INCR seq, MGET x y, INCR seq] replied %s", i, i, ex)
					}
					mu.Unlock()
				}
			}
		}
		intruder := func(id int) {
			defer wg.Done()
			cn, err := e.dial()
			if err != nil {
				return
			}
			defer cn.Close()
			cn.Timeout = 20 * time.Second
			cn.Do("SELECT", strconv.Itoa(1+id%3))
			for i := 0; !stop.Load(); i++ {
				switch (i + id) % 4 {
				case 0:
					cn.Do("FLUSHALL")
				case 1:
					cn.Pipeline([][]string{{"MULTI"}, {"FLUSHALL"}, {"EXEC"}})
				case 2:
					cn.Pipeline([][]string{{"MULTI"}, {"SELECT", "0"}, {"SET", "x", "intruder"}, {"DEL", "seq"}, {"SELECT", strconv.Itoa(1 + id%3)}, {"EXEC"}})
				case 3:
					cn.Pipeline([][]string{{"MULTI"}, {"SET", "local", "1"}, {"FLUSHALL", "ASYNC"}, {"EXEC"}})
				}
				time.Sleep(time.Duration(200+i%7*100) * time.Microsecond)
			}
		}
		for w := 0; w < 3; w++ {
			wg.Add(1)
			go writer(w)
		}
		for k := 0; k < 3; k++ {
			wg.Add(1)
			go intruder(k)
		}
		// the writers end by themselves; then the intruders are stopped
		done := make(chan struct{})
		go func() {
			for txns.Load() < 360 {
				time.Sleep(5 * time.Millisecond)
				select {
				case <-done:
					return
				default:
				}
			}
			stop.Store(true)
		}()
		time.AfterFunc(20*time.Second, func() { stop.Store(true) })
		wg.Wait()
		close(done)
		r.Eval(int(txns.Load()))
		r.Count("cross_database_isolation_transactions", txns.Load())
		if broken.Load() > 0 {
			mu.Lock()
			r.Report("txn/isolation/changed-from-another-database-in-the-middle-of-exec", fmt.Sprintf("run %d: %d of %d transactions in database 0 saw their world change between two of their own commands while connections in other databases ran FLUSHALL (plain, queued, ASYNC) and transactions with a queued SELECT 0; e.g. %s", run, broken.Load(), txns.Load(), example), nil)
			mu.Unlock()
		}
		r.Distinct(fmt.Sprintf("isolation-across-databases/run%d/broken=%v", run%4, broken.Load() > 0))
	})
}

// c09BlockingInsideTransactions: EXEC runs its queue as one unit, so a queued blocking command can never wait - also
// when the transaction has moved to another database by a queued SELECT before it. Directed programs, compared with
// the reference model step by step (a wait shows as a missing EXEC reply).
func c09BlockingInsideTransactions(r *verdict.Run) {
	c, err := startChild(false)
	if err != nil {
		r.Inconclusive("cannot start child")
		return
	}
	defer func() { c.Stop() }()
	preludes := [][][]string{nil, {{"SELECT", "1"}}, {{"SELECT", "1"}, {"SELECT", "0"}}, {{"SELECT", "9"}}, {{"SELECT", "0"}}, {{"SELECT", "1"}, {"RPUSH", "l", "in-db-1"}}, {{"SELECT", "16"}}, {{"SELECT", "2"}, {"DEL", "l"}}}
	for fi, f := range blkForms {
		d, err := newDiffEnv(r, c, c09Keys)
		if err != nil {
			r.Inconclusive("infra: " + err.Error())
			return
		}
		d.monitor = "txn"
		if _, err := d.addConn(); err != nil {
			d.close()
			continue
		}
		d.cn.Timeout = 6 * time.Second
		for pi, prelude := range preludes {
			to := []string{"0", "30"}[(pi+fi)%2]
			prog := [][]string{{"DEL", "l", "dst", "n"}, {"MULTI"}}
			prog = append(prog, prelude...)
			prog = append(prog, f.args([]string{"l"}, to), []string{"INCR", "n"}, []string{"RPUSH", "l", "e1", "e2"}, f.args([]string{"l"}, to), []string{"INCR", "n"}, []string{"EXEC"}, []string{"GET", "n"}, []string{"SELECT", "0"}, []string{"LRANGE", "l", "0", "-1"})
			okAll := true
			for _, args := range prog {
				if _, ok := d.stepOn(0, args); !ok {
					okAll = false
					break
				}
				r.Eval(1)
			}
			if !okAll || d.lastDiverged {
				d.close()
				if !c.Alive() {
					c.Stop()
					if c, err = startChild(false); err != nil {
						return
					}
				}
				if d, err = newDiffEnv(r, c, c09Keys); err != nil {
					return
				}
				d.monitor = "txn"
				d.addConn()
				d.cn.Timeout = 6 * time.Second
				continue
			}
			r.Distinct(fmt.Sprintf("blocking-in-exec/%s/prelude-%d/timeout-%s", f.name, pi, to))
		}
		d.close()
	}
}

// c09KilledMidTransaction: EXEC runs the whole queue as one unit also when the connection is closed from the server
// side while it runs - by a CLIENT KILL of itself queued at any position, or by another client's CLIENT KILL that lands
// while EXEC is between two commands. Afterwards either none or all of the transaction's writes are visible; since EXEC
// had started, all of them.
func c09KilledMidTransaction(r *verdict.Run) {
	c, err := startChild(false)
	if err != nil {
		r.Inconclusive("cannot start child")
		return
	}
	defer func() { c.Stop() }()
	e, err := startEmu(c, "")
	if err != nil {
		r.Inconclusive("infra: " + err.Error())
		return
	}
	obs, err := e.dial()
	if err != nil {
		return
	}
	defer obs.Close()
	const nw = 6
	check := func(name, tag string, rep map[string]any) {
		var missing []string
		for i := 0; i < nw; i++ {
			v, _ := obs.Do("GET", fmt.Sprintf("kt:%d", i))
			if v.Text() != tag {
				missing = append(missing, fmt.Sprintf("kt:%d=%s", i, v))
			}
		}
		r.Eval(1)
		if len(missing) > 0 && len(missing) < nw {
			r.Report("txn/killed-connection/transaction-half-applied/"+name, fmt.Sprintf("%s: the transaction writes %d keys with the value %q; afterwards %v differ - EXEC did not run its queue as one unit", name, nw, tag, missing), rep)
		} else if len(missing) == nw {
			r.Report("txn/killed-connection/transaction-not-applied/"+name, fmt.Sprintf("%s: EXEC had started but none of its %d writes is there", name, nw), rep)
		} else {
			r.Distinct("killed-mid-transaction/" + name)
		}
	}
	// (a) the kill is one of the queued commands
	for pos := 0; pos <= nw; pos++ {
		for _, form := range []string{"id-skipme-no", "addr-skipme-no"} {
			cn, err := e.dial()
			if err != nil {
				return
			}
			id, _ := cn.ClientID()
			tag := fmt.Sprintf("self-%d-%s", pos, form)
			kill := []string{"CLIENT", "KILL", "ID", strconv.FormatInt(id, 10), "SKIPME", "no"}
			if form == "addr-skipme-no" {
				kill = []string{"CLIENT", "KILL", "ADDR", cn.C.LocalAddr().String(), "SKIPME", "no"}
			}
			prog := [][]string{{"MULTI"}}
			for i := 0; i <= nw; i++ {
				if i == pos {
					prog = append(prog, kill)
				}
				if i < nw {
					prog = append(prog, []string{"SET", fmt.Sprintf("kt:%d", i), tag})
				}
			}
			prog = append(prog, []string{"EXEC"})
			var b []byte
			for _, p := range prog {
				b = append(b, resp.Cmd(p...)...)
			}
			cn.Send(b)
			// the connection is closed by the server; read until it is
			for {
				if _, _, err := cn.ReadValue(3 * time.Second); err != nil {
					break
				}
			}
			cn.Close()
			check(fmt.Sprintf("self-kill-at-position-%d/%s", pos, form), tag, map[string]any{"program": progString(prog)})
		}
	}
	// (b) another client kills the connection while its EXEC is parked between two commands
	aux, err := e.dial()
	if err != nil {
		return
	}
	defer aux.Close()
	for round := 0; round < 4; round++ {
		w, err := newWaiter(e)
		if err != nil {
			return
		}
		s := &c11Scn{r: r, c: c, e: e, aux: aux, name: fmt.Sprintf("killed-during-exec/%d", round)}
		tag := fmt.Sprintf("other-%d", round)
		w.cn.Do("MULTI")
		for i := 0; i < nw; i++ {
			w.cn.Do("SET", fmt.Sprintf("kt:%d", i), tag)
		}
		tok, parked := s.parkAt(w, "exec:between-commands", []string{"EXEC"})
		if !parked {
			r.Inconclusive("hook point exec:between-commands not reached")
			w.cn.Close()
			continue
		}
		kill := []string{"CLIENT", "KILL", "ID", strconv.FormatInt(w.id, 10)}
		if round%2 == 1 {
			kill = []string{"CLIENT", "KILL", "ADDR", w.cn.C.LocalAddr().String()}
		}
		kv := s.do(kill...)
		time.Sleep(20 * time.Millisecond)
		s.release(tok)
		w.finished(3 * time.Second)
		time.Sleep(50 * time.Millisecond)
		w.cn.Close()
		check(fmt.Sprintf("killed-by-another-client-during-exec/%s", strings.ToLower(kill[2])), tag, map[string]any{"kill_reply": kv.String(), "script": s.log})
	}
}

// c09FaultInQueuedCommand: "a runtime error in one command does not stop the others" also holds for the worst runtime
// error, a handler that panics (the hook cmd:handler panics on request). One command of a transaction fails that way,
// at every position: EXEC answers one reply per queued command, the failed one with an error, every other command
// takes effect exactly once, and afterwards the connection is in normal mode with an empty queue.
func c09FaultInQueuedCommand(r *verdict.Run) {
	c, err := startChild(false)
	if err != nil {
		r.Inconclusive("cannot start child")
		return
	}
	defer func() { c.Stop() }()
	e, err := startEmu(c, "")
	if err != nil {
		r.Inconclusive("infra: " + err.Error())
		return
	}
	obs, err := e.dial()
	if err != nil {
		return
	}
	defer obs.Close()
	const n = 5
	for pos := 0; pos <= n; pos++ {
		for _, victim := range [][]string{{"ECHO", "x"}, {"LRANGE", "fl", "0", "-1"}, {"HSET", "fh", "f", "v"}} {
			if !c.Alive() {
				r.Report("txn/fault-in-queued-command/process-died", "the emulator died when a handler fault was injected inside EXEC:\n"+headLines(c.StderrHead(20000), 20), nil)
				return
			}
			cn, err := e.dial()
			if err != nil {
				return
			}
			cn.Timeout = 5 * time.Second
			id, _ := cn.ClientID()
			obs.Do("DEL", "fc", "fl", "fh")
			prog := [][]string{{"MULTI"}}
			for i := 0; i <= n; i++ {
				if i == pos {
					prog = append(prog, victim)
				}
				if i < n {
					prog = append(prog, []string{"INCR", "fc"})
				}
			}
			for _, p := range prog {
				cn.Do(p...)
			}
			c.Ctl("panicat cmd:handler %d %s", id, strings.ToLower(victim[0]))
			ex, err := cn.Do("EXEC")
			r.Eval(1)
			name := fmt.Sprintf("%s-at-%d", strings.ToLower(victim[0]), pos)
			rep := map[string]any{"program": progString(prog), "fault_at": victim}
			if err != nil {
				r.Report("txn/fault-in-queued-command/no-exec-reply", fmt.Sprintf("%s: EXEC got no reply after a fault in one queued command: %v", name, err), rep)
				cn.Close()
				continue
			}
			okShape := ex.Kind == '*' && len(ex.Elems) == n+1
			if okShape {
				for i, el := range ex.Elems {
					if i == pos && !el.IsError() {
						okShape = false
					}
					if i != pos && el.IsError() {
						okShape = false
					}
				}
			}
			fc, _ := obs.Do("GET", "fc")
			after, _ := cn.Do("PING")
			ex2, _ := cn.Do("EXEC")
			fc2, _ := obs.Do("GET", "fc")
			switch {
			case !okShape:
				r.Report("txn/fault-in-queued-command/exec-reply", fmt.Sprintf("%s: EXEC replied %s (expected %d replies with an error at position %d only)", name, ex, n+1, pos), rep)
			case fc.Text() != strconv.Itoa(n):
				r.Report("txn/fault-in-queued-command/other-commands-not-applied", fmt.Sprintf("%s: the %d INCRs around the failed command left fc = %s", name, n, fc), rep)
			case after.Text() != "PONG" || !ex2.IsError():
				r.Report("txn/fault-in-queued-command/still-in-multi", fmt.Sprintf("%s: after EXEC the connection answers PING with %s and a second EXEC with %s", name, after, ex2), rep)
			case fc2.Text() != fc.Text():
				r.Report("txn/fault-in-queued-command/queue-executed-again", fmt.Sprintf("%s: a second EXEC changed fc from %s to %s", name, fc, fc2), rep)
			default:
				r.Distinct("fault-in-queued-command/" + name)
			}
			cn.Close()
		}
	}
}

// queuedAcrossFlush: a command is queued in MULTI, then ANOTHER client flushes the database (FLUSHDB, FLUSHALL, from
// the same or another database) and re-creates the keys, then EXEC runs. Whatever a queued command remembered from
// the time it was queued, it executes in the world as it is at EXEC: replies and the resulting state are those of the
// sequential order flush < re-create < EXEC (the reference model executes exactly that).
func queuedAcrossFlush(r *verdict.Run, monitor string) {
	c, err := startChild(false)
	if err != nil {
		r.Inconclusive("cannot start child")
		return
	}
	defer func() { c.Stop() }()
	queued := [][]string{{"DEL", "k"}, {"UNLINK", "k", "l"}, {"GETDEL", "k"}, {"LPOP", "l"}, {"RPOP", "l", "5"}, {"HDEL", "h", "f"}, {"SREM", "s", "m"}, {"RENAME", "k", "k2"}, {"LMOVE", "l", "l2", "LEFT", "RIGHT"},
		{"SMOVE", "s", "s2", "m"}, {"KEYS", "*"}, {"DBSIZE"}, {"RANDOMKEY"}, {"SCAN", "0", "COUNT", "100"}, {"EXISTS", "k", "l", "h", "s"}, {"COPY", "k", "k3"}, {"SET", "k", "mine"}, {"APPEND", "k", "+"}, {"EXPIRE", "k", "-1"},
		{"SINTERSTORE", "s", "s", "nokey"}, {"LTRIM", "l", "5", "9"}, {"SORT", "l", "ALPHA", "STORE", "l3"}, {"TYPE", "k"}, {"FLUSHDB"}}
	recreate := [][]string{{"SET", "k", "after"}, {"RPUSH", "l", "e1"}, {"HSET", "h", "f", "v2"}, {"SADD", "s", "m"}}
	for qi, q := range queued {
		for fi, flush := range [][]string{{"FLUSHDB"}, {"FLUSHALL"}, {"SELECT", "3", "FLUSHALL"}} {
			if !c.Alive() {
				c.Stop()
				if c, err = startChild(false); err != nil {
					return
				}
			}
			d, err := newDiffEnv(r, c, []string{"k", "k2", "k3", "l", "l2", "l3", "h", "s", "s2"})
			if err != nil {
				r.Inconclusive("infra: " + err.Error())
				return
			}
			d.monitor = monitor
			d.addConn()
			ok := true
			step := func(ci int, args ...string) {
				if ok {
					_, ok = d.stepOn(ci, args)
					r.Eval(1)
				}
			}
			for _, p := range [][]string{{"SET", "k", "before"}, {"RPUSH", "l", "b1", "b2"}, {"HSET", "h", "f", "v1", "g", "w"}, {"SADD", "s", "m", "n"}} {
				step(1, p...)
			}
			step(0, "MULTI")
			step(0, q...)
			step(0, "GET", "k")
			if len(flush) == 3 {
				step(1, flush[0], flush[1])
				step(1, flush[2])
				step(1, "SELECT", "0")
			} else {
				step(1, flush...)
			}
			for _, p := range recreate {
				step(1, p...)
			}
			step(0, "EXEC")
			step(1, "DBSIZE")
			if ok && !d.lastDiverged {
				r.Distinct(fmt.Sprintf("queued-across-flush/%s/%d", strings.ToLower(q[0]), fi))
			}
			d.close()
			_ = qi
		}
	}
}
