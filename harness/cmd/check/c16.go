package main

import (
	"fmt"
	"math/rand"
	"os"
	"path/filepath"
	"sort"
	"strconv"
	"strings"
	"sync"
	"sync/atomic"
	"time"

	"verif/harness/host"
	"verif/harness/resp"
	"verif/harness/verdict"
	"verif/harness/wire"
)

func init() { register("C16", "exploration", checkC16) }

type c16Class struct {
	name string
	// op issues one command (or a short fixed group) on cn; other is the id of some other live connection
	op func(cn *wire.Conn, rng *rand.Rand, i int, env *c16Env) error
}

type c16Env struct {
	e       *emu
	otherID atomic.Int64
}

func do(cn *wire.Conn, args ...string) error {
	_, err := cn.Do(args...)
	return err
}

func pipe(cn *wire.Conn, cmds ...[]string) error {
	_, err := cn.Pipeline(cmds)
	return err
}

var c16Classes = []c16Class{
	{"string-write", func(cn *wire.Conn, rng *rand.Rand, i int, _ *c16Env) error {
		k := "k" + strconv.Itoa(rng.Intn(3))
		switch i % 5 {
		case 0:
			return do(cn, "SET", k, "v"+strconv.Itoa(i))
		case 1:
			return do(cn, "APPEND", k, "x")
		case 2:
			return do(cn, "SETRANGE", k, "2", "y")
		case 3:
			return do(cn, "GETSET", k, "z")
		}
		return do(cn, "MSET", "k0", "a", "k1", "b")
	}},
	{"string-read", func(cn *wire.Conn, rng *rand.Rand, i int, _ *c16Env) error {
		k := "k" + strconv.Itoa(rng.Intn(3))
		switch i % 4 {
		case 0:
			return do(cn, "GET", k)
		case 1:
			return do(cn, "STRLEN", k)
		case 2:
			return do(cn, "GETRANGE", k, "0", "3")
		}
		return do(cn, "MGET", "k0", "k1", "k2")
	}},
	{"counter", func(cn *wire.Conn, rng *rand.Rand, i int, _ *c16Env) error {
		switch i % 3 {
		case 0:
			return do(cn, "INCR", "cnt")
		case 1:
			return do(cn, "INCRBYFLOAT", "fcnt", "0.5")
		}
		return do(cn, "DECRBY", "cnt", "2")
	}},
	{"list-write", func(cn *wire.Conn, rng *rand.Rand, i int, _ *c16Env) error {
		switch i % 8 {
		case 0:
			return do(cn, "RPUSH", "l0", "a", "b")
		case 1:
			return do(cn, "LPUSH", "l0", "c")
		case 2:
			return do(cn, "LPOP", "l0")
		case 3:
			return do(cn, "LSET", "l0", "0", "s")
		case 4:
			return do(cn, "LTRIM", "l0", "0", "20")
		case 5:
			return do(cn, "LINSERT", "l0", "BEFORE", "a", "i")
		case 6:
			return do(cn, "LREM", "l0", "1", "b")
		}
		return do(cn, "LMOVE", "l0", "l1", "LEFT", "RIGHT")
	}},
	{"list-read", func(cn *wire.Conn, rng *rand.Rand, i int, _ *c16Env) error {
		switch i % 4 {
		case 0:
			return do(cn, "LRANGE", "l0", "0", "-1")
		case 1:
			return do(cn, "LLEN", "l0")
		case 2:
			return do(cn, "LINDEX", "l0", "1")
		}
		return do(cn, "LPOS", "l0", "a")
	}},
	{"blocking-pop", func(cn *wire.Conn, rng *rand.Rand, i int, _ *c16Env) error {
		switch i % 5 {
		case 0:
			return do(cn, "BLPOP", "bq", "l0", "0.02")
		case 1:
			return do(cn, "RPUSH", "bq", "e")
		case 2:
			return do(cn, "BRPOP", "bq", "0.01")
		case 3:
			return do(cn, "BLMOVE", "bq", "l1", "LEFT", "LEFT", "0.01")
		}
		return do(cn, "BLMPOP", "0.01", "2", "bq", "l1", "RIGHT")
	}},
	{"hash-write", func(cn *wire.Conn, rng *rand.Rand, i int, _ *c16Env) error {
		f := "f" + strconv.Itoa(rng.Intn(40))
		switch i % 4 {
		case 0:
			return do(cn, "HSET", "h0", f, "v")
		case 1:
			return do(cn, "HDEL", "h0", f)
		case 2:
			return do(cn, "HINCRBY", "h0", "n", "1")
		}
		return do(cn, "HSETNX", "h0", f, "w")
	}},
	{"hash-read", func(cn *wire.Conn, rng *rand.Rand, i int, _ *c16Env) error {
		switch i % 4 {
		case 0:
			return do(cn, "HGETALL", "h0")
		case 1:
			return do(cn, "HLEN", "h0")
		case 2:
			return do(cn, "HRANDFIELD", "h0", "2", "WITHVALUES")
		}
		return do(cn, "HMGET", "h0", "f1", "f2")
	}},
	{"set-write", func(cn *wire.Conn, rng *rand.Rand, i int, _ *c16Env) error {
		m := "m" + strconv.Itoa(rng.Intn(40))
		switch i % 3 {
		case 0:
			return do(cn, "SADD", "s0", m)
		case 1:
			return do(cn, "SREM", "s0", m)
		}
		return do(cn, "SMOVE", "s0", "s1", m)
	}},
	{"set-read", func(cn *wire.Conn, rng *rand.Rand, i int, _ *c16Env) error {
		switch i % 4 {
		case 0:
			return do(cn, "SMEMBERS", "s0")
		case 1:
			return do(cn, "SRANDMEMBER", "s0", "3")
		case 2:
			return do(cn, "SINTER", "s0", "s1")
		}
		return do(cn, "SINTERCARD", "2", "s0", "s1")
	}},
	{"set-algebra-store", func(cn *wire.Conn, rng *rand.Rand, i int, _ *c16Env) error {
		switch i % 3 {
		case 0:
			return do(cn, "SUNIONSTORE", "s2", "s0", "s1")
		case 1:
			return do(cn, "SDIFFSTORE", "s1", "s0", "s2")
		}
		return do(cn, "SINTERSTORE", "s2", "s0", "s1")
	}},
	{"keyspace-write", func(cn *wire.Conn, rng *rand.Rand, i int, _ *c16Env) error {
		switch i % 5 {
		case 0:
			return do(cn, "DEL", "k"+strconv.Itoa(rng.Intn(3)))
		case 1:
			return do(cn, "UNLINK", "l1")
		case 2:
			return do(cn, "RENAME", "k0", "k1")
		case 3:
			return do(cn, "COPY", "h0", "h1", "REPLACE")
		}
		return do(cn, "RENAMENX", "k1", "k2")
	}},
	{"keyspace-read", func(cn *wire.Conn, rng *rand.Rand, i int, _ *c16Env) error {
		switch i % 5 {
		case 0:
			return do(cn, "EXISTS", "k0", "l0", "h0")
		case 1:
			return do(cn, "TYPE", "k0")
		case 2:
			return do(cn, "KEYS", "*")
		case 3:
			return do(cn, "RANDOMKEY")
		}
		return do(cn, "TOUCH", "k0", "k1")
	}},
	{"expiry", func(cn *wire.Conn, rng *rand.Rand, i int, _ *c16Env) error {
		k := []string{"k0", "l0", "h0", "s0"}[rng.Intn(4)]
		switch i % 8 {
		case 0:
			return do(cn, "EXPIRE", k, "100")
		case 1:
			return do(cn, "PERSIST", k)
		case 2:
			return do(cn, "TTL", k)
		case 3:
			return do(cn, "PTTL", k)
		case 4:
			return do(cn, "PEXPIRE", k, "100000", "GT")
		case 5:
			return do(cn, "EXPIRETIME", k)
		case 6:
			return do(cn, "GETEX", "k0", "EX", "50")
		}
		return do(cn, "SET", "k0", "v", "PX", "5")
	}},
	{"scan", func(cn *wire.Conn, rng *rand.Rand, i int, _ *c16Env) error {
		switch i % 3 {
		case 0:
			return do(cn, "SCAN", "0", "COUNT", "50")
		case 1:
			return do(cn, "HSCAN", "h0", "0")
		}
		return do(cn, "SSCAN", "s0", "0", "MATCH", "m*")
	}},
	{"bitmap-write", func(cn *wire.Conn, rng *rand.Rand, i int, _ *c16Env) error {
		switch i % 3 {
		case 0:
			return do(cn, "SETBIT", "b0", strconv.Itoa(rng.Intn(64)), "1")
		case 1:
			return do(cn, "BITFIELD", "b0", "INCRBY", "u8", "8", "1")
		}
		return do(cn, "BITOP", "OR", "b1", "b0", "k0")
	}},
	{"bitmap-read", func(cn *wire.Conn, rng *rand.Rand, i int, _ *c16Env) error {
		switch i % 4 {
		case 0:
			return do(cn, "GETBIT", "b0", "3")
		case 1:
			return do(cn, "BITCOUNT", "b0")
		case 2:
			return do(cn, "BITPOS", "b0", "1")
		}
		return do(cn, "BITFIELD_RO", "b0", "GET", "u8", "0")
	}},
	{"multi-exec", func(cn *wire.Conn, rng *rand.Rand, i int, _ *c16Env) error {
		return pipe(cn, []string{"MULTI"}, []string{"INCR", "cnt"}, []string{"RPUSH", "l0", "t"}, []string{"HSET", "h0", "t", "1"}, []string{"CLIENT", "INFO"}, []string{"EXEC"})
	}},
	{"watch", func(cn *wire.Conn, rng *rand.Rand, i int, _ *c16Env) error {
		return pipe(cn, []string{"WATCH", "k0", "l0"}, []string{"MULTI"}, []string{"SET", "k0", "w"}, []string{"EXEC"}, []string{"UNWATCH"})
	}},
	{"dump-restore", func(cn *wire.Conn, rng *rand.Rand, i int, _ *c16Env) error {
		switch i % 4 {
		case 0:
			return do(cn, "DUMP", "b0")
		case 1:
			return do(cn, "DUMP", "k0")
		case 2:
			return do(cn, "DUMP", "l0")
		}
		v, err := cn.Do("DUMP", "k1")
		if err != nil {
			return err
		}
		if v.IsString() && !v.Null {
			_, err = cn.Do("RESTORE", "restored", "0", string(v.Str), "REPLACE")
		}
		return err
	}},
	{"blocking-pop-other-db", func(cn *wire.Conn, rng *rand.Rand, i int, _ *c16Env) error {
		db := strconv.Itoa(1 + rng.Intn(3))
		switch i % 3 {
		case 0:
			return pipe(cn, []string{"SELECT", db}, []string{"BLPOP", "bq", "0.02"}, []string{"SELECT", "0"})
		case 1:
			return pipe(cn, []string{"SELECT", db}, []string{"RPUSH", "bq", "e"}, []string{"BRPOP", "bq", "0.01"}, []string{"SELECT", "0"})
		}
		return pipe(cn, []string{"SELECT", db}, []string{"BLMOVE", "bq", "l1", "LEFT", "LEFT", "0.01"}, []string{"SELECT", "0"})
	}},
	{"select-new-db", func(cn *wire.Conn, rng *rand.Rand, i int, _ *c16Env) error {
		// databases 4..15 come into existence while the periodic saver walks the set of databases
		db := strconv.Itoa(4 + rng.Intn(12))
		return pipe(cn, []string{"SELECT", db}, []string{"SET", "k0", "n"}, []string{"DBSIZE"}, []string{"SELECT", "0"})
	}},
	{"multi-db-mix", func(cn *wire.Conn, rng *rand.Rand, i int, _ *c16Env) error {
		// every database gets its share of plain commands, of commands that take a database exclusively (CLIENT INFO, EXEC)
		// and of transactions that move into it through a queued SELECT: whatever the exclusive commands leave behind in a
		// database (ownership marks, command counters) meets the transactions arriving from elsewhere
		a, b := strconv.Itoa(rng.Intn(4)), strconv.Itoa(rng.Intn(4))
		switch i % 3 {
		case 0:
			return pipe(cn, []string{"SELECT", a}, []string{"INCR", "k0"}, []string{"CLIENT", "INFO"}, []string{"SELECT", "0"})
		case 1:
			return pipe(cn, []string{"SELECT", a}, []string{"MULTI"}, []string{"SELECT", b}, []string{"INCR", "k0"}, []string{"RPUSH", "l0", "x"}, []string{"GET", "k0"}, []string{"LPOP", "l0"}, []string{"EXEC"}, []string{"SELECT", "0"})
		}
		return pipe(cn, []string{"SELECT", b}, []string{"INCR", "k0"}, []string{"GET", "k0"}, []string{"MULTI"}, []string{"GET", "k0"}, []string{"EXEC"}, []string{"SELECT", "0"})
	}},
	{"multi-introspection", func(cn *wire.Conn, rng *rand.Rand, i int, _ *c16Env) error {
		return pipe(cn, []string{"MULTI"}, []string{"CLIENT", "LIST"}, []string{"CLIENT", "UNBLOCK", "999999"}, []string{"INFO"}, []string{"CLIENT", "KILL", "ID", "999999"}, []string{"DBSIZE"}, []string{"EXEC"})
	}},
	{"multi-select", func(cn *wire.Conn, rng *rand.Rand, i int, _ *c16Env) error {
		db := strconv.Itoa(1 + rng.Intn(3))
		if i%3 == 0 {
			return pipe(cn, []string{"SELECT", db}, []string{"MULTI"}, []string{"FLUSHALL"}, []string{"SET", "k0", "f"}, []string{"EXEC"}, []string{"SELECT", "0"})
		}
		if i%3 == 1 {
			// a key watched in the database that a queued SELECT moves to, with the introspection commands that look at the watches
			return pipe(cn, []string{"SELECT", db}, []string{"WATCH", "k0", "l0"}, []string{"SELECT", "0"}, []string{"MULTI"}, []string{"SELECT", db}, []string{"CLIENT", "INFO"}, []string{"CLIENT", "LIST"}, []string{"GET", "k0"}, []string{"SELECT", "0"}, []string{"EXEC"})
		}
		return pipe(cn, []string{"MULTI"}, []string{"SELECT", db}, []string{"SET", "k0", "x"}, []string{"RANDOMKEY"}, []string{"RPUSH", "l0", "x"}, []string{"SELECT", "0"}, []string{"GET", "k0"}, []string{"EXEC"})
	}},
	{"watch-other-db", func(cn *wire.Conn, rng *rand.Rand, i int, _ *c16Env) error {
		// keys watched in one database, transaction executed (or dropped) in another
		db := strconv.Itoa(1 + rng.Intn(3))
		switch i % 3 {
		case 0:
			return pipe(cn, []string{"SELECT", db}, []string{"WATCH", "k0", "l0"}, []string{"SELECT", "0"}, []string{"MULTI"}, []string{"SET", "k1", "w"}, []string{"EXEC"})
		case 1:
			return pipe(cn, []string{"SELECT", db}, []string{"WATCH", "k0"}, []string{"SELECT", "0"}, []string{"WATCH", "k1"}, []string{"CLIENT", "INFO"}, []string{"CLIENT", "LIST"}, []string{"UNWATCH"})
		}
		return pipe(cn, []string{"WATCH", "k0"}, []string{"SELECT", db}, []string{"MULTI"}, []string{"SET", "k0", "x"}, []string{"RPUSH", "l0", "x"}, []string{"EXEC"}, []string{"SELECT", "0"})
	}},
	{"write-other-db", func(cn *wire.Conn, rng *rand.Rand, i int, _ *c16Env) error {
		db := strconv.Itoa(1 + rng.Intn(3))
		switch i % 4 {
		case 0:
			return pipe(cn, []string{"SELECT", db}, []string{"SET", "k0", "o"}, []string{"GET", "k0"})
		case 1:
			return pipe(cn, []string{"SELECT", db}, []string{"RPUSH", "l0", "o"}, []string{"LPOP", "l0"})
		case 2:
			return pipe(cn, []string{"SELECT", db}, []string{"DEL", "k0", "l0"}, []string{"EXPIRE", "k0", "100"})
		}
		return pipe(cn, []string{"SELECT", db}, []string{"GET", "k0"}, []string{"SELECT", "0"}, []string{"GET", "k0"})
	}},
	{"select", func(cn *wire.Conn, rng *rand.Rand, i int, _ *c16Env) error {
		return pipe(cn, []string{"SELECT", strconv.Itoa(rng.Intn(4))}, []string{"SET", "k0", "d"}, []string{"GET", "k0"}, []string{"SELECT", "0"})
	}},
	{"flush", func(cn *wire.Conn, rng *rand.Rand, i int, _ *c16Env) error {
		if i%4 == 0 {
			return do(cn, "FLUSHALL")
		}
		return do(cn, "FLUSHDB")
	}},
	{"dbsize", func(cn *wire.Conn, rng *rand.Rand, i int, _ *c16Env) error { return do(cn, "DBSIZE") }},
	{"client-introspection", func(cn *wire.Conn, rng *rand.Rand, i int, _ *c16Env) error {
		switch i % 5 {
		case 0:
			return do(cn, "CLIENT", "LIST")
		case 1:
			return do(cn, "CLIENT", "INFO")
		case 2:
			return do(cn, "CLIENT", "SETNAME", "n"+strconv.Itoa(i))
		case 3:
			return do(cn, "CLIENT", "GETNAME")
		}
		return do(cn, "CLIENT", "NO-EVICT", "on")
	}},
	{"client-unblock-kill", func(cn *wire.Conn, rng *rand.Rand, i int, env *c16Env) error {
		id := strconv.FormatInt(env.otherID.Load(), 10)
		if i%3 == 0 {
			return do(cn, "CLIENT", "UNBLOCK", id, "ERROR")
		}
		if i%3 == 1 {
			return do(cn, "CLIENT", "UNBLOCK", id)
		}
		// kill a throw-away connection, not a worker
		tmp, err := env.e.dial()
		if err != nil {
			return nil
		}
		tid, err := tmp.ClientID()
		if err == nil {
			do(cn, "CLIENT", "KILL", "ID", strconv.FormatInt(tid, 10))
		}
		tmp.Close()
		return nil
	}},
	{"kill-with-command-in-flight", func(cn *wire.Conn, rng *rand.Rand, i int, env *c16Env) error {
		// a connection is closed from the server side (CLIENT KILL by another client, or by itself as the last command of
		// its own transaction) while one of its transaction-related commands is still running: what the termination path
		// touches of the client's state meets what the command goroutine touches
		tmp, err := env.e.dial()
		if err != nil {
			return nil
		}
		defer tmp.Close()
		tid, err := tmp.ClientID()
		if err != nil {
			return nil
		}
		id := strconv.FormatInt(tid, 10)
		tmp.Timeout = 2 * time.Second
		switch i % 4 {
		case 0:
			// self-kill as the last queued command: EXEC is still finishing when the connection terminates
			pipe(tmp, []string{"WATCH", "k0", "k1"}, []string{"MULTI"}, []string{"SET", "k2", "v"}, []string{"CLIENT", "KILL", "ID", id, "SKIPME", "no"}, []string{"EXEC"})
			return nil
		case 1:
			// killed by the worker while a long pipeline of WATCH/UNWATCH/transactions is being executed
			var b []byte
			for j := 0; j < 40; j++ {
				b = append(b, resp.Cmd("WATCH", "k0", "l0", "cnt")...)
				b = append(b, resp.Cmd("MULTI")...)
				b = append(b, resp.Cmd("INCR", "cnt")...)
				b = append(b, resp.Cmd("LRANGE", "l0", "0", "-1")...)
				b = append(b, resp.Cmd("EXEC")...)
				b = append(b, resp.Cmd("WATCH", "k1")...)
				b = append(b, resp.Cmd("UNWATCH")...)
				b = append(b, resp.Cmd("CLIENT", "INFO")...)
			}
			tmp.Send(b)
		case 2:
			var b []byte
			for j := 0; j < 40; j++ {
				b = append(b, resp.Cmd("WATCH", "k0")...)
				b = append(b, resp.Cmd("MULTI")...)
				b = append(b, resp.Cmd("SET", "k0", "w")...)
				b = append(b, resp.Cmd("DISCARD")...)
				b = append(b, resp.Cmd("CLIENT", "LIST")...)
			}
			tmp.Send(b)
		case 3:
			// the victim's EXEC is queued behind the worker's own long command on the same database
			tmp.Send(append(append(append(resp.Cmd("WATCH", "k0"), resp.Cmd("MULTI")...), resp.Cmd("GET", "k0")...), resp.Cmd("EXEC")...))
		}
		if i%8 >= 4 {
			time.Sleep(time.Duration(rng.Intn(300)) * time.Microsecond)
		}
		do(cn, "CLIENT", "KILL", "ID", id)
		return nil
	}},
	{"kill-newcomers", func(cn *wire.Conn, rng *rand.Rand, i int, env *c16Env) error {
		// connections are killed at the moment they come into being: client ids are handed out in sequence, so the ids
		// just above the highest one listed belong to the connections that are being set up right now
		v, err := cn.Do("CLIENT", "LIST")
		if err != nil {
			return err
		}
		max := int64(0)
		for _, f := range strings.Fields(v.Text()) {
			if strings.HasPrefix(f, "id=") {
				if n, _ := strconv.ParseInt(f[3:], 10, 64); n > max {
					max = n
				}
			}
		}
		done := make(chan struct{})
		go func() {
			defer close(done)
			for k := 0; k < 3; k++ {
				if tmp, err := env.e.dial(); err == nil {
					tmp.Timeout = 300 * time.Millisecond
					tmp.Do("PING")
					tmp.Close()
				}
			}
		}()
		var b []byte
		for k := int64(1); k <= 8; k++ {
			b = append(b, resp.Cmd("CLIENT", "KILL", "ID", strconv.FormatInt(max+k, 10))...)
		}
		cn.Send(b)
		for k := 0; k < 8; k++ {
			if _, _, err := cn.ReadValue(5 * time.Second); err != nil {
				<-done
				return err
			}
		}
		<-done
		return nil
	}},
	{"info", func(cn *wire.Conn, rng *rand.Rand, i int, env *c16Env) error {
		if i%6 == 5 {
			// another emulator of the process is started and closed while INFO is being asked here: what Start() and
			// Close() set up and tear down process-wide meets the statistics INFO reads
			if name, _, err := env.e.child.StartEmu(""); err == nil {
				do(cn, "INFO", "server")
				env.e.child.CloseEmu(name, 10*time.Second)
			}
			return do(cn, "INFO")
		}
		if i%2 == 0 {
			return do(cn, "INFO")
		}
		return do(cn, "INFO", "stats")
	}},
	{"hello", func(cn *wire.Conn, rng *rand.Rand, i int, _ *c16Env) error {
		if i%2 == 0 {
			return do(cn, "HELLO", "3")
		}
		return do(cn, "HELLO", "2")
	}},
	{"command-introspection", func(cn *wire.Conn, rng *rand.Rand, i int, _ *c16Env) error {
		switch i % 4 {
		case 0:
			return do(cn, "COMMAND", "GETKEYS", "MSET", "a", "1", "b", "2")
		case 1:
			return do(cn, "COMMAND", "COUNT")
		case 2:
			return do(cn, "COMMAND", "DOCS", "get")
		}
		return do(cn, "COMMAND", "INFO", "set")
	}},
	{"connection-churn", func(cn *wire.Conn, rng *rand.Rand, i int, env *c16Env) error {
		tmp, err := env.e.dial()
		if err != nil {
			return nil
		}
		tmp.Do("PING")
		if i%2 == 0 {
			tmp.SendCmd("BLPOP", "never", "0") // disconnect while blocked
			time.Sleep(time.Millisecond)
		}
		tmp.Close()
		return nil
	}},
	{"sort", func(cn *wire.Conn, rng *rand.Rand, i int, _ *c16Env) error {
		switch i % 3 {
		case 0:
			return do(cn, "SORT", "l0", "ALPHA", "LIMIT", "0", "5")
		case 1:
			return do(cn, "SORT", "s0", "ALPHA", "STORE", "l1")
		}
		return do(cn, "SORT", "l0", "BY", "nosort", "GET", "#", "GET", "k*")
	}},
	{"invalid-input", func(cn *wire.Conn, rng *rand.Rand, i int, _ *c16Env) error {
		switch i % 3 {
		case 0:
			return do(cn, "NOSUCHCOMMAND", "x")
		case 1:
			return do(cn, "SET", "k0")
		}
		return do(cn, "LPUSH", "k0", "x")
	}},
}

type c16Pair struct{ a, b int }

// c16RunPairs runs the given class pairs on one race-instrumented child and returns its race reports.
func c16RunPairs(r *verdict.Run, pairs []c16Pair, opsPerConn int, shard int) []host.RaceReport {
	c, err := startChild(true)
	if err != nil {
		r.Inconclusive("cannot start race child: " + err.Error())
		return nil
	}
	enableLockMonitor(c)
	persist := filepath.Join(c.Dir, "persist", "snap")
	os.MkdirAll(filepath.Dir(persist), 0o755)
	name, port, err := c.StartEmu(persist) // a persist path turns the periodic saver on
	if err != nil {
		r.Inconclusive("infra: " + err.Error())
		c.Stop()
		return nil
	}
	e := &emu{c, name, port}
	// a second emulator instance in the same process with light traffic
	name2, port2, err := c.StartEmu("")
	var stop2 atomic.Bool
	var bg sync.WaitGroup
	if err == nil {
		e2 := &emu{c, name2, port2}
		bg.Add(1)
		go func() {
			defer bg.Done()
			cn, err := e2.dial()
			if err != nil {
				return
			}
			defer cn.Close()
			for i := 0; !stop2.Load(); i++ {
				cn.Do("SET", "other-instance", strconv.Itoa(i))
				cn.Do("CLIENT", "LIST")
				time.Sleep(2 * time.Millisecond)
			}
		}()
	}
	// the public SetHook API toggled from the host side
	bg.Add(1)
	go func() {
		defer bg.Done()
		for i := 0; !stop2.Load(); i++ {
			c.Ctl("sethook %s %s", name, []string{"on", "off"}[i%2])
			time.Sleep(20 * time.Millisecond)
		}
	}()
	c.Ctl("seed %d", r.Seed*31+int64(shard))
	c.Ctl("yield ds: 150 100")
	c.Ctl("yield cs:checking 200 100")
	env := &c16Env{e: e}
	for _, p := range pairs {
		if !c.Alive() {
			break
		}
		var wg sync.WaitGroup
		type iv struct{ t0, t1 int64 }
		ivs := make([][]iv, 6)
		for w := 0; w < 6; w++ {
			cls := c16Classes[p.a]
			if w >= 3 {
				cls = c16Classes[p.b]
			}
			wg.Add(1)
			go func(w int, cls c16Class) {
				defer wg.Done()
				cn, err := e.dial()
				if err != nil {
					return
				}
				defer cn.Close()
				cn.Proto = 3
				cn.Timeout = 20 * time.Second
				if id, err := cn.ClientID(); err == nil && w == 0 {
					env.otherID.Store(id)
				}
				rng := rand.New(rand.NewSource(int64(shard*1000 + w)))
				for i := 0; i < opsPerConn; i++ {
					t0 := wire.Now()
					if err := cls.op(cn, rng, i, env); err != nil {
						// CLIENT KILL / FLUSH may legitimately end or disturb a worker connection: reconnect
						cn.Close()
						if cn, err = e.dial(); err != nil {
							return
						}
						cn.Proto = 3
						cn.Timeout = 20 * time.Second
					}
					ivs[w] = append(ivs[w], iv{t0, wire.Now()})
				}
			}(w, cls)
		}
		// watchdog: a pair normally takes well under a minute; a wedged or spinning emulator is dumped and reported
		finished := make(chan struct{})
		go func() { wg.Wait(); close(finished) }()
		select {
		case <-finished:
		case <-time.After(4 * time.Minute):
			dump := c.SigQuitDump()
			if f := os.Getenv("C16_DUMP"); f != "" {
				os.WriteFile(f, []byte(dump), 0o644)
			}
			r.Report("c16/stall/"+c16Classes[p.a].name+"+"+c16Classes[p.b].name, fmt.Sprintf("the pair %s + %s did not finish within 4 minutes; goroutines of the emulator:\n%s", c16Classes[p.a].name, c16Classes[p.b].name, c16Busy(dump)), map[string]any{"dump_head": headLines(dump, 200)})
			<-finished
		}
		// operations of class a that overlapped in time with an operation of class b
		overl := 0
		for w := 0; w < 3; w++ {
			for _, x := range ivs[w] {
				hit := false
				for v := 3; v < 6 && !hit; v++ {
					for _, y := range ivs[v] {
						if x.t0 < y.t1 && y.t0 < x.t1 {
							hit = true
							break
						}
					}
				}
				if hit {
					overl++
				}
			}
		}
		r.Eval(6 * opsPerConn)
		r.Count("overlapping_operations_between_paired_classes", int64(overl))
		if overl > 0 {
			r.Distinct("pair/" + c16Classes[p.a].name + "+" + c16Classes[p.b].name)
		} else {
			r.Count("pairs_without_temporal_overlap", 1)
		}
	}
	stop2.Store(true)
	bg.Wait()
	alive := c.Alive()
	var crash string
	if !alive {
		crash = headLines(c.StderrHead(20000), 40)
	}
	reportLockMonitor(r, c)
	c.QuitGracefully()
	reps := c.RaceReports()
	if !alive && !strings.Contains(crash, "DATA RACE") {
		sig, msg := host.CrashSignature(crash)
		r.Report("c16/crash/"+sig, "the race-instrumented emulator died during the workload: "+msg+"\n"+crash, nil)
	}
	os.RemoveAll(c.Dir)
	return reps
}

func checkC16(r *verdict.Run) {
	r.Rule = fmt.Sprintf("the emulator is built with -race and driven by a pair-coverage workload: %d command classes (string/list/hash/set/bitmap read+write, counters, blocking pops, set algebra, keyspace, expiry, SCAN, MULTI/EXEC, transactions with CLIENT LIST/KILL/UNBLOCK/INFO and with SELECT/FLUSHALL inside, DUMP/RESTORE, blocking pops in other databases, databases created on first SELECT, WATCH, WATCH and writes across databases, SELECT, FLUSH, DBSIZE, CLIENT LIST/INFO/SETNAME, CLIENT UNBLOCK/KILL, CLIENT KILL of connections that are just being set up, CLIENT KILL of connections with WATCH/EXEC/DISCARD/CLIENT INFO in flight and self-kill as the last queued command, INFO (while further emulators of the process are started and closed), HELLO, COMMAND, connection churn, SORT, invalid input); every scheduled pair runs 3+3 connections concurrently on the same keys, "+
		"with the periodic saver on (persist path), a second emulator instance in the same process, SetHook toggled from the host and yields injected around the data store lock; race reports are read from the GORACE log, reduced to the sorted pair of innermost emulator functions. distinct = class pairs whose operations demonstrably overlapped in time", len(c16Classes))
	n := len(c16Classes)
	var all []c16Pair
	for a := 0; a < n; a++ {
		for b := a; b < n; b++ {
			all = append(all, c16Pair{a, b})
		}
	}
	rng := shardRng(r, 0)
	rng.Shuffle(len(all), func(i, j int) { all[i], all[j] = all[j], all[i] })
	pairs := all
	if only := os.Getenv("C16_ONLY"); only != "" {
		// debugging aid: C16_ONLY="classA+classB" runs that pair 64 times
		pairs = nil
		for _, p := range all {
			if n := c16Classes[p.a].name + "+" + c16Classes[p.b].name; n == only {
				for k := 0; k < 64; k++ {
					pairs = append(pairs, p)
				}
			}
		}
	}
	ops := 40
	repeat := 1
	if r.Tier == "quick" {
		// every pair once (a sample of the pairs made the quick tier blind to whole class combinations)
		ops = 30
	} else {
		ops = 80
		repeat = 3
	}
	r.Set("class_pairs_total", len(all))
	r.Set("class_pairs_scheduled", len(pairs)*repeat)
	r.Sample(map[string]any{"pair": c16Classes[pairs[0].a].name + " + " + c16Classes[pairs[0].b].name, "connections": "3 + 3", "ops_per_connection": ops})
	nsh := 16
	var mu sync.Mutex
	seen := map[string]string{}
	counts := map[string]int{}
	for rep := 0; rep < repeat; rep++ {
		parallel(nsh, 16, func(shard int) {
			var mine []c16Pair
			for i := shard; i < len(pairs); i += nsh {
				mine = append(mine, pairs[i])
			}
			reps := c16RunPairs(r, mine, ops, shard+rep*100)
			mu.Lock()
			for _, rp := range reps {
				counts[rp.Sig]++
				if _, ok := seen[rp.Sig]; !ok {
					seen[rp.Sig] = rp.Text
				}
			}
			mu.Unlock()
		})
	}
	var sigs []string
	for s := range seen {
		sigs = append(sigs, s)
	}
	sort.Strings(sigs)
	total := 0
	for _, s := range sigs {
		total += counts[s]
		r.Report("race/"+s, fmt.Sprintf("data race reported %d times by the Go race detector:\n%s", counts[s], headLines(seen[s], 60)), map[string]any{"report": seen[s]})
	}
	r.Count("race_report_blocks", int64(total))
	r.Assume("the Go race detector only sees the interleavings that were executed and keeps a bounded access history per memory word")
}

// c16Busy lists emulator goroutines that are running, runnable, sleeping or waiting on a mutex.
func c16Busy(dump string) string {
	var out []string
	for _, g := range strings.Split(dump, "\n\n") {
		if !strings.Contains(g, "go-redisemu.") {
			continue
		}
		first := strings.SplitN(g, "\n", 2)[0]
		if strings.Contains(first, "[running]") || strings.Contains(first, "[runnable]") || strings.Contains(first, "[sleep") || strings.Contains(first, "Mutex.Lock") || strings.Contains(first, "[semacquire") {
			var fr []string
			for _, l := range strings.Split(g, "\n") {
				if strings.HasPrefix(l, "github.com/jimsnab/go-redisemu.") {
					fr = append(fr, strings.SplitN(strings.TrimPrefix(l, "github.com/jimsnab/go-redisemu."), "(0x", 2)[0])
				}
			}
			if len(fr) > 5 {
				fr = fr[:5]
			}
			out = append(out, first+" "+strings.Join(fr, " <- "))
		}
		if len(out) >= 12 {
			break
		}
	}
	return strings.Join(out, "\n")
}
