package main

import (
	"fmt"
	"math/rand"
	"sort"
	"strconv"
	"strings"
	"time"

	"verif/harness/model"
	"verif/harness/resp"
	"verif/harness/verdict"
	"verif/harness/wire"
)

func init() { register("C15", "exploration", checkC15) }

var c15Unordered = map[string]bool{"command|list": true, "keys": true, "hkeys": true, "hvals": true, "smembers": true, "sinter": true, "sunion": true, "sdiff": true, "hgetall": true}
var c15ShapeOnly = map[string]bool{"ttl": true, "pttl": true, "expiretime": true, "pexpiretime": true, "randomkey": true, "srandmember": true, "hrandfield": true, "scan": true, "hscan": true, "sscan": true,
	"client": true, "info": true, "hello": true, "time": true}

// c15Equiv checks that v2 (RESP2 reply) equals the canonical down-conversion of v3 (RESP3 reply).
// unordered: arrays at this level may be permuted (documented as unordered).
func c15Equiv(v2, v3 resp.Value, unordered bool, path string) string {
	if !v2.OnlyResp2() {
		return path + ": RESP3 type in a RESP2 reply: " + v2.String()
	}
	if v3.IsError() || v2.IsError() {
		if v3.IsError() != v2.IsError() || v2.ErrClass() != v3.ErrClass() {
			return fmt.Sprintf("%s: RESP2 %s vs RESP3 %s", path, v2, v3)
		}
		return ""
	}
	if v3.Null || v2.Null {
		if v3.Null != v2.Null {
			return fmt.Sprintf("%s: RESP2 %s vs RESP3 %s", path, v2, v3)
		}
		return ""
	}
	switch v3.Kind {
	case '+', '$', '=':
		if !v2.IsString() || v2.Text() != v3.Text() {
			return fmt.Sprintf("%s: RESP2 %s vs RESP3 %s", path, v2, v3)
		}
	case ':':
		if v2.Kind != ':' || v2.Int != v3.Int {
			return fmt.Sprintf("%s: RESP2 %s vs RESP3 %s", path, v2, v3)
		}
	case '#':
		if v2.Kind != ':' || v2.Int != v3.Int {
			return fmt.Sprintf("%s: boolean must down-convert to 0/1: RESP2 %s vs RESP3 %s", path, v2, v3)
		}
	case ',':
		if !v2.IsString() {
			return fmt.Sprintf("%s: double must down-convert to a string: RESP2 %s vs RESP3 %s", path, v2, v3)
		}
		a, e1 := strconv.ParseFloat(v2.Text(), 64)
		b, e2 := strconv.ParseFloat(string(v3.Str), 64)
		if v2.Text() != string(v3.Str) && (e1 != nil || e2 != nil || a != b) {
			return fmt.Sprintf("%s: RESP2 %s vs RESP3 %s", path, v2, v3)
		}
	case '(':
		if !v2.IsString() || v2.Text() != string(v3.Str) {
			return fmt.Sprintf("%s: big number must down-convert to the same digits: RESP2 %s vs RESP3 %s", path, v2, v3)
		}
	case '*', '>':
		// a list of pairs down-converts to a flat key/value array
		if v2.Kind == '*' && len(v3.Elems) > 0 && len(v2.Elems) == 2*len(v3.Elems) {
			flat := resp.Value{Kind: '*'}
			pairs := true
			for _, p := range v3.Elems {
				if p.Kind != '*' || p.Null || len(p.Elems) != 2 {
					pairs = false
					break
				}
				flat.Elems = append(flat.Elems, p.Elems...)
			}
			if pairs {
				return c15Equiv(v2, flat, false, path+"(pairs)")
			}
		}
		if v2.Kind != '*' || len(v2.Elems) != len(v3.Elems) {
			return fmt.Sprintf("%s: RESP2 %s vs RESP3 %s", path, trunc(v2.String(), 200), trunc(v3.String(), 200))
		}
		if unordered {
			return c15Multiset(v2.Elems, v3.Elems, path)
		}
		for i := range v3.Elems {
			if why := c15Equiv(v2.Elems[i], v3.Elems[i], false, fmt.Sprintf("%s[%d]", path, i)); why != "" {
				return why
			}
		}
	case '~':
		if v2.Kind != '*' || len(v2.Elems) != len(v3.Elems) {
			return fmt.Sprintf("%s: set must down-convert to an array of the same members: RESP2 %s vs RESP3 %s", path, trunc(v2.String(), 200), trunc(v3.String(), 200))
		}
		return c15Multiset(v2.Elems, v3.Elems, path)
	case '%':
		if v2.Kind != '*' || len(v2.Elems) != len(v3.Elems) {
			return fmt.Sprintf("%s: map must down-convert to a flat key/value array: RESP2 %s vs RESP3 %s", path, trunc(v2.String(), 200), trunc(v3.String(), 200))
		}
		// entries in any order (maps are unordered); values compared recursively
		m2 := map[string]resp.Value{}
		for i := 0; i+1 < len(v2.Elems); i += 2 {
			m2[model.Down(v2.Elems[i]).Canon()] = v2.Elems[i+1]
		}
		if len(m2)*2 != len(v2.Elems) {
			return fmt.Sprintf("%s: duplicate keys in the flat array: %s", path, trunc(v2.String(), 200))
		}
		for i := 0; i+1 < len(v3.Elems); i += 2 {
			k := model.Down(v3.Elems[i]).Canon()
			val2, ok := m2[k]
			if !ok {
				return fmt.Sprintf("%s: key %s of the RESP3 map is missing from the RESP2 array %s", path, k, trunc(v2.String(), 200))
			}
			if why := c15Equiv(val2, v3.Elems[i+1], false, path+"{"+k+"}"); why != "" {
				return why
			}
		}
	default:
		return fmt.Sprintf("%s: unexpected RESP3 type %q", path, v3.Kind)
	}
	return ""
}

func c15Multiset(a2, a3 []resp.Value, path string) string {
	var s2, s3 []string
	for i := range a3 {
		s2 = append(s2, model.Down(a2[i]).Canon())
		s3 = append(s3, model.Down(a3[i]).Canon())
	}
	sort.Strings(s2)
	sort.Strings(s3)
	for i := range s2 {
		if s2[i] != s3[i] {
			return fmt.Sprintf("%s: members differ: RESP2 %v vs RESP3 %v", path, s2, s3)
		}
	}
	return ""
}

// c15One applies the comparison rule of one command.
func c15One(name string, v2, v3 resp.Value, path string) string {
	if c15ShapeOnly[name] {
		return c15Shape(v2, v3, path)
	}
	return c15Equiv(v2, v3, c15Unordered[name], path)
}

// c15Shape compares only types and nesting (replies that depend on time, identity or randomness).
func c15Shape(v2, v3 resp.Value, path string) string {
	if !v2.OnlyResp2() {
		return path + ": RESP3 type in a RESP2 reply: " + trunc(v2.String(), 200)
	}
	d3 := model.Down(v3)
	if v2.IsError() != d3.IsError() || v2.Null != d3.Null {
		return fmt.Sprintf("%s: RESP2 %s vs RESP3 %s", path, trunc(v2.String(), 200), trunc(v3.String(), 200))
	}
	if v2.Null || v2.IsError() {
		return ""
	}
	if v2.IsString() != d3.IsString() || (v2.Kind == ':') != (d3.Kind == ':') || (v2.Kind == '*') != (d3.Kind == '*') {
		return fmt.Sprintf("%s: shapes differ: RESP2 %s vs RESP3 %s", path, trunc(v2.String(), 200), trunc(v3.String(), 200))
	}
	if v3.Kind == '=' && v2.IsString() {
		// verbatim text (CLIENT LIST, INFO): the values differ between two instances (ids, ports, ages) but the text
		// structure must be the same: same number of lines, and no verbatim format prefix leaking into RESP2
		t2, t3 := v2.Text(), v3.Text()
		if strings.Count(t2, "\n") != strings.Count(t3, "\n") {
			return fmt.Sprintf("%s: verbatim text has %d line breaks in RESP3 but %d in RESP2: %s", path, strings.Count(t3, "\n"), strings.Count(t2, "\n"), trunc(v2.String(), 200))
		}
		if len(v3.Str) >= 4 && strings.HasPrefix(t2, string(v3.Str[:4])) && !strings.HasPrefix(t3, string(v3.Str[:4])) {
			return fmt.Sprintf("%s: the verbatim format prefix %q leaked into the RESP2 string: %s", path, v3.Str[:4], trunc(v2.String(), 120))
		}
	}
	if v2.Kind == '*' && len(v2.Elems) != len(d3.Elems) {
		// a list of pairs (HRANDFIELD ... WITHVALUES) is flat in RESP2
		pairs := len(d3.Elems) > 0 && len(v2.Elems) == 2*len(d3.Elems)
		for _, p := range d3.Elems {
			if p.Kind != '*' || len(p.Elems) != 2 {
				pairs = false
			}
		}
		if !pairs {
			return fmt.Sprintf("%s: lengths differ: RESP2 %s vs RESP3 %s", path, trunc(v2.String(), 200), trunc(v3.String(), 200))
		}
	}
	return ""
}

// names that must come through every structured reply unchanged under both protocols (format verbs, line breaks, the
// type bytes of the protocol, the empty string, binary)
var c15Names = []string{"100%", "path%20name", "%s%d%v", "%!(NOVERB)", "a\r\nb", "+OK", "$5", "*1", "%2", "~1", ",1.5", "", "\x00\xff", "_", "#t", "plain"}

func c15Extra(rng *rand.Rand) []string {
	nm := func() string { return pick(rng, c15Names) }
	switch rng.Intn(44) {
	case 38:
		// error replies that quote what the client sent
		return []string{"NOSUCH" + nm(), nm(), nm()}
	case 39:
		return []string{nm(), nm()}
	case 40:
		return []string{pick(rng, []string{"CLIENT", "COMMAND", "OBJECT"}), nm(), nm()}
	case 41:
		return []string{pick(rng, []string{"SELECT", "INCRBY", "EXPIRE", "HELLO", "GETRANGE"}), nm(), nm()}
	case 42:
		return []string{"SET", "k", "v", nm()}
	case 43:
		return []string{pick(rng, []string{"LPOP", "HINCRBY", "SETBIT", "BITFIELD"}), "hn", nm(), nm(), nm()}
	case 30:
		return []string{"HSET", "hn", nm(), nm(), nm(), "v"}
	case 31:
		return []string{pick(rng, []string{"HGETALL", "HKEYS", "HVALS"}), "hn"}
	case 32:
		return []string{"HRANDFIELD", "hn", pick(rng, []string{"3", "-4"}), "WITHVALUES"}
	case 33:
		return []string{"SADD", "sn", nm(), nm()}
	case 34:
		return []string{pick(rng, []string{"SMEMBERS", "SRANDMEMBER"}), "sn"}
	case 35:
		return []string{"SET", nm(), nm()}
	case 36:
		return []string{pick(rng, []string{"KEYS", "SCAN"}), pick(rng, []string{"*", "0"})}
	case 37:
		return []string{"RPUSH", "ln", nm(), nm()}
	case 0:
		return []string{"CLIENT", "INFO"}
	case 1:
		return []string{"CLIENT", "LIST"}
	case 2:
		return []string{"CLIENT", "ID"}
	case 3:
		return []string{"CLIENT", "GETNAME"}
	case 4:
		return []string{"CLIENT", "SETNAME", "n" + strconv.Itoa(rng.Intn(3))}
	case 5:
		return []string{"INFO"}
	case 6:
		return []string{"INFO", pick(rng, []string{"server", "clients", "stats", "keyspace", "everything"})}
	case 7:
		return []string{"COMMAND", "COUNT"}
	case 8:
		return []string{"COMMAND", "INFO", pick(rng, []string{"get", "set", "lmpop", "nosuch"})}
	case 9:
		return []string{"COMMAND", "DOCS", pick(rng, []string{"get", "bitfield", "sort"})}
	case 10:
		return []string{"COMMAND", "LIST", "FILTERBY", "PATTERN", pick(rng, []string{"s*", "h?et", "nomatch*"})}
	case 11:
		return []string{"COMMAND", "GETKEYS", "MSET", "a", "1", "b", "2"}
	case 12:
		return []string{"COMMAND", "GETKEYSANDFLAGS", "LMOVE", "a", "b", "LEFT", "RIGHT"}
	case 13:
		return []string{"HELLO"}
	case 14:
		return []string{"PING"}
	case 15:
		return []string{"ECHO", pick(rng, []string{"", "x\r\ny", "hello"})}
	case 16:
		return []string{"SCAN", "0", "COUNT", "100"}
	case 17:
		return []string{"HSCAN", pick(rng, []string{"h0", "h1"}), "0"}
	case 18:
		return []string{"SSCAN", pick(rng, []string{"s0", "s1"}), "0"}
	case 19:
		return []string{"LCS", "s0", "s1", "IDX", "WITHMATCHLEN"}
	case 20:
		return []string{"HRANDFIELD", "h0", "2", "WITHVALUES"}
	case 21:
		return []string{"HRANDFIELD", "h0", "-3", "WITHVALUES"}
	case 22:
		return []string{"HINCRBYFLOAT", "h0", "flt", "1.5"}
	case 23:
		return []string{"INCRBYFLOAT", "fl", pick(rng, []string{"0.5", "1e3", "-2.25"})}
	case 24:
		return []string{"MULTI"}
	case 25, 26:
		return []string{"EXEC"}
	case 27:
		return []string{"DISCARD"}
	case 28:
		return []string{"COMMAND", "HELP"}
	case 29:
		return []string{"TYPE", pick(rng, []string{"s0", "l0", "h0", "kset"})}
	}
	return []string{"PING"}
}

func c15Sequences(r *verdict.Run, nseq int) {
	gens := []func(rng *rand.Rand, m *model.Model, keys []string) []string{c02Gen, c03Gen, c04Gen, c05Gen, c06Gen, c07Gen}
	universe := [][]string{
		{"s0", "s1", "s2", "s3", "kl", "kh", "kset", "ke", "km"},
		{"l0", "l1", "l2", "ws", "wh", "km"},
		{"h0", "h1", "ws", "wl", "km"},
		{"s0", "s1", "s2", "s3", "ws", "wl", "km"},
		{"ka1", "kb1", "kc1", "ka2", "w_1", "w_2", "w_3", "w_a", "w_b"},
		{"e0", "e1", "e2", "e3"},
	}
	perChild := 10
	nsh := (nseq + perChild - 1) / perChild
	parallel(nsh, 16, func(shard int) {
		rng := shardRng(r, shard)
		c, err := startChild(false)
		if err != nil {
			r.Inconclusive("cannot start child")
			return
		}
		defer func() { c.Stop() }()
		for i := 0; i < perChild && shard*perChild+i < nseq; i++ {
			if !c.Alive() {
				c.Stop()
				if c, err = startChild(false); err != nil {
					return
				}
			}
			e2, err := startEmu(c, "")
			if err != nil {
				r.Count("infra_retries", 1)
				c.Stop()
				c, _ = startChild(false)
				continue
			}
			e3, err := startEmu(c, "")
			if err != nil {
				continue
			}
			p2, _ := e2.dial()
			p3, _ := e3.dial()
			p2.Proto = 2 // strict: any RESP3 type byte on this connection is a framing error
			p2.Timeout, p3.Timeout = 10*time.Second, 10*time.Second
			if (shard+i)%3 == 0 {
				p2.Do("HELLO", "2")
			}
			if err := p3.Hello3(); err != nil {
				r.Report("c15/hello3-refused", err.Error(), nil)
				continue
			}
			m := model.New()
			sess := model.NewSession()
			fam := (shard + i) % len(gens)
			seed := [][]string{{"SET", "s0", "ohmytext"}, {"SET", "s1", "mynewtext"}, {"RPUSH", "l0", "a", "b", "c"}, {"HSET", "h0", "f1", "1", "f2", "x", "flt", "2.5"}, {"SADD", "kset", "a", "b"}, {"SADD", "s2", "x"}, {"SET", "fl", "1.5"}}
			var log []string
			var queue []string
			inMulti := false
			steps := 40 + rng.Intn(40)
			for j := 0; j < len(seed)+steps; j++ {
				var args []string
				if j < len(seed) {
					args = seed[j]
				} else if rng.Intn(4) == 0 {
					args = c15Extra(rng)
				} else {
					args = c15Stabilize(gens[fam](rng, m, universe[fam]))
				}
				name := strings.ToLower(args[0])
				if name == "command" && len(args) > 1 && strings.EqualFold(args[1], "LIST") {
					name = "command|list"
				}
				if strings.HasPrefix(name, "b") && (name == "blpop" || name == "brpop" || name == "blmove" || name == "blmpop" || name == "brpoplpush") {
					continue
				}
				now := time.Now().UnixMilli()
				m.Apply(sess, args, now) // only to keep the argument generators state-aware
				v2, err2 := p2.Do(args...)
				v3, err3 := p3.Do(args...)
				log = append(log, fmt.Sprintf("%s -> RESP2 %s | RESP3 %s", cmdString(args), trunc(v2.String(), 150), trunc(v3.String(), 150)))
				if len(log) > 60 {
					log = log[len(log)-60:]
				}
				r.Eval(1)
				rep := map[string]any{"script_tail": log}
				if err2 != nil || err3 != nil {
					cls := "no-reply"
					if _, isFrame := err2.(*resp.FrameError); isFrame {
						cls = "resp3-type-or-bad-framing-on-resp2"
					}
					r.Report("c15/"+cls+"/"+cmdTag(args), fmt.Sprintf("%s: RESP2 connection: %v (pending %q), RESP3 connection: %v", cmdString(args), err2, truncBytes(p2.Pending(), 120), err3), rep)
					break
				}
				var why string
				if name == "exec" && v2.Kind == '*' && v3.Kind == '*' && !v2.Null && !v3.Null && len(v2.Elems) == len(v3.Elems) && len(v2.Elems) == len(queue) {
					for qi, qn := range queue {
						if why == "" {
							why = c15One(qn, v2.Elems[qi], v3.Elems[qi], fmt.Sprintf("reply[%d](%s)", qi, qn))
						}
					}
				} else {
					why = c15One(name, v2, v3, "reply")
				}
				// track the MULTI queue (by command name) for the per-element rules of EXEC
				switch {
				case name == "multi" && !v2.IsError():
					inMulti, queue = true, nil
				case name == "exec" || name == "discard":
					if !(v2.IsError() && !inMulti) {
						inMulti, queue = false, nil
					}
				case inMulti && v2.Text() == "QUEUED":
					qn := name
					if name == "command" && len(args) > 1 {
						qn = "command|" + strings.ToLower(args[1])
					}
					queue = append(queue, qn)
				}
				if why != "" {
					r.Report("c15/mismatch/"+cmdTag(args)+"/"+string(v3.Kind), fmt.Sprintf("%s: %s", cmdString(args), why), rep)
				}
				r.Distinct(fmt.Sprintf("pair/%s/%c/%c", cmdTag(args), v2.Kind, v3.Kind))
			}
			p2.Close()
			p3.Close()
			e2.close()
			e3.close()
		}
	})
}

// c15Stabilize moves absolute deadlines that fall within 10 s of the present 1000 s into the future: the two paired
// executions run a few milliseconds apart, and a key that expires in between makes them diverge for reasons that
// have nothing to do with the protocol (expiry itself is C07's subject).
func c15Stabilize(args []string) []string {
	if len(args) < 3 {
		return args
	}
	unit := int64(0)
	switch strings.ToUpper(args[0]) {
	case "EXPIREAT":
		unit = 1
	case "PEXPIREAT":
		unit = 1000
	}
	if unit == 0 {
		return args
	}
	ts, err := strconv.ParseInt(args[2], 10, 64)
	now := time.Now().Unix() * unit
	if err == nil && ts > now-10*unit && ts < now+10*unit {
		out := append([]string{}, args...)
		out[2] = strconv.FormatInt(ts+1000*unit, 10)
		return out
	}
	return args
}

// c15HelloMachine: random walks over HELLO variants on three connections with protocol probes.
func c15HelloMachine(r *verdict.Run, walks int) {
	parallel(walks, 8, func(w int) {
		rng := shardRng(r, 9000+w)
		c, err := startChild(false)
		if err != nil {
			r.Inconclusive("cannot start child")
			return
		}
		defer c.Stop()
		e, err := startEmu(c, "")
		if err != nil {
			r.Inconclusive("infra: " + err.Error())
			return
		}
		var cns []*wire.Conn
		proto := []int{2, 2, 2}
		names := []string{"", "", ""}
		for i := 0; i < 3; i++ {
			cn, _ := e.dial()
			cn.Proto = 3 // lenient parsing; the first byte of the raw reply tells the protocol
			cn.Timeout = 5 * time.Second
			cns = append(cns, cn)
		}
		ids := make([]int64, 3)
		for i := range cns {
			ids[i], _ = cns[i].ClientID()
		}
		cns[0].Do("HSET", "ph", "f", "v")
		cns[0].Do("SADD", "ps", "a", "b")
		cns[0].Do("MSET", "pa", "ohmytext", "pb", "mynewtext")
		var log []string
		variants := [][]string{{"HELLO"}, {"HELLO", "2"}, {"HELLO", "3"}, {"HELLO", "1"}, {"HELLO", "4"}, {"HELLO", "0"}, {"HELLO", "x"}, {"HELLO", "3", "SETNAME", "nm"}, {"HELLO", "2", "SETNAME", "n2"}, {"HELLO", "-1"}, {"HELLO", "33"},
			// a supported version with an option that may be refused (invalid client name, unknown user, trailing junk): whatever
			// the emulator decides, a refused HELLO must change nothing and an accepted one must apply completely
			{"HELLO", "3", "SETNAME", "bad name"}, {"HELLO", "2", "SETNAME", "bad\tname"}, {"HELLO", "3", "SETNAME", "new\nline"}, {"HELLO", "2", "SETNAME", " lead"},
			{"HELLO", "3", "AUTH", "nouser", "nopass"}, {"HELLO", "2", "AUTH", "nouser", "nopass", "SETNAME", "x1"}, {"HELLO", "3", "SETNAME"}, {"HELLO", "2", "BOGUS"}, {"HELLO", "3", "SETNAME", "x2", "junk"}}
		for step := 0; step < 60; step++ {
			i := rng.Intn(3)
			rep := func() map[string]any { return map[string]any{"script": log} }
			if rng.Intn(5) == 0 {
				// a transaction with protocol switches queued between commands whose replies differ between the protocols:
				// the EXEC reply is written after the last switch took effect and must be in that protocol throughout
				rich := [][]string{{"HGETALL", "ph"}, {"SMEMBERS", "ps"}, {"HINCRBYFLOAT", "pn", "n", "1.5"}, {"LCS", "pa", "pb", "IDX"}, {"HRANDFIELD", "ph", "1", "WITHVALUES"}, {"INCRBYFLOAT", "pf", "0.5"}, {"COMMAND", "INFO", "get"}}
				cmds := [][]string{{"MULTI"}}
				final := proto[i]
				for k := 0; k < 2+rng.Intn(4); k++ {
					if rng.Intn(3) == 0 {
						to := 2 + rng.Intn(2)
						cmds = append(cmds, []string{"HELLO", strconv.Itoa(to)})
						final = to
					} else {
						cmds = append(cmds, rich[rng.Intn(len(rich))])
					}
				}
				cmds = append(cmds, []string{"EXEC"})
				var b []byte
				for _, cmd := range cmds {
					b = append(b, resp.Cmd(cmd...)...)
				}
				if err := cns[i].Send(b); err != nil {
					return
				}
				var raws [][]byte
				for range cmds {
					_, raw, err := cns[i].ReadValue(5 * time.Second)
					if err != nil {
						r.Report("c15/hello/no-reply-in-transaction", fmt.Sprintf("conn%d %s: %v", i, quoteCmds(cmds), err), rep())
						return
					}
					raws = append(raws, raw)
				}
				log = append(log, fmt.Sprintf("conn%d %s -> EXEC reply %s", i, strings.Join(quoteCmds(cmds), "; "), trunc(string(raws[len(raws)-1]), 160)))
				r.Eval(1)
				ex := raws[len(raws)-1]
				if final == 2 {
					if _, n, err := resp.Parse(ex, 2); err != nil || n != len(ex) {
						r.Report("c15/hello/exec-reply-not-resp2-after-queued-hello-2", fmt.Sprintf("conn%d: the connection is RESP2 after this transaction, but its EXEC reply is not a RESP2 value (%v): %q", i, err, truncBytes(ex, 300)), rep())
						return
					}
				}
				proto[i] = final
				r.Distinct(fmt.Sprintf("hello-in-multi/final%d", final))
			} else if rng.Intn(2) == 0 {
				v := variants[rng.Intn(len(variants))]
				if err := cns[i].SendCmd(v...); err != nil {
					return
				}
				val, raw, err := cns[i].ReadValue(5 * time.Second)
				log = append(log, fmt.Sprintf("conn%d %s -> %s", i, cmdString(v), trunc(val.String(), 120)))
				if err != nil {
					r.Report("c15/hello/no-reply", fmt.Sprintf("conn%d %s: %v", i, cmdString(v), err), rep())
					return
				}
				r.Eval(1)
				want := proto[i]
				valid := len(v) == 1 || v[1] == "2" || v[1] == "3"
				if valid && len(v) > 1 {
					want, _ = strconv.Atoi(v[1])
				}
				// plain forms must be accepted; forms with a questionable option may be refused (then nothing changes: the
				// probes below check protocol and name against the unchanged expectation)
				mayRefuse := len(v) > 2 && !(len(v) == 4 && (v[3] == "nm" || v[3] == "n2"))
				if valid && mayRefuse && val.IsError() {
					r.Distinct(fmt.Sprintf("hello-refused/%s/from%d", strings.Join(v[1:], " "), proto[i]))
				} else if valid {
					if val.IsError() {
						r.Report("c15/hello/valid-refused", fmt.Sprintf("%s was refused: %s", cmdString(v), val), rep())
					} else {
						proto[i] = want
						for k := 2; k+1 < len(v); k++ {
							if strings.EqualFold(v[k], "SETNAME") {
								names[i] = v[k+1]
							}
						}
						first := byte('*')
						if want == 3 {
							first = '%'
						}
						if raw[0] != first {
							r.Report("c15/hello/reply-protocol", fmt.Sprintf("%s: the reply starts with %q, protocol %d expects %q", cmdString(v), raw[0], want, first), rep())
						}
					}
				} else if !val.IsError() {
					r.Report("c15/hello/unsupported-accepted", fmt.Sprintf("%s was accepted: %s", cmdString(v), trunc(val.String(), 150)), rep())
					return
				}
				r.Distinct(fmt.Sprintf("hello/%s/from%d/%v", strings.Join(v[1:], " "), proto[i], val.IsError()))
			}
			// probe every connection: its protocol must be what its own HELLO history says
			for j := 0; j < 3; j++ {
				cns[j].SendCmd("HGETALL", "ph")
				_, raw, err := cns[j].ReadValue(5 * time.Second)
				if err != nil {
					r.Report("c15/hello/probe-no-reply", fmt.Sprintf("conn%d: %v", j, err), rep())
					return
				}
				is3 := raw[0] == '%'
				if is3 != (proto[j] == 3) {
					r.Report("c15/hello/protocol-state", fmt.Sprintf("conn%d should speak RESP%d (its own HELLO history) but HGETALL starts with %q; last step was on conn%d", j, proto[j], raw[0], i), rep())
					return
				}
				nm, err := cns[j].Do("CLIENT", "GETNAME")
				if err == nil && nm.Text() != names[j] && !(nm.Null && names[j] == "") {
					r.Report("c15/hello/name-state", fmt.Sprintf("conn%d: CLIENT GETNAME = %s, expected %q", j, nm, names[j]), rep())
				}
				// what this connection is told about the others: every line of CLIENT LIST carries the protocol and the name
				// of the connection it describes, whoever asks and in whatever protocol
				if cl, err := cns[j].Do("CLIENT", "LIST"); err == nil {
					for _, line := range strings.Split(cl.Text(), "\n") {
						f := map[string]string{}
						for _, kv := range strings.Fields(line) {
							if p := strings.IndexByte(kv, '='); p > 0 {
								f[kv[:p]] = kv[p+1:]
							}
						}
						for k := range cns {
							if f["id"] != strconv.FormatInt(ids[k], 10) {
								continue
							}
							if rv, ok := f["resp"]; ok && rv != strconv.Itoa(proto[k]) {
								r.Report("c15/hello/client-list-protocol-of-another-connection", fmt.Sprintf("CLIENT LIST asked by conn%d (RESP%d) says resp=%s for conn%d, which speaks RESP%d", j, proto[j], rv, k, proto[k]), rep())
								return
							}
							if nv, ok := f["name"]; ok && nv != names[k] && !strings.ContainsAny(names[k], " \t\r\n") {
								r.Report("c15/hello/client-list-name-of-another-connection", fmt.Sprintf("CLIENT LIST asked by conn%d says name=%q for conn%d, whose name is %q", j, nv, k, names[k]), rep())
								return
							}
						}
					}
				}
			}
		}
	})
}

func checkC15(r *verdict.Run) {
	r.Rule = "(1) the same generated command sequence (all command families + introspection, LCS IDX, LMPOP, SCAN family, HRANDFIELD WITHVALUES, float commands, MULTI/EXEC arrays, errors) is sent to two fresh emulator instances, one over a RESP2 connection parsed strictly as RESP2 and one after HELLO 3: for every step the RESP2 reply must equal the canonical down-conversion of the RESP3 reply " +
		"(map -> flat pairs, set -> array as multiset, double/big number/verbatim -> string, boolean -> 0/1, null -> nil; order compared where defined; time/identity/random replies by shape); (2) HELLO state machine walks on three connections with protocol probes after every step, incl. transactions with HELLO 2/3 queued between commands whose replies differ between the protocols (the EXEC reply of a connection that ends in RESP2 must be RESP2 throughout). distinct = (command+options, RESP2 type, RESP3 type) + HELLO transitions"
	c15Sequences(r, tierPick(r, 200, 5000))
	c15HelloMachine(r, tierPick(r, 8, 100))
	c15HookReplies(r)
	c15TestClientSessions(r)
	r.Assume("two emulator instances fed the same commands are in the same state (the commands used are deterministic except where compared by shape)")
}

// c15HookReplies: replies do not only come from the built-in commands: the public SetHook API lets a test answer a
// command with a Go value (sets, maps of several kinds, nested arrays, doubles, booleans, big numbers). Such a reply
// goes through the same protocol conversion: on a RESP2 connection it must be the down-conversion of what a RESP3
// connection receives, in RESP2 types only.
func c15HookReplies(r *verdict.Run) {
	c, err := startChild(false)
	if err != nil {
		r.Inconclusive("cannot start child")
		return
	}
	defer c.Stop()
	e, err := startEmu(c, "")
	if err != nil {
		r.Inconclusive("infra: " + err.Error())
		return
	}
	if _, err := c.Do(5*time.Second, "replyhook %s", e.name); err != nil {
		r.Inconclusive("infra: replyhook: " + err.Error())
		return
	}
	c2, err := e.dial()
	if err != nil {
		return
	}
	defer c2.Close()
	c3, err := e.dial()
	if err != nil {
		return
	}
	defer c3.Close()
	if err := c3.Hello3(); err != nil {
		r.Inconclusive("infra: HELLO 3: " + err.Error())
		return
	}
	c2.Proto = 2
	for round := 0; round < 3; round++ {
		for _, kind := range []string{"set3", "set1", "set0", "set-many", "map-any", "map-string-any", "map-string-string", "array-mixed", "double", "double-int", "bool", "bignum", "ints", "strings", "nil", "int", "string", "error"} {
			if round == 1 {
				// the same connection after switching back and forth
				c2.Proto = 3
				c2.Do("HELLO", "3")
				c2.Proto = 2
				c2.Do("HELLO", "2")
			}
			c2.SendCmd("ECHO", "verif:"+kind)
			v2, raw2, err2 := c2.ReadValue(5 * time.Second)
			v3, err3 := c3.Do("ECHO", "verif:"+kind)
			r.Eval(1)
			rep := map[string]any{"kind": kind, "resp2_raw": string(truncBytes(raw2, 300)), "resp3": trunc(v3.String(), 300)}
			if err2 != nil || err3 != nil {
				if !c.Alive() {
					r.Report("c15/hook-reply/process-died/"+kind, "the emulator died converting a hook reply of kind "+kind+":\n"+headLines(c.StderrHead(20000), 20), rep)
					return
				}
				r.Report("c15/hook-reply/resp3-type-or-bad-framing-on-resp2/"+kind, fmt.Sprintf("hook reply of kind %s: RESP2 connection: %v, RESP3 connection: %v; raw RESP2 bytes %q", kind, err2, err3, truncBytes(raw2, 200)), rep)
				return
			}
			if why := c15Equiv(v2, v3, true, "reply"); why != "" {
				r.Report("c15/hook-reply/mismatch/"+kind, fmt.Sprintf("hook reply of kind %s: %s", kind, why), rep)
				continue
			}
			r.Distinct("hook-reply/" + kind)
		}
	}
}

// c15TestClientSessions: the in-process test client (NewRedisTestClient / AdditionalClient) is a connection like any
// other: a client made from a parent that has switched to RESP3 starts in RESP2 until its own HELLO, whenever it was
// made. (The emulator host reports the Go type of the replies: a map under RESP3, an array under RESP2.)
func c15TestClientSessions(r *verdict.Run) {
	c, err := startChild(false)
	if err != nil {
		r.Inconclusive("cannot start child")
		return
	}
	defer c.Stop()
	out, err := c.Do(10*time.Second, "testclient")
	if err != nil {
		r.Inconclusive("infra: testclient: " + err.Error())
		return
	}
	r.Eval(1)
	f := map[string]string{}
	for _, kv := range strings.Fields(out) {
		if p := strings.IndexByte(kv, '='); p > 0 {
			f[kv[:p]] = kv[p+1:]
		}
	}
	want := map[string]string{"parent": "map", "made-before": "array", "made-after": "array", "made-after-own-hello3": "map"}
	for k, w := range want {
		if f[k] != w {
			r.Report("c15/test-client/protocol-of-an-additional-client/"+k, fmt.Sprintf("in-process test client: HGETALL on the connection %q came back as %q, expected %q (parent switched to RESP3; additional clients made before and after that switch speak RESP2 until their own HELLO 3): %s", k, f[k], w, out), nil)
			return
		}
	}
	r.Distinct("test-client-sessions")
}
