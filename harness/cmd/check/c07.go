package main

import (
	"fmt"
	"math/rand"
	"sort"
	"strconv"
	"strings"
	"time"

	"verif/harness/model"
	"verif/harness/resp"
	"verif/harness/verdict"
)

func init() { register("C07", "exploration", checkC07) }

// ways to leave an object stored with a deadline in the past (the emulator expires lazily)
func c07ExpireNow(key string, how int) [][]string {
	switch how % 3 {
	case 0:
		return [][]string{{"PEXPIREAT", key, "1"}}
	case 1:
		return [][]string{{"EXPIRE", key, "-1"}}
	}
	return [][]string{{"EXPIREAT", key, "1"}}
}

// c07SizeTemplates: in-place modifications that change the size of the value (grow beyond the current end, shrink,
// or change nothing), and replacing forms with the target among their own operands. The canonical templates of the
// C06 matrix stay inside the current value; an implementation that re-creates the object when it has to grow would
// lose the deadline only here.
var c07SizeTemplates = [][]string{
	// keyspace walks with every filter option: an expired key must not come back through any of them
	{"SCAN", "0", "COUNT", "100", "TYPE", "string"}, {"SCAN", "0", "TYPE", "list", "COUNT", "100"}, {"SCAN", "0", "COUNT", "100", "TYPE", "hash"}, {"SCAN", "0", "COUNT", "100", "TYPE", "set"},
	{"SCAN", "0", "MATCH", "t*", "COUNT", "100"}, {"SCAN", "0", "MATCH", "t?", "TYPE", "string", "COUNT", "100"}, {"KEYS", "t*"}, {"KEYS", "??"},
	{"SETBIT", "K", "100", "1"}, {"SETBIT", "K", "7", "0"}, {"BITFIELD", "K", "SET", "u8", "#9", "255"}, {"BITFIELD", "K", "INCRBY", "u16", "200", "1"}, {"BITFIELD", "K", "OVERFLOW", "FAIL", "INCRBY", "u8", "0", "300"},
	{"BITFIELD", "K", "GET", "u8", "400"}, {"SETRANGE", "K", "20", "tail"}, {"SETRANGE", "K", "0", ""}, {"APPEND", "K", ""}, {"APPEND", "K", "a-much-longer-tail-than-the-value-itself"}, {"INCRBY", "K", "999999"}, {"DECRBY", "K", "11"}, {"INCRBYFLOAT", "K", "0.25"},
	{"LPUSH", "K", "p1", "p2", "p3", "p4", "p5", "p6", "p7", "p8"}, {"LINSERT", "K", "AFTER", "c", "x"}, {"LSET", "K", "-1", "x"}, {"LREM", "K", "-1", "a"}, {"LTRIM", "K", "1", "-1"}, {"LPOP", "K", "2"}, {"RPOP", "K", "2"},
	{"LMPOP", "1", "K", "RIGHT", "COUNT", "2"}, {"LMOVE", "K", "K", "LEFT", "RIGHT"}, {"RPOPLPUSH", "K", "K"}, {"BLMOVE", "K", "K", "RIGHT", "LEFT", "0.01"},
	{"HSET", "K", "newfield", "v", "f1", "changed"}, {"HDEL", "K", "f1"}, {"HINCRBYFLOAT", "K", "n", "0.5"}, {"HSETNX", "K", "f1", "x"}, {"HINCRBY", "K", "newcounter", "5"},
	{"SADD", "K", "x", "y", "z", "u", "v", "w", "q", "r"}, {"SREM", "K", "a"}, {"SMOVE", "K", "sother", "b"}, {"SMOVE", "K", "K", "a"}, {"SMOVE", "sother", "K", "b"},
	{"SORT", "K", "ALPHA", "STORE", "K"}, {"SUNIONSTORE", "K", "K", "sother"}, {"SDIFFSTORE", "K", "K", "nokey"}, {"SINTERSTORE", "K", "K", "K"}, {"BITOP", "OR", "K", "K", "other"}, {"BITOP", "NOT", "K", "K"},
	{"COPY", "other", "K", "REPLACE"}, {"RENAME", "other", "K"}, {"SET", "K", "v", "GET"}, {"SET", "K", "v", "KEEPTTL", "GET"}, {"SET", "K", "v", "XX", "KEEPTTL"}, {"SET", "K", "v", "NX", "KEEPTTL"}, {"GETEX", "K", "PERSIST"},
	// SORT reads other keys through its BY and GET patterns (wt_<element>): expired ones must count as missing
	{"SORT", "K", "BY", "wt_*"}, {"SORT", "K", "BY", "wt_*", "GET", "wt_*", "GET", "#"}, {"SORT", "K", "BY", "nosort", "GET", "wt_*"}, {"SORT", "K", "ALPHA", "BY", "wt_*", "DESC", "STORE", "dst"},
	{"MSETNX", "fresh", "w", "K", "v"}, {"RENAMENX", "other", "K"}, {"COPY", "other", "K"}, {"LPUSHX", "K", "x"}, {"RPUSHX", "K", "x", "y"},
}

// c07PhaseMatrix: every command template x key type x lifetime phase.
func c07PhaseMatrix(r *verdict.Run) {
	type cell struct {
		tmpl  []string
		typ   string
		phase string
	}
	types := []string{"string", "list", "hash", "set"}
	phases := []string{"ttl-future", "expired-stored", "operands-expired"}
	var cells []cell
	n := 0
	for _, ph := range phases {
		for _, t := range types {
			for _, tm := range append(append([][]string{}, c06Templates...), c07SizeTemplates...) {
				n++
				cells = append(cells, cell{tm, t, ph}) // the whole matrix in both tiers (a sampled half once hid MSETNX on an expired key)
			}
		}
	}
	universe := []string{"tk", "other", "lother", "sother", "dst", "fresh", "nokey", "wt_a", "wt_b", "wt_c"}
	nsh := 16
	parallel(nsh, 16, func(shard int) {
		c, err := startChild(false)
		if err != nil {
			r.Inconclusive("cannot start child")
			return
		}
		defer func() { c.Stop() }()
		for i := shard; i < len(cells); i += nsh {
			ce := cells[i]
			if !c.Alive() {
				c.Stop()
				if c, err = startChild(false); err != nil {
					return
				}
			}
			d, err := newDiffEnv(r, c, universe)
			if err != nil {
				r.Inconclusive("infra: " + err.Error())
				c.Stop()
				c, _ = startChild(false)
				continue
			}
			d.monitor = "phase"
			setup := append(append([][]string{}, c06Setup...), c06TypeSetup(ce.typ)...)
			setup = append(setup, []string{"MSET", "wt_a", "3", "wt_b", "1", "wt_c", "2"}) // weights of the elements a, b, c
			switch ce.phase {
			case "ttl-future":
				setup = append(setup, []string{"PEXPIRE", "tk", "100000"})
			case "expired-stored":
				setup = append(setup, c07ExpireNow("tk", i)...)
			case "operands-expired":
				setup = append(setup, c07ExpireNow("wt_a", i)...)
				setup = append(setup, c07ExpireNow("wt_c", i+1)...)
				setup = append(setup, c07ExpireNow("other", i)...)
				setup = append(setup, c07ExpireNow("lother", i+1)...)
				setup = append(setup, c07ExpireNow("sother", i+2)...)
			}
			ok := true
			for _, s := range setup {
				if _, ok = d.step(s); !ok {
					break
				}
			}
			if ok {
				args := make([]string, len(ce.tmpl))
				for j, a := range ce.tmpl {
					if a == "K" {
						a = "tk"
					}
					args[j] = a
				}
				got, ok2 := d.step(args)
				if ok2 {
					// the deadline of the target after the command (preserved / cleared / changed) is part of the dump;
					// read it explicitly as well
					d.step([]string{"PTTL", "tk"})
					d.step([]string{"PTTL", "dst"})
				}
				r.Eval(1)
				r.Distinct(fmt.Sprintf("phase/%s/%s/%s/%s", ce.phase, strings.Join(ce.tmpl, " "), ce.typ, model.Class(got)))
			}
			d.close()
		}
	})
	r.Set("phase_matrix_cells", len(cells))
}

// c07ExpireSemantics: EXPIRE family x condition flag x current deadline state.
func c07ExpireSemantics(r *verdict.Run) {
	c, err := startChild(false)
	if err != nil {
		r.Inconclusive("cannot start child")
		return
	}
	defer c.Stop()
	now := time.Now()
	type cmdForm struct {
		name string
		arg  func(sec int64) string
	}
	forms := []cmdForm{
		{"EXPIRE", func(s int64) string { return strconv.FormatInt(s, 10) }},
		{"PEXPIRE", func(s int64) string { return strconv.FormatInt(s*1000, 10) }},
		{"EXPIREAT", func(s int64) string { return strconv.FormatInt(now.Unix()+s, 10) }},
		{"PEXPIREAT", func(s int64) string { return strconv.FormatInt(now.UnixMilli()+s*1000, 10) }},
	}
	flags := []string{"", "NX", "XX", "GT", "LT", "nx", "Gt"}
	states := []string{"none", "has-500s", "has-50s"}
	times := []int64{100, 0, -5}
	for _, f := range forms {
		d, err := newDiffEnv(r, c, []string{"k", "m"})
		if err != nil {
			r.Inconclusive("infra: " + err.Error())
			return
		}
		d.monitor = "expire"
		for _, st := range states {
			for _, fl := range flags {
				for _, tm := range times {
					for _, typ := range []string{"string", "list"} {
						ok := true
						step := func(a ...string) {
							if ok {
								_, ok = d.step(a)
							}
						}
						step("DEL", "k")
						if typ == "string" {
							step("SET", "k", "v")
						} else {
							step("RPUSH", "k", "a", "b")
						}
						switch st {
						case "has-500s":
							step("EXPIRE", "k", "500")
						case "has-50s":
							step("PEXPIRE", "k", "50000")
						}
						a := []string{f.name, "k", f.arg(tm)}
						if fl != "" {
							a = append(a, fl)
						}
						step(a...)
						step("TTL", "k")
						step("PTTL", "k")
						step("EXPIRETIME", "k")
						step("PEXPIRETIME", "k")
						step("PERSIST", "k")
						step("TTL", "k")
						if !ok {
							return
						}
						r.Eval(1)
						r.Distinct(fmt.Sprintf("expire/%s/%s/%s/%d/%s", f.name, strings.ToUpper(fl), st, tm, typ))
					}
				}
			}
		}
		// missing key, bad arguments, GETEX / SET forms
		for _, a := range [][]string{{f.name, "m", f.arg(100)}, {f.name, "m", f.arg(100), "XX"}, {f.name, "k", "abc"}, {f.name, "k", f.arg(100), "BOGUS"}, {f.name, "k"},
			{"TTL", "m"}, {"PTTL", "m"}, {"EXPIRETIME", "m"}, {"PEXPIRETIME", "m"}, {"PERSIST", "m"}} {
			d.step(a)
			r.Eval(1)
		}
		d.close()
	}
	d, err := newDiffEnv(r, c, []string{"k"})
	if err != nil {
		return
	}
	d.monitor = "expire"
	at := strconv.FormatInt(now.Unix()+300, 10)
	pat := strconv.FormatInt(now.UnixMilli()+300000, 10)
	for _, seq := range [][][]string{
		{{"SET", "k", "v", "EX", "100"}, {"TTL", "k"}, {"PEXPIRETIME", "k"}, {"SET", "k", "w", "KEEPTTL"}, {"PTTL", "k"}, {"SET", "k", "x"}, {"TTL", "k"}},
		{{"SET", "k", "v", "PX", "100000"}, {"PTTL", "k"}, {"GETEX", "k", "PERSIST"}, {"TTL", "k"}},
		{{"SET", "k", "v", "EXAT", at}, {"EXPIRETIME", "k"}, {"GETEX", "k", "PXAT", pat}, {"PEXPIRETIME", "k"}, {"EXPIRETIME", "k"}},
		{{"SET", "k", "v", "PXAT", pat}, {"PEXPIRETIME", "k"}, {"GETEX", "k", "EX", "50"}, {"TTL", "k"}, {"GETEX", "k", "PX", "70000"}, {"PTTL", "k"}, {"GETEX", "k"}, {"PTTL", "k"}},
		{{"SETEX", "k", "100", "v"}, {"TTL", "k"}, {"PSETEX", "k", "200000", "v"}, {"PTTL", "k"}, {"GETSET", "k", "n"}, {"TTL", "k"}},
		{{"SET", "k", "1", "EX", "100"}, {"INCR", "k"}, {"TTL", "k"}, {"APPEND", "k", "0"}, {"TTL", "k"}, {"SETRANGE", "k", "0", "9"}, {"TTL", "k"}, {"SETBIT", "k", "0", "1"}, {"TTL", "k"}, {"INCRBYFLOAT", "k", "1.5"}, {"TTL", "k"}, {"BITFIELD", "k", "SET", "u8", "0", "1"}, {"TTL", "k"}},
		{{"DEL", "k"}, {"RPUSH", "k", "a"}, {"EXPIRE", "k", "100"}, {"LPUSH", "k", "b"}, {"TTL", "k"}, {"LSET", "k", "0", "c"}, {"LPOP", "k"}, {"TTL", "k"}, {"RENAME", "k", "k2"}, {"TTL", "k2"}, {"COPY", "k2", "k"}, {"TTL", "k"}, {"DEL", "k2"}},
		{{"DEL", "k"}, {"HSET", "k", "f", "1"}, {"EXPIRE", "k", "100"}, {"HSET", "k", "g", "2"}, {"HINCRBY", "k", "f", "1"}, {"HDEL", "k", "g"}, {"TTL", "k"}},
		{{"DEL", "k"}, {"SADD", "k", "a"}, {"EXPIRE", "k", "100"}, {"SADD", "k", "b"}, {"SREM", "k", "a"}, {"TTL", "k"}, {"SUNIONSTORE", "k", "k"}, {"TTL", "k"}},
		{{"SET", "k", "v", "EX", "100"}, {"MSET", "k", "w"}, {"TTL", "k"}, {"SET", "k", "v", "EX", "100"}, {"BITOP", "NOT", "k", "k"}, {"TTL", "k"}},
	} {
		for _, a := range seq {
			d.step(a)
			r.Eval(1)
			r.Distinct("ttl-rule/" + cmdTag(a))
		}
	}
	d.close()
}

// c07Transition: keys with short TTLs are read by rotating commands across their deadline.
func c07Transition(r *verdict.Run, batches int) {
	reads := func(k string, typ string) [][]string {
		common := [][]string{{"EXISTS", k}, {"TYPE", k}, {"PTTL", k}, {"TTL", k}, {"KEYS", "*"}, {"DBSIZE"}, {"RANDOMKEY"}, {"TOUCH", k}, {"RENAMENX", "nokey", k}, {"COPY", k, "cp"}, {"DEL", "cp"}, {"SCAN", "0", "COUNT", "100"}}
		switch typ {
		case "string":
			return append(common, []string{"GET", k}, []string{"STRLEN", k}, []string{"MGET", k, "stable"}, []string{"GETRANGE", k, "0", "-1"}, []string{"BITCOUNT", k}, []string{"SETNX", k, "v"}, []string{"SET", k, "v", "XX", "KEEPTTL"})
		case "list":
			return append(common, []string{"LLEN", k}, []string{"LRANGE", k, "0", "-1"}, []string{"LINDEX", k, "0"}, []string{"RPUSHX", k, "x"}, []string{"LPOS", k, "a"}, []string{"SORT", k, "ALPHA"})
		case "hash":
			return append(common, []string{"HLEN", k}, []string{"HGETALL", k}, []string{"HGET", k, "f"}, []string{"HEXISTS", k, "f"}, []string{"HSETNX", k, "f", "z"})
		}
		return append(common, []string{"SCARD", k}, []string{"SMEMBERS", k}, []string{"SISMEMBER", k, "a"}, []string{"SINTER", k, k}, []string{"SUNION", "nokey", k}, []string{"SDIFF", k, "nokey"})
	}
	parallel(batches, 16, func(b int) {
		rng := shardRng(r, 5000+b)
		c, err := startChild(false)
		if err != nil {
			r.Inconclusive("cannot start child")
			return
		}
		defer c.Stop()
		d, err := newDiffEnv(r, c, []string{"t0", "t1", "t2", "t3", "stable", "cp", "nokey"})
		if err != nil {
			r.Inconclusive("infra: " + err.Error())
			return
		}
		defer d.close()
		d.monitor = "transition"
		d.step([]string{"SET", "stable", "s"})
		typs := []string{"string", "list", "hash", "set"}
		// four keys with staggered deadlines 120..400 ms, each set in a different way
		for i := 0; i < 4; i++ {
			k := fmt.Sprintf("t%d", i)
			ms := 120 + rng.Intn(280)
			switch typs[i] {
			case "string":
				if rng.Intn(2) == 0 {
					d.step([]string{"SET", k, "v", "PX", strconv.Itoa(ms)})
				} else {
					d.step([]string{"PSETEX", k, strconv.Itoa(ms), "v"})
				}
			case "list":
				d.step([]string{"RPUSH", k, "a", "b"})
				d.step([]string{"PEXPIRE", k, strconv.Itoa(ms)})
			case "hash":
				d.step([]string{"HSET", k, "f", "1"})
				d.step([]string{"PEXPIREAT", k, strconv.FormatInt(time.Now().UnixMilli()+int64(ms), 10)})
			case "set":
				d.step([]string{"SADD", k, "a", "b"})
				d.step([]string{"PEXPIRE", k, strconv.Itoa(ms)})
			}
		}
		start := time.Now()
		for time.Since(start) < 650*time.Millisecond {
			i := rng.Intn(4)
			k := fmt.Sprintf("t%d", i)
			rs := reads(k, typs[i])
			if _, ok := d.step(rs[rng.Intn(len(rs))]); !ok {
				return
			}
			r.Eval(1)
			time.Sleep(time.Duration(rng.Intn(6)) * time.Millisecond)
		}
		// long after every deadline: all four keys must be gone for every command
		for i := 0; i < 4; i++ {
			k := fmt.Sprintf("t%d", i)
			for _, a := range reads(k, typs[i]) {
				if _, ok := d.step(a); !ok {
					return
				}
				r.Eval(1)
				r.Distinct("transition-after/" + typs[i] + "/" + cmdTag(a))
			}
		}
	})
	r.Set("transition_batches", batches)
}

func c07Gen(rng *rand.Rand, m *model.Model, keys []string) []string {
	k := pick(rng, keys)
	switch rng.Intn(26) {
	case 0:
		return []string{"SET", k, "v"}
	case 1:
		return []string{"SET", k, "v", pick(rng, []string{"EX", "PX"}), pick(rng, []string{"100", "100000"})}
	case 2:
		return []string{"SET", k, "v", "KEEPTTL"}
	case 3:
		return []string{"RPUSH", k, "a"}
	case 4:
		return []string{"HSET", k, "f", "1"}
	case 5:
		return []string{"SADD", k, "a"}
	case 6, 7, 8, 9:
		a := []string{pick(rng, []string{"EXPIRE", "PEXPIRE"}), k, pick(rng, []string{"100", "200", "50000", "0", "-1", "300"})}
		if rng.Intn(2) == 0 {
			a = append(a, randCase(rng, pick(rng, []string{"NX", "XX", "GT", "LT"})))
		}
		return a
	case 10, 11:
		base := time.Now().Unix() + int64(pick3(rng))
		if rng.Intn(2) == 0 {
			return []string{"EXPIREAT", k, strconv.FormatInt(base, 10), pick(rng, []string{"GT", "LT", "NX", "XX"})}
		}
		return []string{"PEXPIREAT", k, strconv.FormatInt(base*1000+int64(rng.Intn(1000)), 10)}
	case 12:
		return []string{"PERSIST", k}
	case 13:
		return []string{"TTL", k}
	case 14:
		return []string{"PTTL", k}
	case 15:
		return []string{"EXPIRETIME", k}
	case 16:
		return []string{"PEXPIRETIME", k}
	case 17:
		return []string{"APPEND", k, "x"}
	case 18:
		return []string{"INCR", k}
	case 19:
		return []string{"LPUSH", k, "b"}
	case 20:
		return []string{"RENAME", k, pick(rng, keys)}
	case 21:
		return []string{"COPY", k, pick(rng, keys), "REPLACE"}
	case 22:
		return []string{"GETEX", k, pick(rng, []string{"PERSIST", "EX", "PX"}), "100"}[:2+rng.Intn(2)]
	case 23:
		return []string{"GETSET", k, "n"}
	case 24:
		return []string{"MSET", k, "m"}
	case 25:
		return []string{"DEL", k}
	}
	return []string{"TTL", k}
}

func pick3(rng *rand.Rand) int { return []int{100, 300, -10, 0, 1000}[rng.Intn(5)] }

// c07KeyspaceWalks: SCAN with every filter combination and KEYS over a keyspace that holds, per type, a live key, a
// key whose deadline has passed, an UNLINKed key and a key removed by EXPIRE 0 (the last three are still stored):
// complete iterations must return exactly the live keys that pass the filter.
func c07KeyspaceWalks(r *verdict.Run) {
	c, err := startChild(false)
	if err != nil {
		r.Inconclusive("cannot start child")
		return
	}
	defer c.Stop()
	e, err := startEmu(c, "")
	if err != nil {
		r.Inconclusive("infra: " + err.Error())
		return
	}
	cn, err := e.dial()
	if err != nil {
		return
	}
	defer cn.Close()
	cn.Timeout = 5 * time.Second
	make1 := func(typ, name string) {
		switch typ {
		case "string":
			cn.Do("SET", name, "v")
		case "list":
			cn.Do("RPUSH", name, "a", "b")
		case "hash":
			cn.Do("HSET", name, "f", "v")
		case "set":
			cn.Do("SADD", name, "m")
		}
	}
	live := map[string]string{}
	for _, typ := range []string{"string", "list", "hash", "set"} {
		for i := 0; i < 6; i++ {
			n := fmt.Sprintf("%s%d-live", typ[:2], i)
			make1(typ, n)
			live[n] = typ
			for _, how := range []string{"passed", "unlinked", "expire0", "volatile"} {
				d := fmt.Sprintf("%s%d-%s", typ[:2], i, how)
				make1(typ, d)
				switch how {
				case "passed":
					cn.Do("PEXPIREAT", d, "1")
				case "unlinked":
					cn.Do("UNLINK", d)
				case "expire0":
					cn.Do("EXPIRE", d, "0")
				case "volatile":
					cn.Do("EXPIRE", d, "1000")
					live[d] = typ
				}
			}
		}
	}
	walk := func(args ...string) (map[string]int, bool) {
		got := map[string]int{}
		cursor := "0"
		for calls := 0; calls < 2000; calls++ {
			v, err := cn.Do(append([]string{"SCAN", cursor}, args...)...)
			v = model.Down(v)
			if err != nil || v.Kind != '*' || len(v.Elems) != 2 {
				return got, false
			}
			for _, el := range v.Elems[1].Elems {
				got[el.Text()]++
			}
			cursor = v.Elems[0].Text()
			if cursor == "0" {
				return got, true
			}
		}
		return got, false
	}
	type filt struct {
		args []string
		typ  string
		pat  string
	}
	var filters []filt
	for _, count := range []string{"1", "7", "1000"} {
		filters = append(filters, filt{[]string{"COUNT", count}, "", ""})
		for _, typ := range []string{"string", "list", "hash", "set", "zset"} {
			filters = append(filters, filt{[]string{"COUNT", count, "TYPE", typ}, typ, ""}, filt{[]string{"TYPE", typ, "MATCH", "*-*", "COUNT", count}, typ, "*-*"})
		}
		filters = append(filters, filt{[]string{"MATCH", "s*", "COUNT", count}, "", "s*"}, filt{[]string{"MATCH", "*-passed", "COUNT", count}, "", "*-passed"}, filt{[]string{"MATCH", "??0-*", "COUNT", count, "TYPE", "hash"}, "hash", "??0-*"})
	}
	for _, f := range filters {
		got, ok := walk(f.args...)
		r.Eval(1)
		name := strings.Join(f.args, " ")
		if !ok {
			r.Report("walk/iteration-failed", "SCAN "+name+": the iteration did not complete", nil)
			continue
		}
		var extra, missing []string
		for k := range got {
			if t, isLive := live[k]; !isLive || (f.typ != "" && t != f.typ) || (f.pat != "" && !model.Glob(f.pat, k)) {
				extra = append(extra, k)
			}
		}
		for k, t := range live {
			if (f.typ == "" || t == f.typ) && (f.pat == "" || model.Glob(f.pat, k)) && got[k] == 0 {
				missing = append(missing, k)
			}
		}
		sort.Strings(extra)
		sort.Strings(missing)
		if len(extra) > 0 {
			r.Report("walk/scan-returns-keys-that-are-gone-or-filtered-out", fmt.Sprintf("SCAN %s returned %v (keys whose deadline has passed, that were unlinked, or that the filter excludes)", name, extra), map[string]any{"filter": f.args})
		} else if len(missing) > 0 {
			r.Report("walk/scan-misses-live-keys", fmt.Sprintf("SCAN %s did not return %v", name, missing), map[string]any{"filter": f.args})
		} else {
			r.Distinct("walk/" + name)
		}
	}
	for _, pat := range []string{"*", "s*", "*-passed", "*-unlinked", "??0-*", "[lh]*-live"} {
		v, err := cn.Do("KEYS", pat)
		r.Eval(1)
		if err != nil {
			continue
		}
		var extra []string
		n := 0
		for _, el := range v.Elems {
			if _, isLive := live[el.Text()]; !isLive || !model.Glob(pat, el.Text()) {
				extra = append(extra, el.Text())
			}
			n++
		}
		want := 0
		for k := range live {
			if model.Glob(pat, k) {
				want++
			}
		}
		if len(extra) > 0 || n != want {
			r.Report("walk/keys-returns-keys-that-are-gone", fmt.Sprintf("KEYS %s returned %d names (%d live ones match); not live or not matching: %v", pat, n, want, extra), nil)
		} else {
			r.Distinct("walk/keys/" + pat)
		}
	}
	if v, _ := cn.Do("DBSIZE"); v.Int != int64(len(live)) {
		r.Report("walk/dbsize-counts-keys-that-are-gone", fmt.Sprintf("DBSIZE = %s with %d live keys", v, len(live)), nil)
	}
}

func checkC07(r *verdict.Run) {
	r.Rule = "(1) lifetime-phase matrix: every command template (the canonical invocations plus 55 size-changing in-place modifications and replacing forms whose target is among their operands) x key type x {deadline 100 s ahead, deadline passed but object still stored (PEXPIREAT 1 / EXPIRE -1 / EXPIREAT 1), operand keys expired}: an expired key must behave as missing for every command, TTL preserved/cleared per command; " +
		"(1b) complete SCAN iterations with every combination of COUNT / TYPE / MATCH, and KEYS, over a keyspace with live, volatile, passed-deadline, unlinked and EXPIRE-0 keys of every type: exactly the live keys that pass the filter; (2) EXPIRE/PEXPIRE/EXPIREAT/PEXPIREAT x {none,NX,XX,GT,LT} x {no deadline, later, earlier} x {positive, zero, negative} and TTL/PTTL/EXPIRETIME/PEXPIRETIME/PERSIST/GETEX/SET option sequences; " +
		"(2b) every deadline-setting form (EXPIRE family, SET/GETEX EX/PX/EXAT/PXAT, SETEX, PSETEX) with extreme values around 292 years, year 9999, 2^53 ms and the int64 limits, positive and negative: stored or refused as Redis does, never a vanished or persistent key; " +
		"(2c) commands queued in MULTI while the key is alive and executed by EXEC after its deadline, and blocking moves served after their destination expired while they waited: deadlines are judged when a command executes; (2d) after a clean shutdown and restart on a persist path persistent keys still report -1 and behave as persistent, volatile keys keep their deadline; " +
		"(3) transition batches: keys of 4 types with 120-400 ms TTLs read by rotating commands across the deadline. All against the reference model with an interval clock: an observation is judged only when its [send, receive] interval lies entirely before or after the deadline interval (no wall-clock tolerance constants). " +
		"distinct = matrix cells + (command, flag, state) tuples + transition reads"
	c07KeyspaceWalks(r)
	c07PhaseMatrix(r)
	c07ExpireSemantics(r)
	c07ExtremeTimes(r)
	c07Transition(r, tierPick(r, 16, 200))
	c07QueuedAcrossDeadline(r, tierPick(r, 16, 160))
	c07BlockedAcrossDeadline(r)
	c07Restart(r)
	runDiffSequences(r, tierPick(r, 100, 3000), func(rng *rand.Rand) int { return 40 + rng.Intn(40) },
		[]string{"e0", "e1", "e2", "e3"}, [][]string{{"SET", "e0", "v", "EX", "100"}, {"RPUSH", "e1", "a"}}, c07Gen)
	r.Assume("client and server share one machine clock (same host); an observation whose interval overlaps a deadline interval is skipped (counted as ambiguous_time_*), never judged")
}

// c07ExtremeTimes: every deadline-setting form with values around the places where an implementation's time
// arithmetic can wrap: 292 years (int64 nanoseconds), year 9999, 2^53 ms, int64 milliseconds, and the negative
// counterparts. Redis either stores the deadline or answers "invalid expire time"; a key must never vanish or
// become persistent because of an overflow.
func c07ExtremeTimes(r *verdict.Run) {
	c, err := startChild(false)
	if err != nil {
		r.Inconclusive("cannot start child")
		return
	}
	defer c.Stop()
	const maxI = int64(9223372036854775807)
	nowS := time.Now().Unix()
	secs := []int64{9223372036, 9223372037, 100000000000, 251000000000, 260000000000, 9007199254740, 9223372036854775, 9223372036854776, maxI - 1, maxI,
		-9223372036, -9223372037, -9223372036854775, -9223372036854776, -maxI, -maxI - 1}
	msecs := []int64{9223372036854, 9223372036855, 100000000000000, 251000000000000000 / 1000, 260000000000000, 9007199254740000, maxI - nowS*1000 - 3600000, maxI - nowS*1000 + 3600000, maxI - 1, maxI,
		-9223372036855, -9223372036854775, -maxI, -maxI - 1}
	type form struct {
		name string
		mk   func(v string) []string
		sec  bool
		neg  bool // negative values are meaningful (EXPIRE family)
	}
	forms := []form{
		{"EXPIRE", func(v string) []string { return []string{"EXPIRE", "k", v} }, true, true},
		{"PEXPIRE", func(v string) []string { return []string{"PEXPIRE", "k", v} }, false, true},
		{"EXPIREAT", func(v string) []string { return []string{"EXPIREAT", "k", v} }, true, true},
		{"PEXPIREAT", func(v string) []string { return []string{"PEXPIREAT", "k", v} }, false, true},
		{"EXPIRE+XX", func(v string) []string { return []string{"EXPIRE", "k", v, "XX"} }, true, false},
		{"SET+EX", func(v string) []string { return []string{"SET", "k", "w", "EX", v} }, true, false},
		{"SET+PX", func(v string) []string { return []string{"SET", "k", "w", "PX", v} }, false, false},
		{"SET+EXAT", func(v string) []string { return []string{"SET", "k", "w", "EXAT", v} }, true, false},
		{"SET+PXAT", func(v string) []string { return []string{"SET", "k", "w", "PXAT", v} }, false, false},
		{"SETEX", func(v string) []string { return []string{"SETEX", "k", v, "w"} }, true, false},
		{"PSETEX", func(v string) []string { return []string{"PSETEX", "k", v, "w"} }, false, false},
		{"GETEX+EX", func(v string) []string { return []string{"GETEX", "k", "EX", v} }, true, false},
		{"GETEX+PX", func(v string) []string { return []string{"GETEX", "k", "PX", v} }, false, false},
		{"GETEX+EXAT", func(v string) []string { return []string{"GETEX", "k", "EXAT", v} }, true, false},
		{"GETEX+PXAT", func(v string) []string { return []string{"GETEX", "k", "PXAT", v} }, false, false},
	}
	for _, f := range forms {
		d, err := newDiffEnv(r, c, []string{"k"})
		if err != nil {
			r.Inconclusive("infra: " + err.Error())
			return
		}
		d.monitor = "extreme"
		vals := msecs
		if f.sec {
			vals = secs
		}
		for _, v := range vals {
			if v < 0 && !f.neg {
				continue
			}
			for _, pre := range [][]string{{"SET", "k", "v"}, {"SET", "k", "v", "EX", "1000"}} {
				ok := true
				step := func(a ...string) {
					if ok {
						_, ok = d.step(a)
					}
				}
				step("DEL", "k")
				step(pre...)
				got, ok2 := d.step(f.mk(strconv.FormatInt(v, 10)))
				ok = ok && ok2
				step("EXISTS", "k")
				step("PTTL", "k")
				step("TTL", "k")
				step("PEXPIRETIME", "k")
				step("EXPIRETIME", "k")
				step("GET", "k")
				if !ok {
					return
				}
				r.Eval(1)
				r.Distinct(fmt.Sprintf("extreme/%s/%d/%s/%s", f.name, v, pre[len(pre)-1], model.Class(got)))
			}
		}
		d.close()
	}
}

// c07QueuedAcrossDeadline: commands are queued in MULTI while the key is alive and executed by EXEC after its
// deadline has passed (and the other way round: queued on a missing key, executed after it was given a deadline that
// is still ahead). Whatever moment a command object was created, the deadline is judged when the command executes.
func c07QueuedAcrossDeadline(r *verdict.Run, batches int) {
	perType := map[string][][]string{
		"string": {{"GET", "K"}, {"APPEND", "K", "x"}, {"STRLEN", "K"}, {"INCR", "K"}, {"SETNX", "K", "n"}, {"SET", "K", "n", "XX"}, {"GETRANGE", "K", "0", "-1"}, {"SETRANGE", "K", "1", "z"}, {"BITCOUNT", "K"}, {"SETBIT", "K", "3", "1"}},
		"list":   {{"LLEN", "K"}, {"RPUSHX", "K", "x"}, {"LPUSH", "K", "y"}, {"LRANGE", "K", "0", "-1"}, {"LPOP", "K"}, {"LINSERT", "K", "BEFORE", "a", "i"}, {"LMOVE", "K", "dst", "LEFT", "RIGHT"}, {"LMOVE", "src", "K", "LEFT", "RIGHT"}},
		"hash":   {{"HLEN", "K"}, {"HGETALL", "K"}, {"HSETNX", "K", "f", "z"}, {"HINCRBY", "K", "n", "1"}, {"HSET", "K", "g", "2"}, {"HDEL", "K", "f"}},
		"set":    {{"SCARD", "K"}, {"SMEMBERS", "K"}, {"SADD", "K", "z"}, {"SMOVE", "K", "dst", "a"}, {"SINTERSTORE", "dst", "K", "K"}, {"SUNION", "K", "other"}},
	}
	common := [][]string{{"EXISTS", "K"}, {"TYPE", "K"}, {"TTL", "K"}, {"PTTL", "K"}, {"DBSIZE"}, {"KEYS", "*"}, {"RENAMENX", "other", "K"}, {"COPY", "K", "cp"}, {"PERSIST", "K"}, {"EXPIRE", "K", "100", "XX"}, {"DEL", "K"}, {"RANDOMKEY"}, {"SCAN", "0"}}
	typs := []string{"string", "list", "hash", "set"}
	parallel(batches, 16, func(b int) {
		rng := shardRng(r, 6000+b)
		c, err := startChild(false)
		if err != nil {
			r.Inconclusive("cannot start child")
			return
		}
		defer c.Stop()
		typ := typs[b%4]
		d, err := newDiffEnv(r, c, []string{"tk", "other", "dst", "src", "cp"})
		if err != nil {
			r.Inconclusive("infra: " + err.Error())
			return
		}
		defer d.close()
		d.monitor = "queued-across-deadline"
		ok := true
		step := func(a ...string) {
			if ok {
				_, ok = d.step(a)
			}
		}
		step("SET", "other", "o")
		step("RPUSH", "src", "s1", "s2")
		for _, s := range c06TypeSetup(typ) {
			step(s...)
		}
		ms := 150 + rng.Intn(100)
		step("PEXPIRE", "tk", strconv.Itoa(ms))
		step("MULTI")
		pool := append(append([][]string{}, perType[typ]...), common...)
		n := 4 + rng.Intn(5)
		for i := 0; i < n; i++ {
			t := pool[rng.Intn(len(pool))]
			args := make([]string, len(t))
			for j, a := range t {
				if a == "K" {
					a = "tk"
				}
				args[j] = a
			}
			step(args...)
		}
		time.Sleep(time.Duration(ms+150) * time.Millisecond)
		step("EXEC")
		step("EXISTS", "tk")
		step("PTTL", "tk")
		r.Eval(n)
		r.Distinct(fmt.Sprintf("queued-across-deadline/%s/%d-commands", typ, n))
	})
}

// c07BlockedAcrossDeadline: a blocking command starts while a key it will touch is alive and is served after that
// key's deadline has passed: the destination of BLMOVE/BRPOPLPUSH must then be a fresh list (no old elements, no
// deadline), and a source that expired while the command waited must not be popped.
func c07BlockedAcrossDeadline(r *verdict.Run) {
	c, err := startChild(false)
	if err != nil {
		r.Inconclusive("cannot start child")
		return
	}
	defer c.Stop()
	forms := [][]string{{"BLMOVE", "bsrc", "bdst", "LEFT", "RIGHT", "5"}, {"BRPOPLPUSH", "bsrc", "bdst", "5"}}
	for i, f := range forms {
		e, err := startEmu(c, "")
		if err != nil {
			r.Inconclusive("infra: " + err.Error())
			return
		}
		aux, _ := e.dial()
		blk, _ := e.dial()
		blk.Timeout = 8 * time.Second
		aux.Do("RPUSH", "bdst", "old1", "old2")
		aux.Do("PEXPIRE", "bdst", "150")
		done := make(chan resp.Value, 1)
		go func() {
			v, _ := blk.Do(f...)
			done <- v
		}()
		time.Sleep(400 * time.Millisecond) // the destination's deadline passes while the command waits
		aux.Do("RPUSH", "bsrc", "el-new")
		var v resp.Value
		select {
		case v = <-done:
		case <-time.After(6 * time.Second):
			r.Report("blocked-across-deadline/not-served/"+f[0], fmt.Sprintf("%s was not served by a push after its destination had expired", cmdString(f)), nil)
			e.close()
			continue
		}
		lr, _ := aux.Do("LRANGE", "bdst", "0", "-1")
		ttl, _ := aux.Do("PTTL", "bdst")
		r.Eval(1)
		var got []string
		for _, el := range lr.Elems {
			got = append(got, el.Text())
		}
		if v.Text() != "el-new" || len(got) != 1 || got[0] != "el-new" || ttl.Int != -1 {
			r.Report("blocked-across-deadline/destination-expired-while-waiting/"+f[0], fmt.Sprintf("%s waited 400 ms; its destination (two old elements, PEXPIRE 150) expired meanwhile; then RPUSH bsrc el-new: reply %s, LRANGE bdst = %v, PTTL bdst = %s (expected el-new, [el-new], -1)", cmdString(f), v, got, ttl), nil)
		}
		r.Distinct(fmt.Sprintf("blocked-across-deadline/%d", i))
		aux.Close()
		blk.Close()
		e.close()
	}
	// the key a client blocks on exists (as another type would block it? no: as a list it would be popped at once), so
	// the waiting key is one that EXPIRES while other clients wait on it and is then pushed again
	e, err := startEmu(c, "")
	if err != nil {
		return
	}
	defer e.close()
	aux, _ := e.dial()
	defer aux.Close()
	blk, _ := e.dial()
	defer blk.Close()
	blk.Timeout = 8 * time.Second
	aux.Do("SET", "bq", "a-string-in-the-way", "PX", "150")
	done := make(chan resp.Value, 1)
	go func() {
		time.Sleep(300 * time.Millisecond) // the string has expired: the name is free, BLPOP must wait for a push
		v, _ := blk.Do("BLPOP", "bq", "5")
		done <- v
	}()
	time.Sleep(500 * time.Millisecond)
	pv, _ := aux.Do("RPUSH", "bq", "el-1")
	select {
	case v := <-done:
		r.Eval(1)
		if len(elements(model.Down(v))) != 1 || pv.IsError() {
			r.Report("blocked-across-deadline/expired-string-in-the-way", fmt.Sprintf("SET bq s PX 150; (300 ms later) BLPOP bq 5; RPUSH bq el-1 -> %s; BLPOP -> %s", pv, v), nil)
		}
	case <-time.After(6 * time.Second):
		r.Report("blocked-across-deadline/expired-string-in-the-way", "BLPOP on a name whose string value had expired was not served by a later push", nil)
	}
	r.Distinct("blocked-across-deadline/expired-string")
}

// c07Restart: deadlines (and their absence) survive a clean shutdown and restart on a persist path: keys without an
// expiry still report -1 and behave as persistent for PERSIST / EXPIRE NX|XX|GT|LT, keys with a deadline keep it.
func c07Restart(r *verdict.Run) {
	p := newC19Env(r)
	if p == nil {
		return
	}
	defer p.cleanup()
	c, e, cn, err := p.start()
	if err != nil {
		r.Inconclusive("infra: " + err.Error())
		return
	}
	at := strconv.FormatInt(time.Now().Add(5000*time.Second).UnixMilli(), 10)
	for _, cmd := range [][]string{{"SET", "ps", "v"}, {"RPUSH", "pl", "a"}, {"HSET", "ph", "f", "v"}, {"SADD", "pt", "m"}, {"SET", "vs", "v", "PXAT", at}, {"RPUSH", "vl", "a"}, {"PEXPIREAT", "vl", at},
		{"SELECT", "3"}, {"SET", "ps3", "v"}, {"SET", "vs3", "v", "PXAT", at}, {"SELECT", "0"}} {
		cn.Do(cmd...)
	}
	cn.Close()
	if _, err := c.CloseEmu(e.name, 15*time.Second); err != nil {
		c.Stop()
		r.Inconclusive("Close did not return")
		return
	}
	c.Stop()
	c2, _, cn2, err := p.start()
	if err != nil {
		r.Inconclusive("restart failed: " + err.Error())
		return
	}
	defer c2.Stop()
	expectInt := func(sig string, want int64, args ...string) {
		v, err := cn2.Do(args...)
		r.Eval(1)
		if err != nil || v.Kind != ':' || v.Int != want {
			r.Report("restart/"+sig, fmt.Sprintf("after a clean shutdown and restart: %s -> %s (expected %d)", cmdString(args), v, want), nil)
		}
	}
	for _, k := range []string{"ps", "pl", "ph", "pt"} {
		expectInt("persistent-key-reports-a-deadline/TTL", -1, "TTL", k)
		expectInt("persistent-key-reports-a-deadline/PTTL", -1, "PTTL", k)
		expectInt("persistent-key-reports-a-deadline/EXPIRETIME", -1, "EXPIRETIME", k)
		expectInt("persistent-key-reports-a-deadline/PEXPIRETIME", -1, "PEXPIRETIME", k)
		expectInt("persistent-key-treated-as-volatile/PERSIST", 0, "PERSIST", k)
		expectInt("persistent-key-treated-as-volatile/EXPIRE+XX", 0, "EXPIRE", k, "100", "XX")
		expectInt("persistent-key-treated-as-volatile/EXPIRE+GT", 0, "EXPIRE", k, "100", "GT")
		expectInt("persistent-key-treated-as-volatile/EXPIRE+NX", 1, "EXPIRE", k, "100", "NX")
	}
	atMs, _ := strconv.ParseInt(at, 10, 64)
	for _, k := range []string{"vs", "vl"} {
		expectInt("deadline-changed/PEXPIRETIME", atMs, "PEXPIRETIME", k)
		expectInt("volatile-key-treated-as-persistent/EXPIRE+NX", 0, "EXPIRE", k, "100", "NX")
		expectInt("volatile-key-treated-as-persistent/PERSIST", 1, "PERSIST", k)
		expectInt("volatile-key-treated-as-persistent/TTL-after-PERSIST", -1, "TTL", k)
	}
	cn2.Do("SELECT", "3")
	expectInt("persistent-key-reports-a-deadline/TTL", -1, "TTL", "ps3")
	expectInt("deadline-changed/PEXPIRETIME", atMs, "PEXPIRETIME", "vs3")
	r.Distinct("restart/deadlines")
}
