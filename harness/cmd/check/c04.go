package main

import (
	"fmt"
	"math/rand"
	"strconv"

	"verif/harness/model"
	"verif/harness/verdict"
)

func init() { register("C04", "exploration", checkC04) }

var c04Fields = []string{"f1", "f2", "f3", "n", "m", "", "f\r\n", "f\xc3\xa9", "\xff\xfe"}
var c04IntVals = []string{"0", "1", "-1", "5", "-5", "9223372036854775807", "-9223372036854775808", "abc", " 1", "3.5", "9223372036854775806"}
var c04Deltas = []string{"0", "1", "-1", "3", "-3", "9223372036854775807", "-9223372036854775808", "10", "x", "1.5", ""}

func c04Gen(rng *rand.Rand, m *model.Model, keys []string) []string {
	hs := []string{"h0", "h1"}
	k := pick(rng, hs)
	if rng.Intn(8) == 0 {
		k = pick(rng, keys)
	}
	f := func() string { return pick(rng, c04Fields) }
	v := func() string {
		if rng.Intn(2) == 0 {
			return pick(rng, c04IntVals)
		}
		return pick(rng, []string{"v", "", "hello", "1.5", "-0.25", "3e3", "x\x00y", "h\xc3\xa9llo w\xc3\xb6rld", "\xe2\x82\xac\xe2\x82\xac\xe2\x82\xac", "\xff\xfe\xfd"})
	}
	if rng.Intn(30) == 0 {
		// the key's deadline has passed but its object is still stored: every command must treat it as missing
		return []string{pick(rng, []string{"PEXPIREAT", "EXPIREAT"}), k, "1"}
	}
	if rng.Intn(40) == 0 {
		// wide commands: 65-200 fields in one command
		w := 65 + rng.Intn(136)
		a := []string{pick(rng, []string{"HSET", "HDEL", "HMGET", "HMSET"}), k}
		for i := 0; i < w; i++ {
			a = append(a, "wf"+strconv.Itoa(i))
			if a[0] == "HSET" || a[0] == "HMSET" {
				a = append(a, strconv.Itoa(i))
			}
		}
		return a
	}
	n := modelLen(m, 0, k)
	switch rng.Intn(30) {
	case 0, 1, 2, 3:
		a := []string{"HSET", k}
		for i := 0; i < 1+rng.Intn(3); i++ {
			a = append(a, f(), v())
		}
		if rng.Intn(20) == 0 {
			a = append(a, "dangling")
		}
		return a
	case 4:
		return []string{"HMSET", k, f(), v(), f(), v()}
	case 5, 6:
		return []string{"HSETNX", k, f(), v()}
	case 7:
		return []string{"HGET", k, f()}
	case 8:
		return []string{"HMGET", k, f(), f(), "nofield"}
	case 9, 10:
		return []string{"HGETALL", k}
	case 11:
		return []string{"HKEYS", k}
	case 12:
		return []string{"HVALS", k}
	case 13:
		return []string{"HLEN", k}
	case 14:
		return []string{"HEXISTS", k, f()}
	case 15:
		return []string{"HSTRLEN", k, f()}
	case 16, 17, 18:
		a := []string{"HDEL", k}
		for i := 0; i < 1+rng.Intn(4); i++ {
			a = append(a, f())
		}
		return a
	case 19, 20, 21, 22:
		return []string{"HINCRBY", k, f(), pick(rng, c04Deltas)}
	case 23, 24:
		return []string{"HINCRBYFLOAT", k, f(), pick(rng, floatArgs)}
	case 25, 26, 27:
		a := []string{"HRANDFIELD", k}
		if rng.Intn(4) > 0 {
			a = append(a, pick(rng, []string{"0", "1", strconv.Itoa(n - 1), strconv.Itoa(n), strconv.Itoa(n + 5), "-1", strconv.Itoa(-n - 5), "x", "-3", "-9223372036854775808", "9223372036854775807", "4611686018427387904", "2147483648"}))
			if rng.Intn(2) == 0 {
				a = append(a, randCase(rng, "WITHVALUES"))
			}
		}
		return a
	case 28:
		return []string{"DEL", k}
	case 29:
		return []string{"EXPIRE", k, "100"}
	}
	return []string{"HLEN", k}
}

// c04SignTable: HINCRBY for every (old value, delta) combination.
func c04SignTable(r *verdict.Run) {
	olds := []string{"(absent)", "0", "1", "-1", "5", "-5", "9223372036854775807", "-9223372036854775808", "abc", " 1", "9223372036854775806", "-9223372036854775807"}
	deltas := []string{"0", "1", "-1", "3", "-3", "9223372036854775807", "-9223372036854775808", "2", "-2"}
	c, err := startChild(false)
	if err != nil {
		r.Inconclusive("cannot start child")
		return
	}
	defer c.Stop()
	d, err := newDiffEnv(r, c, []string{"h"})
	if err != nil {
		r.Inconclusive("infra: " + err.Error())
		return
	}
	defer d.close()
	d.cover = func(args []string, prior, outcome string) {}
	for _, o := range olds {
		for _, dl := range deltas {
			ok := true
			if _, ok = d.step([]string{"DEL", "h"}); !ok {
				return
			}
			if o != "(absent)" {
				if _, ok = d.step([]string{"HSET", "h", "f", o}); !ok {
					return
				}
			} else {
				d.step([]string{"HSET", "h", "other", "x"})
			}
			got, ok := d.step([]string{"HINCRBY", "h", "f", dl})
			if !ok {
				return
			}
			r.Eval(1)
			r.Distinct(fmt.Sprintf("hincrby-table/%s/%s/%s", o, dl, model.Class(got)))
		}
	}
	r.Set("hincrby_sign_table", fmt.Sprintf("%d old values x %d deltas, exhaustive", len(olds), len(deltas)))
}

// c04Large grows a hash across several table doublings, deletes most of it, and re-reads the whole mapping.
func c04Large(r *verdict.Run, shard int, size int) {
	rng := shardRng(r, 1000+shard)
	c, err := startChild(false)
	if err != nil {
		r.Inconclusive("cannot start child")
		return
	}
	defer c.Stop()
	d, err := newDiffEnv(r, c, []string{"big"})
	if err != nil {
		r.Inconclusive("infra: " + err.Error())
		return
	}
	defer d.close()
	fields := make([]string, size)
	for i := range fields {
		fields[i] = fmt.Sprintf("fld-%d-%d", shard, i)
	}
	step := func(a ...string) bool {
		_, ok := d.step(a)
		r.Eval(1)
		return ok
	}
	// grow (state is compared after every step: HGETALL + HLEN of the whole mapping)
	for i := 0; i < size; i += 1 + rng.Intn(4) {
		a := []string{"HSET", "big"}
		for j := i; j < size && j < i+1+rng.Intn(4); j++ {
			a = append(a, fields[j], strconv.Itoa(j))
		}
		if !step(a...) {
			return
		}
		if i%10 == 0 {
			if !step("HEXISTS", "big", fields[rng.Intn(size)]) || !step("HMGET", "big", fields[rng.Intn(size)], fields[rng.Intn(size)], "nope") {
				return
			}
		}
	}
	r.Distinct(fmt.Sprintf("large/grown/%d", modelLen(d.m, 0, "big")))
	// shrink: delete almost everything in random order
	perm := rng.Perm(size)
	for i := 0; i < size-3; i += 1 + rng.Intn(6) {
		a := []string{"HDEL", "big"}
		for j := i; j < size-3 && j < i+1+rng.Intn(6); j++ {
			a = append(a, fields[perm[j]])
		}
		if !step(a...) {
			return
		}
		if i%10 == 0 && !step("HRANDFIELD", "big", "3", "WITHVALUES") {
			return
		}
	}
	r.Distinct(fmt.Sprintf("large/shrunk/%d", modelLen(d.m, 0, "big")))
	// grow again after the shrink
	for i := 0; i < size/2; i += 3 {
		if !step("HSET", "big", fields[perm[i]], "again", fields[perm[i+1]], "again") {
			return
		}
	}
	step("HINCRBY", "big", fields[perm[0]], "1")
	step("HGETALL", "big")
	r.Distinct(fmt.Sprintf("large/regrown/%d", modelLen(d.m, 0, "big")))
}

// collidingPair finds two names whose emulator hashes share exactly `bits` low bits (they differ in the next one).
func collidingPair(rng *rand.Rand, prefix string, bits int) (string, string, bool) {
	mask := uint64(1)<<uint(bits) - 1
	seen := map[uint64]string{}
	for i := 0; i < 3000000; i++ {
		name := fmt.Sprintf("%s%x", prefix, rng.Int63())
		h := sutHash(name)
		if other, ok := seen[h&mask]; ok && other != name {
			if (sutHash(other)>>uint(bits))&1 != (h>>uint(bits))&1 {
				return other, name, true
			}
			continue
		}
		seen[h&mask] = name
	}
	return "", "", false
}

// c04Collisions: fields/members/keys whose hashes share many low bits force long chains of table doublings;
// both elements must be stored and stay readable. (The names are found with a port of the emulator's hash;
// the oracle is the ordinary reference model.)
func c04Collisions(r *verdict.Run) {
	rng := shardRng(r, 777)
	c, err := startChild(false)
	if err != nil {
		r.Inconclusive("cannot start child")
		return
	}
	defer func() { c.Stop() }()
	for _, bits := range []int{12, 16, 20, 31, 32} {
		var a, b string
		var ok bool
		if bits < 32 {
			a, b, ok = collidingPair(rng, "cf", bits)
		} else {
			// a fixed pair whose hashes agree in all 32 low bits (found by chance; a search would need ~2^32 trials):
			// before the repair of redisDict.store the second write never returned
			a, b, ok = "vp:23d4aed59cb1ce9a", "vp:3a5b9dff7ee2196e", sutHash("vp:23d4aed59cb1ce9a")&0xffffffff == sutHash("vp:3a5b9dff7ee2196e")&0xffffffff
		}
		if !ok {
			r.Inconclusive(fmt.Sprintf("no pair of names sharing %d hash bits found", bits))
			continue
		}
		for _, where := range []string{"hash-fields", "set-members", "keys"} {
			if !c.Alive() {
				c.Stop()
				if c, err = startChild(false); err != nil {
					return
				}
			}
			d, err := newDiffEnv(r, c, []string{"hh", "ss", a, b})
			if err != nil {
				r.Inconclusive("infra: " + err.Error())
				return
			}
			d.monitor = "collision"
			var script [][]string
			switch where {
			case "hash-fields":
				script = [][]string{{"HSET", "hh", "pad", "0"}, {"HSET", "hh", a, "1"}, {"HSET", "hh", b, "2"}, {"HGET", "hh", a}, {"HGET", "hh", b}, {"HLEN", "hh"}, {"HDEL", "hh", a}, {"HGET", "hh", b}, {"HSET", "hh", a, "3"}, {"HGETALL", "hh"}}
			case "set-members":
				script = [][]string{{"SADD", "ss", "pad"}, {"SADD", "ss", a}, {"SADD", "ss", b}, {"SISMEMBER", "ss", a}, {"SISMEMBER", "ss", b}, {"SCARD", "ss"}, {"SREM", "ss", a}, {"SISMEMBER", "ss", b}, {"SMEMBERS", "ss"}}
			case "keys":
				script = [][]string{{"SET", a, "1"}, {"SET", b, "2"}, {"GET", a}, {"GET", b}, {"DBSIZE"}, {"DEL", a}, {"GET", b}, {"KEYS", "*"}}
			}
			d.collisionBits = bits
			for _, st := range script {
				if _, ok := d.step(st); !ok {
					break
				}
				r.Eval(1)
			}
			r.Distinct(fmt.Sprintf("collision/%s/%d-bits", where, bits))
			d.close()
		}
	}
}

func checkC04(r *verdict.Run) {
	r.Rule = "random sequences of hash commands over 2 small hashes + wrong-typed/missing keys, the exhaustive HINCRBY (old value x delta) sign table, and large hashes grown across several table doublings, shrunk and regrown with the whole mapping re-read after every step, and churn sequences of 500-1500 steps over three long-lived hashes of different sizes (HSET/HDEL cycles with whole-hash reads, COPY and RENAME in between); " +
		"oracle per step: reply = reference model reply (HRANDFIELD by predicate), full mapping = model, failed commands inert. distinct = (command+options, prior key class, outcome class) + table cells"
	c04SignTable(r)
	c04Collisions(r)
	sizes := []int{60, 150}
	if r.Tier == "thorough" {
		sizes = []int{50, 100, 200, 400, 800, 300, 600, 120}
	}
	parallel(len(sizes), 8, func(i int) { c04Large(r, i, sizes[i]) })
	r.Set("large_hash_sizes", sizes)
	runDiffSequences(r, tierPick(r, 300, 6000), func(rng *rand.Rand) int { return 30 + rng.Intn(50) },
		[]string{"h0", "h1", "ws", "wl", "wt", "km"}, [][]string{{"SET", "ws", "str"}, {"RPUSH", "wl", "a"}, {"SADD", "wt", "f1", "n", "m"}, {"HSET", "h0", "f1", "5", "n", "-5", "m", "abc"}}, c04Gen)
	runDiffSequencesN(r, tierPick(r, 24, 240), 2, 10000, func(rng *rand.Rand) int { return 500 + rng.Intn(1000) },
		[]string{"c0", "c1", "c2", "cd"}, [][]string{{"HSET", "c0", "apple", "1", "banana", "2", "cherry", "3", "date", "4", "fig", "5", "grape", "6"}, {"HSET", "c1", "banana", "1", "kiwi", "2"}}, c04ChurnGen)
}

// c04ChurnGen: long-lived hashes of different sizes under HSET/HDEL churn (table growth, shrinking, ageing) with the
// whole-hash reads in between; never DEL, so the same objects live through the sequence.
func c04ChurnGen(rng *rand.Rand, m *model.Model, keys []string) []string {
	hs := []string{"c0", "c1", "c2"}
	k := pick(rng, hs)
	span := map[string]int{"c0": 9, "c1": 14, "c2": len(c05ChurnMembers)}[k]
	fld := func() string { return c05ChurnMembers[rng.Intn(span)] }
	switch x := rng.Intn(40); {
	case x < 12:
		a := []string{"HSET", k}
		for i := 0; i < 1+rng.Intn(3)*rng.Intn(3); i++ {
			a = append(a, fld(), strconv.Itoa(rng.Intn(50)))
		}
		return a
	case x < 24:
		a := []string{"HDEL", k}
		for i := 0; i < 1+rng.Intn(2)*rng.Intn(3); i++ {
			a = append(a, fld())
		}
		return a
	case x < 26:
		if rng.Intn(2) == 0 {
			return []string{"HSET", k, "churn", "1"}
		}
		return []string{"HDEL", k, "churn"}
	case x < 28:
		return []string{"HGETALL", k}
	case x < 30:
		return []string{pick(rng, []string{"HKEYS", "HVALS", "HLEN"}), k}
	case x < 32:
		return []string{"HMGET", k, fld(), fld(), fld()}
	case x < 33:
		if rng.Intn(2) == 0 {
			return []string{"HRANDFIELD", k, countAround(rng, modelCard(m, k))}
		}
		return []string{"HINCRBY", k, fld(), strconv.Itoa(rng.Intn(9) - 4)}
	case x < 34:
		return []string{"HSETNX", k, fld(), "nx"}
	case x < 35:
		a := []string{"HRANDFIELD", k, strconv.Itoa(rng.Intn(12) - 4)}
		if rng.Intn(3) > 0 {
			a[2] = countAround(rng, modelCard(m, k))
		}
		if rng.Intn(3) == 0 {
			a = append(a, "WITHVALUES")
		}
		return a
	case x < 36:
		return []string{"COPY", k, "cd", "REPLACE"}
	case x < 37:
		return []string{"HGETALL", "cd"}
	case x < 38:
		return []string{"RENAME", "cd", pick(rng, hs)}
	case x < 39:
		return []string{"HEXISTS", k, fld()}
	}
	return []string{"HSTRLEN", k, fld()}
}
