package main

import (
	"fmt"
	"math/rand"
	"strconv"
	"strings"

	"verif/harness/model"
	"verif/harness/verdict"
)

func init() { register("C18", "exploration", checkC18) }

type c18Case struct {
	setup [][]string
	op    []string
	tag   string
}

func bfValues(signed bool, bits int, rng *rand.Rand) []string {
	var max, min int64
	if signed {
		if bits == 64 {
			max, min = 1<<63-1, -1<<63
		} else {
			max, min = 1<<uint(bits-1)-1, -(1 << uint(bits-1))
		}
	} else {
		max, min = 1<<uint(bits)-1, 0
	}
	vals := []int64{0, 1, -1, max, min, max - 1, min + 1}
	if max < 1<<63-1 {
		vals = append(vals, max+1)
	}
	if min > -1<<63 {
		vals = append(vals, min-1)
	}
	vals = append(vals, rng.Int63()>>uint(rng.Intn(63)), -(rng.Int63() >> uint(rng.Intn(63))))
	out := make([]string, len(vals))
	for i, v := range vals {
		out[i] = strconv.FormatInt(v, 10)
	}
	return out
}

func c18Bases(rng *rand.Rand) []string {
	r := make([]byte, 10)
	for i := range r {
		r[i] = byte(rng.Intn(256))
	}
	return []string{strings.Repeat("\x00", 10), strings.Repeat("\xff", 10), string(r)}
}

func c18BitfieldCases(rng *rand.Rand, slice, of int) []c18Case {
	var out []c18Case
	n := 0
	bases := c18Bases(rng)
	for _, signed := range []bool{true, false} {
		maxBits := 64
		if !signed {
			maxBits = 63
		}
		for bits := 1; bits <= maxBits; bits++ {
			typ := "u"
			if signed {
				typ = "i"
			}
			typ += strconv.Itoa(bits)
			for _, off := range []int{0, 1, 2, 3, 4, 5, 6, 7, 8, 13, 16} {
				n++
				if n%of != slice {
					continue
				}
				for bi, base := range bases {
					vals := bfValues(signed, bits, rng)
					ov := []string{"", "WRAP", "SAT", "FAIL"}
					offs := strconv.Itoa(off)
					setup := [][]string{{"SET", "b0", base}}
					out = append(out, c18Case{setup, []string{"BITFIELD", "b0", "GET", typ, offs}, "bitfield-get"})
					if off < 2 {
						out = append(out, c18Case{setup, []string{"BITFIELD_RO", "b0", "GET", typ, "#" + offs}, "bitfield-ro-get#"})
					}
					for vi, v := range vals {
						o := ov[(vi+bi+off)%4]
						set := []string{"BITFIELD", "b0"}
						inc := []string{"BITFIELD", "b0"}
						if o != "" {
							set = append(set, "OVERFLOW", o)
							inc = append(inc, "OVERFLOW", o)
						}
						set = append(set, "SET", typ, offs, v, "GET", typ, offs)
						inc = append(inc, "INCRBY", typ, offs, v, "GET", typ, offs)
						out = append(out, c18Case{setup, set, "bitfield-set"}, c18Case{setup, inc, "bitfield-incrby"})
					}
				}
			}
		}
	}
	return out
}

func c18RangeCases(slice, of int) []c18Case {
	var out []c18Case
	alpha := []string{"\x00", "\xff", "\x80", "\x01", "\x5a"}
	var strs []string
	strs = append(strs, "")
	for _, a := range alpha {
		strs = append(strs, a)
		for _, b := range alpha {
			strs = append(strs, a+b)
		}
	}
	strs = append(strs, "\x00\xff\xf0", "\xff\xf0\x00", "\xff\xff\xff", "\x00\x00\x00", "\x00\x01\x80", "")
	n := 0
	for si, s := range strs {
		var setup [][]string
		if si == 0 {
			setup = [][]string{{"DEL", "b0"}} // missing key
		} else {
			setup = [][]string{{"SET", "b0", s}} // (the last entry is an existing key holding the empty string)
		}
		L := len(s)
		for _, unit := range []string{"", "BYTE", "BIT"} {
			u := 1
			if unit == "BIT" {
				u = 8
			}
			lo, hi := -L*u-2, L*u+2
			for st := lo; st <= hi; st++ {
				for en := lo; en <= hi; en++ {
					n++
					if n%of != slice {
						continue
					}
					a := []string{"BITCOUNT", "b0", strconv.Itoa(st), strconv.Itoa(en)}
					if unit != "" {
						a = append(a, unit)
					}
					out = append(out, c18Case{setup, a, "bitcount-range"})
					for _, bit := range []string{"0", "1"} {
						b := []string{"BITPOS", "b0", bit, strconv.Itoa(st), strconv.Itoa(en)}
						if unit != "" {
							b = append(b, unit)
						}
						out = append(out, c18Case{setup, b, "bitpos-range"})
					}
				}
				if slice == 0 && unit == "" {
					out = append(out, c18Case{setup, []string{"BITPOS", "b0", "0", strconv.Itoa(st)}, "bitpos-start-only"}, c18Case{setup, []string{"BITPOS", "b0", "1", strconv.Itoa(st)}, "bitpos-start-only"})
				}
			}
		}
		if slice == 0 {
			out = append(out, c18Case{setup, []string{"BITCOUNT", "b0"}, "bitcount"}, c18Case{setup, []string{"BITPOS", "b0", "0"}, "bitpos"}, c18Case{setup, []string{"BITPOS", "b0", "1"}, "bitpos"},
				c18Case{setup, []string{"BITPOS", "b0", "2"}, "bitpos-badbit"}, c18Case{setup, []string{"BITCOUNT", "b0", "0"}, "bitcount-start-only"})
		}
	}
	return out
}

func c18MiscCases(rng *rand.Rand) []c18Case {
	var out []c18Case
	for _, base := range []string{"", "\x00", "\xa5\x5a", "\xff\xff\xff\xff\xff"} {
		setup := [][]string{{"SET", "b0", base}}
		if base == "" {
			setup = [][]string{{"DEL", "b0"}}
		}
		for off := 0; off <= 40; off++ {
			out = append(out, c18Case{setup, []string{"GETBIT", "b0", strconv.Itoa(off)}, "getbit"})
			for _, v := range []string{"0", "1"} {
				out = append(out, c18Case{setup, []string{"SETBIT", "b0", strconv.Itoa(off), v}, "setbit"})
			}
		}
		for _, off := range []string{"-1", "4294967296", "4294967295", "2147483648", "x", "9223372036854775807"} {
			out = append(out, c18Case{setup, []string{"GETBIT", "b0", off}, "getbit-extreme"})
			if off != "4294967295" && off != "2147483648" { // would allocate 256-512 MiB strings
				out = append(out, c18Case{setup, []string{"SETBIT", "b0", off, "1"}, "setbit-extreme"})
			}
		}
		out = append(out, c18Case{setup, []string{"SETBIT", "b0", "3", "2"}, "setbit-badvalue"}, c18Case{setup, []string{"SETBIT", "b0", "3", "-1"}, "setbit-badvalue"})
	}
	// BITOP
	srcVals := []string{"", "\x0f", "\xf0\x0f", "\xaa\x55\xff", "\x01\x02\x03\x04\x05"}
	for i := 0; i < 400; i++ {
		var setup [][]string
		keys := []string{"b0", "b1", "b2", "b3"}
		for _, k := range keys {
			v := srcVals[rng.Intn(len(srcVals))]
			if v == "" || rng.Intn(5) == 0 {
				setup = append(setup, []string{"DEL", k})
			} else {
				setup = append(setup, []string{"SET", k, v})
			}
		}
		if rng.Intn(8) == 0 {
			setup = append(setup, []string{"DEL", "b3"}, []string{"RPUSH", "b3", "x"}) // wrong-typed source
		}
		op := []string{"AND", "OR", "XOR", "NOT"}[rng.Intn(4)]
		n := 1 + rng.Intn(4)
		if op == "NOT" && rng.Intn(6) > 0 {
			n = 1
		}
		dest := []string{"bd", "b0", "b1", "b3"}[rng.Intn(4)] // destination among the sources sometimes
		a := []string{"BITOP", randCase(rng, op), dest}
		for j := 0; j < n; j++ {
			a = append(a, keys[rng.Intn(len(keys))])
		}
		out = append(out, c18Case{setup, a, "bitop-" + strings.ToLower(op)})
	}
	// random multi-operation BITFIELD commands on longer strings
	for i := 0; i < 600; i++ {
		b := make([]byte, 1+rng.Intn(64))
		for j := range b {
			b[j] = byte(rng.Intn(256))
		}
		setup := [][]string{{"SET", "b0", string(b)}}
		a := []string{"BITFIELD", "b0"}
		for j := 0; j < 1+rng.Intn(5); j++ {
			signed := rng.Intn(2) == 0
			bits := 1 + rng.Intn(63)
			typ := "u"
			if signed {
				typ = "i"
				bits = 1 + rng.Intn(64)
			}
			typ += strconv.Itoa(bits)
			off := strconv.Itoa(rng.Intn(len(b)*8 + 16))
			if rng.Intn(4) == 0 {
				off = "#" + strconv.Itoa(rng.Intn(8))
			}
			vals := bfValues(signed, bits, rng)
			switch rng.Intn(4) {
			case 0:
				a = append(a, "GET", typ, off)
			case 1:
				a = append(a, "SET", typ, off, vals[rng.Intn(len(vals))])
			case 2:
				a = append(a, "INCRBY", typ, off, vals[rng.Intn(len(vals))])
			case 3:
				a = append(a, randCase(rng, "OVERFLOW"), randCase(rng, []string{"WRAP", "SAT", "FAIL"}[rng.Intn(3)]))
			}
		}
		out = append(out, c18Case{setup, a, "bitfield-multi"})
	}
	// BITCOUNT / BITPOS over longer strings (word-at-a-time loops have their boundaries at 8, 16, 24 ... bytes)
	for _, L := range []int{7, 8, 9, 10, 15, 16, 17, 18, 24, 25, 26, 33, 64, 65} {
		for variant := 0; variant < 3; variant++ {
			b := make([]byte, L)
			for j := range b {
				switch variant {
				case 0:
					b[j] = 0xff
				case 1:
					b[j] = byte(rng.Intn(256))
				case 2:
					b[j] = []byte{0x00, 0xff, 0x80, 0x01}[rng.Intn(4)]
				}
			}
			setup := [][]string{{"SET", "b0", string(b)}}
			out = append(out, c18Case{setup, []string{"BITCOUNT", "b0"}, "bitcount-long"}, c18Case{setup, []string{"BITCOUNT", "b0", "0", "-1", "BIT"}, "bitcount-long"}, c18Case{setup, []string{"BITPOS", "b0", "0"}, "bitpos-long"})
			for k := 0; k < 14; k++ {
				unit, u := "BIT", 8
				if k%3 == 0 {
					unit, u = "BYTE", 1
				}
				st, en := rng.Intn(L*u+4)-2, rng.Intn(L*u+4)-2
				if k%4 == 1 {
					st, en = -rng.Intn(L*u+2), -1-rng.Intn(3)
				}
				if k%5 == 2 {
					st, en = rng.Intn(8), L*u-1-rng.Intn(8) // nearly the whole string
				}
				out = append(out, c18Case{setup, []string{"BITCOUNT", "b0", strconv.Itoa(st), strconv.Itoa(en), unit}, "bitcount-long"},
					c18Case{setup, []string{"BITPOS", "b0", strconv.Itoa(k % 2), strconv.Itoa(st), strconv.Itoa(en), unit}, "bitpos-long"})
			}
		}
	}
	// several OVERFLOW directives in one command: each applies to the operations after it, also when it switches back to WRAP
	for _, m1 := range []string{"WRAP", "SAT", "FAIL"} {
		for _, m2 := range []string{"WRAP", "SAT", "FAIL"} {
			for _, typ := range []string{"u8", "i8", "u4", "i16"} {
				for _, base := range []string{"\x00\x00\x00", "\xf0\x7f\x80"} {
					setup := [][]string{{"SET", "b0", base}}
					out = append(out,
						c18Case{setup, []string{"BITFIELD", "b0", "OVERFLOW", m1, "INCRBY", typ, "0", "200", "OVERFLOW", m2, "INCRBY", typ, "0", "100", "GET", typ, "0"}, "bitfield-overflow-pairs"},
						c18Case{setup, []string{"BITFIELD", "b0", "OVERFLOW", m1, "SET", typ, "8", "70000", "OVERFLOW", m2, "INCRBY", typ, "8", "-300", "INCRBY", typ, "8", "32000"}, "bitfield-overflow-pairs"},
						c18Case{setup, []string{"BITFIELD", "b0", "INCRBY", typ, "0", "250", "OVERFLOW", m1, "INCRBY", typ, "0", "250", "OVERFLOW", m2, "OVERFLOW", m1, "INCRBY", typ, "0", "-129"}, "bitfield-overflow-pairs"})
				}
			}
		}
	}
	// invalid BITFIELD forms
	for _, a := range [][]string{{"BITFIELD", "b0", "GET", "u64", "0"}, {"BITFIELD", "b0", "GET", "i65", "0"}, {"BITFIELD", "b0", "GET", "u0", "0"}, {"BITFIELD", "b0", "GET", "x8", "0"},
		{"BITFIELD", "b0", "GET", "u8", "-1"}, {"BITFIELD", "b0", "GET", "u8"}, {"BITFIELD", "b0", "SET", "u8", "0"}, {"BITFIELD", "b0", "OVERFLOW", "BOGUS"}, {"BITFIELD", "b0", "OVERFLOW"},
		{"BITFIELD_RO", "b0", "SET", "u8", "0", "1"}, {"BITFIELD_RO", "b0", "INCRBY", "u8", "0", "1"}, {"BITFIELD", "b0"}, {"BITFIELD", "b0", "GET", "u8", "4294967289"}, {"BITFIELD", "b0", "GET", "u8", "#536870912"},
		{"BITFIELD", "b0", "SET", "u8", "0", "abc"}, {"BITFIELD", "b0", "INCRBY", "u8", "0", "1.5"}, {"BITFIELD", "b0", "FOO", "u8", "0"}} {
		out = append(out, c18Case{[][]string{{"SET", "b0", "ab"}}, a, "bitfield-invalid"})
	}
	return out
}

func checkC18(r *verdict.Run) {
	r.Rule = "bitmap commands vs a bit-array model: BITFIELD/BITFIELD_RO GET/SET/INCRBY for every type i1..i64/u1..u63 x bit offsets 0-8,13,16 x boundary values x OVERFLOW modes x 3 base strings; BITCOUNT/BITPOS for all (start,end) in [-L*u-2, L*u+2]^2 in default/BYTE/BIT units over strings of length <= 3 and the missing key; " +
		"SETBIT/GETBIT at offsets 0..40 and extremes; BITOP over 1-4 operands incl. missing, wrong-typed and destination among sources; random multi-operation BITFIELD; random sequences over five keys mixing in-place and extending bit writes, BITOP with 1-3 sources, COPY/RENAME/SET/APPEND/SETRANGE/GETSET/MSET and the reads, every key re-read after every step (a write must not reach a key it does not address). After every command the string is re-read (writes touch only the addressed bits, reads change nothing). " +
		"quick runs a seeded 1/8 slice of the two big tables, thorough all of it. distinct = (table, command+options, outcome class)"
	of := 8
	if r.Tier == "thorough" {
		of = 1
	}
	rng0 := shardRng(r, 0)
	slice := int(r.Seed) % of
	var cases []c18Case
	cases = append(cases, c18BitfieldCases(rng0, slice, of)...)
	cases = append(cases, c18RangeCases(slice, of)...)
	cases = append(cases, c18MiscCases(rng0)...)
	r.Set("cases", len(cases))
	r.Set("table_slice", fmt.Sprintf("%d of %d", slice, of))
	if of == 1 {
		r.SetExhaustive(true)
	}
	rng0.Shuffle(len(cases), func(i, j int) { cases[i], cases[j] = cases[j], cases[i] })
	for i := 0; i < 5; i++ {
		r.Sample(map[string]any{"setup": quoteCmds(cases[i].setup), "op": cmdString(cases[i].op)})
	}
	nsh := 16
	universe := []string{"b0", "b1", "b2", "b3", "bd"}
	defer runDiffSequencesN(r, tierPick(r, 200, 4000), 25, 20000, func(rng *rand.Rand) int { return 40 + rng.Intn(60) }, universe,
		[][]string{{"SET", "b0", "\xa5\x5a\x0f"}, {"SET", "b1", "\xff\x00"}, {"SET", "b2", "hello world"}}, c18SeqGen)
	parallel(nsh, 16, func(shard int) {
		c, err := startChild(false)
		if err != nil {
			r.Inconclusive("cannot start child")
			return
		}
		defer func() { c.Stop() }()
		var d *diffEnv
		fresh := func() bool {
			if d != nil {
				d.close()
			}
			if !c.Alive() {
				c.Stop()
				if c, err = startChild(false); err != nil {
					return false
				}
			}
			d, err = newDiffEnv(r, c, universe)
			if err != nil {
				r.Inconclusive("infra: " + err.Error())
				return false
			}
			d.monitor = "bits"
			return true
		}
		if !fresh() {
			return
		}
		for i := shard; i < len(cases); i += nsh {
			cs := cases[i]
			ok := true
			for _, s := range cs.setup {
				if _, ok = d.step(s); !ok {
					break
				}
			}
			if ok {
				var got = model.Nil()
				got, ok = d.step(cs.op)
				r.Eval(1)
				r.Distinct(cs.tag + "/" + cmdTag(cs.op) + "/" + model.Class(got))
			}
			if !ok || d.steps > 3000 {
				if !fresh() {
					return
				}
			}
		}
		if d != nil {
			d.close()
		}
	})
}

// c18SeqGen: sequences over five keys in which bitmap writes (in place or extending), BITOP with one to three
// sources, COPY/RENAME/SET/APPEND/SETRANGE/GETSET and the bitmap reads alternate. Every key is re-read after every
// step, so a write that reaches a key it does not address (two keys sharing storage after BITOP/COPY/GETRANGE, a
// stale buffer) shows as a change of the other key.
func c18SeqGen(rng *rand.Rand, m *model.Model, keys []string) []string {
	k := pick(rng, keys)
	k2 := pick(rng, keys)
	n := modelLen(m, 0, k) // length of the string in bytes (0 when missing)
	inBits := func() string {
		if n == 0 || rng.Intn(5) == 0 {
			return strconv.Itoa(rng.Intn(n*8 + 24)) // may extend
		}
		return strconv.Itoa(rng.Intn(n * 8)) // stays inside the current length
	}
	switch x := rng.Intn(40); {
	case x < 7:
		return []string{"SETBIT", k, inBits(), strconv.Itoa(rng.Intn(2))}
	case x < 11:
		bits := 1 + rng.Intn(16)
		return []string{"BITFIELD", k, "SET", "u" + strconv.Itoa(bits), inBits(), strconv.Itoa(rng.Intn(1 << uint(bits)))}
	case x < 14:
		return []string{"BITFIELD", k, "OVERFLOW", pick(rng, []string{"WRAP", "SAT", "FAIL"}), "INCRBY", "i8", inBits(), strconv.Itoa(rng.Intn(300) - 150)}
	case x < 20:
		op := pick(rng, []string{"AND", "OR", "XOR", "NOT"})
		a := []string{"BITOP", op, k}
		ns := 1
		if op != "NOT" && rng.Intn(2) == 0 {
			ns = 2 + rng.Intn(2)
		}
		for i := 0; i < ns; i++ {
			a = append(a, pick(rng, keys))
		}
		return a
	case x < 23:
		b := make([]byte, 1+rng.Intn(6))
		for i := range b {
			b[i] = byte(rng.Intn(256))
		}
		return []string{"SET", k, string(b)}
	case x < 25:
		return []string{"COPY", k, k2, "REPLACE"}
	case x < 26:
		return []string{"RENAME", k, k2}
	case x < 27:
		return []string{"APPEND", k, pick(rng, []string{"\x00", "\xff", "ab"})}
	case x < 29:
		return []string{"SETRANGE", k, strconv.Itoa(rng.Intn(n + 2)), pick(rng, []string{"\x0f", "Z", "\xf0\x0f"})}
	case x < 30:
		return []string{"GETSET", k, "\xaa\x55"}
	case x < 31:
		return []string{"GETRANGE", k, "0", "-1"}
	case x < 32:
		return []string{"MSET", k, "\x81", k2, "\x18\x18"}
	case x < 34:
		return []string{"GETBIT", k, inBits()}
	case x < 36:
		return []string{"BITCOUNT", k}
	case x < 37:
		return []string{"BITPOS", k, strconv.Itoa(rng.Intn(2))}
	case x < 38:
		return []string{"BITFIELD_RO", k, "GET", "u8", inBits()}
	case x < 39:
		return []string{"DEL", k}
	}
	return []string{"GET", k}
}

func quoteCmds(cmds [][]string) []string {
	out := []string{}
	for _, c := range cmds {
		out = append(out, cmdString(c))
	}
	return out
}
