package main

import (
	"math/rand"
	"strconv"
	"strings"

	"verif/harness/model"
)

var boundaryInts = []string{"0", "1", "-1", "2", "-2", "5", "-5", "10", "100", "2147483647", "2147483648", "4294967295", "4294967296", "9223372036854775807", "-9223372036854775808", "9223372036854775806", "-9223372036854775807"}
var nearInts = []string{" 1", "1 ", "+1", "01", "1.0", "0x10", "", "abc", "1e3", "-", "--1", "9223372036854775808", "-9223372036854775809", "１"}
var floatArgs = []string{"1.5", "-0.25", "3e3", "0.5", "10", "-10", "0", "2.5e-1", "1e400", "inf", "nan", "abc", "", " 1", "1e2",
	// results of a million and more / a ten-thousandth and less: where %g-style formatting switches to an exponent
	"1e6", "1234567.5", "-2500000", "0.00001", "-0.00002", "1e15", "123456789012", "0.000125"}

func pick(rng *rand.Rand, pool []string) string { return pool[rng.Intn(len(pool))] }

func randCase(rng *rand.Rand, s string) string {
	switch rng.Intn(3) {
	case 0:
		return strings.ToLower(s)
	case 1:
		return s
	}
	b := []byte(strings.ToLower(s))
	for i := range b {
		if rng.Intn(2) == 0 && b[i] >= 'a' && b[i] <= 'z' {
			b[i] -= 32
		}
	}
	return string(b)
}

// offsetsAround returns offsets in [-n-2, n+2] plus extremes.
func offsetAround(rng *rand.Rand, n int) string {
	if rng.Intn(8) == 0 {
		return pick(rng, []string{"2147483647", "-2147483648", "9223372036854775807", "-9223372036854775808", "4294967296"})
	}
	return strconv.Itoa(rng.Intn(2*n+5) - n - 2)
}

func modelLen(m *model.Model, db int, key string) int {
	o := m.DB[db][key]
	if o == nil {
		return 0
	}
	switch o.T {
	case model.TString:
		return len(o.S)
	case model.TList:
		return len(o.L)
	case model.THash:
		return len(o.H)
	case model.TSet:
		return len(o.Set)
	}
	return 0
}

// seedOtherTypes creates one key of each non-string type, an expiring key and leaves "km" missing.
func seedCommands() [][]string {
	return [][]string{
		{"RPUSH", "kl", "a", "b", "c"},
		{"HSET", "kh", "f1", "v1", "f2", "2"},
		{"SADD", "kset", "a", "b", "3"},
		{"SET", "ke", "soon", "EX", "100"},
	}
}
