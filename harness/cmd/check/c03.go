package main

import (
	"math/rand"
	"strconv"

	"verif/harness/model"
	"verif/harness/verdict"
)

func init() { register("C03", "exploration", checkC03) }

var c03Elems = []string{"a", "b", "c", "a", "b", "x", "", "1", "a\r\nb", "\xc3\xa9", "\xff", "\xfe"}

func c03Gen(rng *rand.Rand, m *model.Model, keys []string) []string {
	lists := []string{"l0", "l1", "l2"}
	k := pick(rng, lists)
	if rng.Intn(7) == 0 {
		k = pick(rng, keys) // wrong-typed or missing sometimes
	}
	n := modelLen(m, 0, k)
	if rng.Intn(30) == 0 {
		// the key's deadline has passed but its object is still stored: every command must treat it as missing
		return []string{pick(rng, []string{"PEXPIREAT", "EXPIREAT"}), k, "1"}
	}
	if rng.Intn(40) == 0 {
		// wide commands: 65-200 arguments (loops that work in batches have their boundaries there)
		w := 65 + rng.Intn(136)
		switch rng.Intn(4) {
		case 0, 1:
			a := []string{pick(rng, []string{"RPUSH", "LPUSH"}), k}
			for i := 0; i < w; i++ {
				a = append(a, "w"+strconv.Itoa(i%7))
			}
			return a
		case 2:
			return []string{pick(rng, []string{"LPOP", "RPOP"}), k, strconv.Itoa(w)}
		}
		a := []string{"LMPOP", "3", "l0", "l1", "l2", pick(rng, []string{"LEFT", "RIGHT"}), "COUNT", strconv.Itoa(w)}
		return a
	}
	if rng.Intn(25) == 0 {
		// whole-list copies and moves: afterwards the two keys must be independent objects
		k2 := pick(rng, lists)
		switch rng.Intn(3) {
		case 0:
			return []string{"COPY", k, k2, "REPLACE"}
		case 1:
			return []string{"COPY", k, k2}
		}
		return []string{"RENAME", k, k2}
	}
	el := func() string { return pick(rng, c03Elems) }
	idx := func() string {
		if rng.Intn(10) == 0 {
			return pick(rng, []string{"9223372036854775807", "-9223372036854775808", "2147483648", "abc", "", "1.5", "+1"})
		}
		return strconv.Itoa(rng.Intn(2*n+5) - n - 2)
	}
	cnt := func() string {
		return pick(rng, []string{"0", "1", "2", strconv.Itoa(n), strconv.Itoa(n + 1), "-1", strconv.Itoa(-n), "2147483648", "-2147483648", "9223372036854775807", "x"})
	}
	where := func() string { return randCase(rng, pick(rng, []string{"LEFT", "RIGHT"})) }
	switch rng.Intn(32) {
	case 0, 1, 2:
		a := []string{pick(rng, []string{"RPUSH", "LPUSH"}), k}
		for i := 0; i < 1+rng.Intn(3); i++ {
			a = append(a, el())
		}
		return a
	case 3:
		return []string{pick(rng, []string{"RPUSHX", "LPUSHX"}), k, el(), el()}
	case 4, 5:
		return []string{pick(rng, []string{"LPOP", "RPOP"}), k}
	case 6, 7:
		return []string{pick(rng, []string{"LPOP", "RPOP"}), k, cnt()}
	case 8:
		return []string{"LLEN", k}
	case 9, 10:
		return []string{"LINDEX", k, idx()}
	case 11, 12:
		return []string{"LRANGE", k, idx(), idx()}
	case 13, 14:
		return []string{"LSET", k, idx(), el()}
	case 15, 16:
		return []string{"LINSERT", k, randCase(rng, pick(rng, []string{"BEFORE", "AFTER", "BEFORE", "AFTER", "MIDDLE"})), el(), "ins" + strconv.Itoa(rng.Intn(3))}
	case 17, 18:
		return []string{"LREM", k, cnt(), el()}
	case 19, 20:
		return []string{"LTRIM", k, idx(), idx()}
	case 21, 22, 23:
		a := []string{"LPOS", k, el()}
		var opts [][]string
		if rng.Intn(2) == 0 {
			r := rng.Intn(2*n+3) - n - 1
			opts = append(opts, []string{"RANK", strconv.Itoa(r)})
		}
		if rng.Intn(2) == 0 {
			opts = append(opts, []string{"COUNT", pick(rng, []string{"0", "1", "2", strconv.Itoa(n + 1), "-1"})})
		}
		if rng.Intn(2) == 0 {
			// (windows shorter than the list matter together with a negative RANK: the window is then at the tail)
			opts = append(opts, []string{"MAXLEN", pick(rng, []string{"0", "1", strconv.Itoa(n), "2", "3", strconv.Itoa(n - 1), strconv.Itoa(n - 2), strconv.Itoa(n/2 + 1), "-1"})})
		}
		rng.Shuffle(len(opts), func(i, j int) { opts[i], opts[j] = opts[j], opts[i] })
		for _, o := range opts {
			a = append(a, randCase(rng, o[0]), o[1])
		}
		return a
	case 24, 25, 26:
		dst := pick(rng, lists)
		if rng.Intn(3) == 0 {
			dst = k // source = destination
		}
		if rng.Intn(10) == 0 {
			dst = pick(rng, keys)
		}
		if rng.Intn(4) == 0 {
			return []string{"RPOPLPUSH", k, dst}
		}
		return []string{"LMOVE", k, dst, where(), where()}
	case 27, 28:
		nk := 1 + rng.Intn(3)
		a := []string{"LMPOP", strconv.Itoa(nk)}
		if rng.Intn(12) == 0 {
			a[1] = pick(rng, []string{"0", "-1", "5", "x"})
		}
		for i := 0; i < nk; i++ {
			if rng.Intn(5) == 0 {
				a = append(a, pick(rng, keys))
			} else {
				a = append(a, pick(rng, lists))
			}
		}
		a = append(a, where())
		if rng.Intn(2) == 0 {
			a = append(a, randCase(rng, "COUNT"), pick(rng, []string{"1", "2", "10", "0", "-1", "9223372036854775807"}))
		}
		return a
	case 29:
		return []string{"DEL", k}
	case 30:
		return []string{"EXPIRE", k, "100"}
	case 31:
		return []string{"BLPOP", k, pick(rng, lists), "0.01"}
	}
	return []string{"LLEN", k}
}

func checkC03(r *verdict.Run) {
	r.Rule = "random sequences of list commands over 3 list keys (lengths 0-8 with duplicates) + wrong-typed + missing keys; indexes/counts/ranks in [-len-2, len+2] and extremes, source = destination for LMOVE/RPOPLPUSH, LMPOP over 1-3 keys, LPOS with RANK/COUNT/MAXLEN in any order; " +
		"plus a complete sweep of LPOS element x RANK -4..4 x MAXLEN 0..8 x COUNT {none, 0, 2} on a seven-element list with repeats; oracle per step: reply = reference model reply, full observable state = model state (element order, key disappears exactly when empty), failed commands inert. distinct = (command+options, prior key class, outcome class)"
	runDiffSequences(r, tierPick(r, 300, 6000), func(rng *rand.Rand) int { return 30 + rng.Intn(50) },
		[]string{"l0", "l1", "l2", "ws", "wh", "wt", "km"}, [][]string{{"SET", "ws", "str"}, {"HSET", "wh", "f", "v"}, {"SADD", "wt", "a", "b"}, {"RPUSH", "l0", "a", "b", "c", "a"}}, c03Gen)
	c03LposSweep(r)
}

// c03LposSweep: LPOS has three options that interact (RANK picks the direction and the n-th match, MAXLEN limits the
// comparisons from that end, COUNT the number of results): every combination over a list with repeated elements.
func c03LposSweep(r *verdict.Run) {
	c, err := startChild(false)
	if err != nil {
		r.Inconclusive("cannot start child")
		return
	}
	defer c.Stop()
	d, err := newDiffEnv(r, c, []string{"lp"})
	if err != nil {
		r.Inconclusive("infra: " + err.Error())
		return
	}
	defer d.close()
	d.monitor = "lpos"
	if _, ok := d.step([]string{"RPUSH", "lp", "a", "b", "c", "a", "b", "c", "a"}); !ok {
		return
	}
	d.noState = true
	for _, el := range []string{"a", "b", "c", "z"} {
		for rank := -4; rank <= 4; rank++ {
			for maxlen := -1; maxlen <= 8; maxlen++ {
				for _, count := range []string{"", "0", "2"} {
					args := []string{"LPOS", "lp", el}
					if rank != 0 || maxlen == 3 {
						args = append(args, "RANK", strconv.Itoa(rank))
					}
					if maxlen >= 0 {
						args = append(args, "MAXLEN", strconv.Itoa(maxlen))
					}
					if count != "" {
						args = append(args, "COUNT", count)
					}
					if _, ok := d.step(args); !ok {
						return
					}
					r.Eval(1)
				}
			}
		}
	}
	r.Distinct("lpos-sweep")
}
