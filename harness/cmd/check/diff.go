package main

import (
	"encoding/binary"
	"fmt"
	"math/bits"
	"sort"
	"strconv"
	"strings"
	"time"

	"verif/harness/host"
	"verif/harness/model"
	"verif/harness/resp"
	"verif/harness/verdict"
	"verif/harness/wire"
)

// keyDump is the observable state of one key of the SUT.
type keyDump struct {
	Type string
	Str  string
	List []string
	Hash map[string]string
	Set  map[string]bool
	PTTL int64
	Len  int64 // LLEN/HLEN/SCARD as reported
}

type dbDump struct {
	T0, T1 int64 // the dump was taken in this window (Unix ms)
	Keys   map[string]*keyDump
	Listed map[string]bool // KEYS *
	DBSize int64
	Err    string
}

// dumpDB reads the observable state of the keys in `universe` plus every key
// reported by KEYS * through conn (which must have the right db selected).
func dumpDB(cn *wire.Conn, universe []string) *dbDump {
	d := &dbDump{Keys: map[string]*keyDump{}, Listed: map[string]bool{}, T0: time.Now().UnixMilli()}
	defer func() { d.T1 = time.Now().UnixMilli() }()
	vs, err := cn.Pipeline([][]string{{"KEYS", "*"}, {"DBSIZE"}})
	if err != nil {
		d.Err = "dump: " + err.Error()
		return d
	}
	if vs[0].Kind == '*' {
		for _, e := range vs[0].Elems {
			d.Listed[e.Text()] = true
		}
	}
	d.DBSize = vs[1].Int
	keys := append([]string{}, universe...)
	seen := map[string]bool{}
	for _, k := range universe {
		seen[k] = true
	}
	for k := range d.Listed {
		if !seen[k] {
			keys = append(keys, k)
			seen[k] = true
		}
	}
	sort.Strings(keys)
	var cmds [][]string
	for _, k := range keys {
		cmds = append(cmds, []string{"TYPE", k}, []string{"PTTL", k}, []string{"EXISTS", k})
	}
	vs, err = cn.Pipeline(cmds)
	if err != nil {
		d.Err = "dump: " + err.Error()
		return d
	}
	cmds = nil
	var order []string
	for i, k := range keys {
		kd := &keyDump{Type: vs[3*i].Text(), PTTL: vs[3*i+1].Int}
		if vs[3*i+2].Int == 1 && kd.Type == "none" {
			kd.Type = "exists-but-type-none"
		}
		if vs[3*i+2].Int == 0 && kd.Type != "none" {
			kd.Type = kd.Type + "-but-exists-0"
		}
		d.Keys[k] = kd
		switch kd.Type {
		case "string":
			cmds = append(cmds, []string{"GET", k}, []string{"STRLEN", k})
		case "list":
			cmds = append(cmds, []string{"LRANGE", k, "0", "-1"}, []string{"LLEN", k})
		case "hash":
			cmds = append(cmds, []string{"HGETALL", k}, []string{"HLEN", k})
		case "set":
			cmds = append(cmds, []string{"SMEMBERS", k}, []string{"SCARD", k})
		default:
			continue
		}
		order = append(order, k)
	}
	if len(cmds) == 0 {
		return d
	}
	vs, err = cn.Pipeline(cmds)
	if err != nil {
		d.Err = "dump: " + err.Error()
		return d
	}
	for i, k := range order {
		kd := d.Keys[k]
		v := model.Down(vs[2*i])
		kd.Len = vs[2*i+1].Int
		switch kd.Type {
		case "string":
			kd.Str = v.Text()
			if v.Null || !v.IsString() {
				kd.Type = "string-unreadable:" + v.String()
			}
		case "list":
			kd.List = []string{}
			for _, e := range v.Elems {
				kd.List = append(kd.List, e.Text())
			}
		case "hash":
			kd.Hash = map[string]string{}
			for j := 0; j+1 < len(v.Elems); j += 2 {
				kd.Hash[v.Elems[j].Text()] = v.Elems[j+1].Text()
			}
			if len(v.Elems)%2 != 0 || len(kd.Hash)*2 != len(v.Elems) {
				kd.Type = "hash-inconsistent:" + v.String()
			}
		case "set":
			kd.Set = map[string]bool{}
			for _, e := range v.Elems {
				kd.Set[e.Text()] = true
			}
			if len(kd.Set) != len(v.Elems) {
				kd.Type = "set-duplicates:" + v.String()
			}
		}
	}
	return d
}

func (k *keyDump) String() string {
	if k == nil {
		return "<not dumped>"
	}
	ttl := ""
	if k.PTTL != -1 {
		ttl = fmt.Sprintf(" pttl=%d", k.PTTL)
	}
	switch k.Type {
	case "none":
		return "none"
	case "string":
		return fmt.Sprintf("string %s%s", strconv.Quote(trunc(k.Str, 120)), ttl)
	case "list":
		return fmt.Sprintf("list %s len=%d%s", trunc(fmt.Sprintf("%q", k.List), 200), k.Len, ttl)
	case "hash":
		return fmt.Sprintf("hash %s len=%d%s", trunc(fmt.Sprintf("%q", sortedMap(k.Hash)), 200), k.Len, ttl)
	case "set":
		ms := []string{}
		for m := range k.Set {
			ms = append(ms, m)
		}
		sort.Strings(ms)
		return fmt.Sprintf("set %s card=%d%s", trunc(fmt.Sprintf("%q", ms), 200), k.Len, ttl)
	}
	return k.Type + ttl
}

func sortedMap(m map[string]string) []string {
	out := []string{}
	for k, v := range m {
		out = append(out, k+"="+v)
	}
	sort.Strings(out)
	return out
}

func trunc(s string, n int) string {
	if len(s) > n {
		return s[:n] + fmt.Sprintf("...(%d)", len(s))
	}
	return s
}

func objString(o *model.Obj, now int64) string {
	if o == nil {
		return "none"
	}
	ttl := ""
	if o.Deadline != 0 {
		ttl = fmt.Sprintf(" pttl~%d..%d", o.Deadline-now, o.DeadlineHi-now)
	}
	switch o.T {
	case model.TString:
		return fmt.Sprintf("string %s%s", strconv.Quote(trunc(string(o.S), 120)), ttl)
	case model.TList:
		l := []string{}
		for _, e := range o.L {
			l = append(l, string(e))
		}
		return fmt.Sprintf("list %s len=%d%s", trunc(fmt.Sprintf("%q", l), 200), len(l), ttl)
	case model.THash:
		return fmt.Sprintf("hash %s len=%d%s", trunc(fmt.Sprintf("%q", sortedMap(o.H)), 200), len(o.H), ttl)
	case model.TSet:
		ms := []string{}
		for m := range o.Set {
			ms = append(ms, m)
		}
		sort.Strings(ms)
		return fmt.Sprintf("set %s card=%d%s", trunc(fmt.Sprintf("%q", ms), 200), len(ms), ttl)
	}
	return "?"
}

// compareKey returns "" or a divergence class between the model object and the SUT dump
// taken during [d0, d1] (Unix ms).
func compareKey(o *model.Obj, k *keyDump, d0, d1 int64, floatOK bool) string {
	if k == nil {
		return ""
	}
	if o == nil {
		if k.Type == "none" {
			return ""
		}
		if (k.Type == "list" && len(k.List) == 0) || (k.Type == "hash" && len(k.Hash) == 0) || (k.Type == "set" && len(k.Set) == 0) {
			return "empty-aggregate-left-behind"
		}
		return "exists-should-not"
	}
	if k.Type == "none" {
		return "missing-should-exist"
	}
	if k.Type != o.T.String() {
		if strings.Contains(k.Type, "-") || strings.Contains(k.Type, ":") {
			return "inconsistent-dump"
		}
		return "type"
	}
	switch o.T {
	case model.TString:
		if k.Str != string(o.S) {
			if floatOK {
				a, e1 := strconv.ParseFloat(k.Str, 64)
				b, e2 := strconv.ParseFloat(string(o.S), 64)
				if e1 == nil && e2 == nil && a == b && model.HumanFloat(k.Str) {
					o.S = []byte(k.Str)
					break
				}
			}
			return "value"
		}
		if k.Len != int64(len(k.Str)) {
			return "strlen-disagrees"
		}
	case model.TList:
		if len(k.List) != len(o.L) {
			return "value"
		}
		for i := range k.List {
			if k.List[i] != string(o.L[i]) {
				return "value"
			}
		}
		if k.Len != int64(len(k.List)) {
			return "llen-disagrees"
		}
	case model.THash:
		if len(k.Hash) != len(o.H) {
			return "value"
		}
		for f, v := range o.H {
			sv, ok := k.Hash[f]
			if !ok {
				return "value"
			}
			if sv != v {
				if floatOK {
					a, e1 := strconv.ParseFloat(sv, 64)
					b, e2 := strconv.ParseFloat(v, 64)
					if e1 == nil && e2 == nil && a == b && model.HumanFloat(sv) {
						o.H[f] = sv
						continue
					}
				}
				return "value"
			}
		}
		if k.Len != int64(len(k.Hash)) {
			return "hlen-disagrees"
		}
	case model.TSet:
		if len(k.Set) != len(o.Set) {
			return "value"
		}
		for m := range o.Set {
			if !k.Set[m] {
				return "value"
			}
		}
		if k.Len != int64(len(k.Set)) {
			return "scard-disagrees"
		}
	}
	// expiry
	if o.Deadline == 0 {
		if k.PTTL != -1 {
			return "ttl-gained"
		}
	} else {
		if k.PTTL == -1 {
			return "ttl-lost"
		}
		lo, hi := o.Deadline-d1-model.Gran, o.DeadlineHi-d0+model.Gran
		if k.PTTL < lo || k.PTTL > hi {
			return "ttl-changed"
		}
	}
	return ""
}

// sameDump compares two SUT dumps of one key (M-inert).
func sameDump(a, b *keyDump, ta0, ta1, tb0, tb1 int64) bool {
	if a == nil || b == nil {
		return a == b
	}
	if a.Type != b.Type || a.Str != b.Str || len(a.List) != len(b.List) || len(a.Hash) != len(b.Hash) || len(a.Set) != len(b.Set) {
		return false
	}
	for i := range a.List {
		if a.List[i] != b.List[i] {
			return false
		}
	}
	for f, v := range a.Hash {
		if b.Hash[f] != v {
			return false
		}
	}
	for m := range a.Set {
		if !b.Set[m] {
			return false
		}
	}
	if (a.PTTL == -1) != (b.PTTL == -1) || (a.PTTL == -2) != (b.PTTL == -2) {
		return false
	}
	if a.PTTL >= 0 {
		// the absolute deadline implied by each dump is an interval; they must overlap
		alo, ahi := ta0+a.PTTL, ta1+a.PTTL
		blo, bhi := tb0+b.PTTL, tb1+b.PTTL
		if ahi+model.Gran < blo || bhi+model.Gran < alo {
			return false
		}
	}
	return true
}

// objMatchesDump: type and content of the model's object equal what was read from the SUT (deadlines aside).
func objMatchesDump(o *model.Obj, k *keyDump) bool {
	if k == nil || k.Type == "none" || k.Type == "" {
		return o == nil
	}
	if o == nil {
		return false
	}
	switch k.Type {
	case "string":
		return o.T == model.TString && string(o.S) == k.Str
	case "list":
		if o.T != model.TList || len(o.L) != len(k.List) {
			return false
		}
		for i := range o.L {
			if string(o.L[i]) != k.List[i] {
				return false
			}
		}
		return true
	case "hash":
		if o.T != model.THash || len(o.H) != len(k.Hash) {
			return false
		}
		for f, v := range k.Hash {
			if mv, ok := o.H[f]; !ok || mv != v {
				return false
			}
		}
		return true
	case "set":
		if o.T != model.TSet || len(o.Set) != len(k.Set) {
			return false
		}
		for mm := range k.Set {
			if _, ok := o.Set[mm]; !ok {
				return false
			}
		}
		return true
	}
	return false
}

// resyncKey overwrites the model's object with what the SUT holds.
func resyncKey(m *model.Model, db int, key string, k *keyDump, d0, d1 int64) {
	if k == nil {
		return
	}
	var o *model.Obj
	switch k.Type {
	case "string":
		o = &model.Obj{T: model.TString, S: []byte(k.Str)}
	case "list":
		o = &model.Obj{T: model.TList}
		for _, e := range k.List {
			o.L = append(o.L, []byte(e))
		}
	case "hash":
		o = &model.Obj{T: model.THash, H: map[string]string{}}
		for f, v := range k.Hash {
			o.H[f] = v
		}
	case "set":
		o = &model.Obj{T: model.TSet, Set: map[string]struct{}{}}
		for mm := range k.Set {
			o.Set[mm] = struct{}{}
		}
	}
	if o == nil {
		delete(m.DB[db], key)
		return
	}
	// an empty aggregate left behind by the SUT is mirrored (it was reported when it appeared), so that it is not re-reported after every later step
	if k.PTTL >= 0 {
		// read at some moment in [d0, d1]
		o.Deadline, o.DeadlineHi = d0+k.PTTL, d1+k.PTTL
	}
	m.DB[db][key] = o
}

var optionWords = map[string]bool{"NX": true, "XX": true, "GT": true, "LT": true, "GET": true, "KEEPTTL": true, "EX": true, "PX": true, "EXAT": true, "PXAT": true, "PERSIST": true,
	"COUNT": true, "RANK": true, "MAXLEN": true, "LEFT": true, "RIGHT": true, "BEFORE": true, "AFTER": true, "LIMIT": true, "WITHVALUES": true, "REPLACE": true, "DB": true,
	"BY": true, "STORE": true, "ALPHA": true, "DESC": true, "ASC": true, "LEN": true, "IDX": true, "MINMATCHLEN": true, "WITHMATCHLEN": true, "BIT": true, "BYTE": true,
	"AND": true, "OR": true, "XOR": true, "NOT": true, "OVERFLOW": true, "WRAP": true, "SAT": true, "FAIL": true, "SET": true, "INCRBY": true, "MATCH": true, "TYPE": true}

// cmdTag is the command name plus the option keywords it carries (sorted), e.g. SET+GET+NX.
func cmdTag(args []string) string {
	name := strings.ToUpper(args[0])
	opts := map[string]bool{}
	start := 2
	if name == "BITOP" || name == "LMPOP" || name == "SINTERCARD" {
		start = 1
	}
	for i := start; i < len(args); i++ {
		u := strings.ToUpper(args[i])
		if optionWords[u] && u != name {
			opts[u] = true
		}
	}
	if len(opts) == 0 {
		return name
	}
	var o []string
	for k := range opts {
		o = append(o, k)
	}
	sort.Strings(o)
	return name + "+" + strings.Join(o, "+")
}

// firstKeyArg guesses the index of the first key argument.
func firstKeyArg(args []string) int {
	switch strings.ToLower(args[0]) {
	case "bitop":
		return 2
	case "lmpop", "sintercard":
		return 2
	case "blmpop":
		return 3
	case "select", "flushdb", "flushall", "multi", "exec", "discard", "unwatch", "ping", "echo", "dbsize", "randomkey", "keys", "scan", "hello", "client", "command", "info":
		return -1
	}
	return 1
}

type stepRecord struct {
	Cmd []string `json:"cmd"`
	Got string   `json:"got"`
	Exp string   `json:"expected"`
}

// diffEnv drives one connection against the SUT and the model in lock step.
type diffEnv struct {
	r        *verdict.Run
	child    *host.Child
	emu      *emu
	cn       *wire.Conn // connection under test
	obs      *wire.Conn // observer connection used for dumps
	m        *model.Model
	sess     *model.Session
	universe []string
	log      []stepRecord
	prev     *dbDump
	monitor  string
	dead     bool
	steps    int
	// coverage tuple hook
	cover   func(args []string, priorType string, outcome string)
	noState bool // skip state comparison
	obsDB   int
	// collisionBits: the case stores two names whose emulator hashes share this many low bits (signature refinement)
	collisionBits int
	// additional connections (index 1..) with their own model sessions; index 0 is cn/sess
	cns      []*wire.Conn
	sessions []*model.Session
	// lastDiverged: the last step diverged (reply or state, known finding or not); scripts use it to give the
	// connection a fresh session, because session state (MULTI, selected db) cannot be resynchronised from dumps
	lastDiverged bool
	dumps        map[string]string // last DUMP payload per key name (see DumpOf)
	dbsSeen      map[int]bool      // databases that were ever selected or written to: all of them are dumped
	prevs        map[int]*dbDump   // previous dump per database (M-inert)
}

// addConn opens another connection to the same emulator (its own session) and returns its index.
func (d *diffEnv) addConn() (int, error) {
	cn, err := d.emu.dial()
	if err != nil {
		return 0, err
	}
	cn.Timeout = 20 * time.Second
	cn.Proto = 3
	if d.cns == nil {
		d.cns = []*wire.Conn{d.cn}
		d.sessions = []*model.Session{d.sess}
	}
	d.cns = append(d.cns, cn)
	d.sessions = append(d.sessions, model.NewSession())
	return len(d.cns) - 1, nil
}

// reconnect replaces connection i by a fresh one (fresh session), e.g. after the SUT's and the model's
// transaction state diverged.
func (d *diffEnv) reconnect(i int) error {
	cn, err := d.emu.dial()
	if err != nil {
		return err
	}
	cn.Timeout = 20 * time.Second
	cn.Proto = 3
	if d.cns == nil {
		d.cns = []*wire.Conn{d.cn}
		d.sessions = []*model.Session{d.sess}
	}
	d.cns[i].Close()
	d.cns[i] = cn
	d.sessions[i] = model.NewSession()
	if i == 0 {
		d.cn, d.sess = cn, d.sessions[0]
	}
	return nil
}

func newDiffEnv(r *verdict.Run, c *host.Child, universe []string) (*diffEnv, error) {
	e, err := startEmu(c, "")
	if err != nil {
		return nil, err
	}
	cn, err := e.dial()
	if err != nil {
		return nil, err
	}
	obs, err := e.dial()
	if err != nil {
		return nil, err
	}
	cn.Timeout = 20 * time.Second
	obs.Timeout = 20 * time.Second
	cn.Proto = 3 // replies are parsed leniently (both protocols); RESP2 purity is decided by C15
	return &diffEnv{r: r, child: c, emu: e, cn: cn, obs: obs, m: model.New(), sess: model.NewSession(), universe: universe, monitor: "model"}, nil
}

func (d *diffEnv) close() {
	for i, c := range d.cns {
		if i > 0 {
			c.Close()
		}
	}
	d.cn.Close()
	d.obs.Close()
	d.emu.close()
}

func (d *diffEnv) replay(extra map[string]any) map[string]any {
	m := map[string]any{"steps": d.log}
	for k, v := range extra {
		m[k] = v
	}
	return m
}

func priorTypeOf(m *model.Model, db int, args []string, now int64) string {
	i := firstKeyArg(args)
	if i < 0 || i >= len(args) {
		return "-"
	}
	o := m.Get(db, args[i], now)
	if o == nil {
		return "missing"
	}
	return o.T.String()
}

// DumpOf is the placeholder a generator puts where RESTORE takes its payload: the driver replaces it by the payload the
// emulator returned for the most recent DUMP of that key name (or by a payload no DUMP ever returned).
func DumpOf(key string) string { return "\x00dump-of:" + key }

// CorruptDumpOf: the last DUMP payload of the key with its type byte changed (string <-> list) and the checksum
// recomputed: well-formed on the outside, undecodable inside. RESTORE must refuse it and change nothing.
func CorruptDumpOf(key string) string { return "\x00dump-corrupt:" + key }

func corruptPayload(p string) string {
	b := []byte(p)
	if len(b) < 14 {
		return p + "x"
	}
	b = b[:len(b)-8]
	if len(b)%2 == 0 {
		// a type byte that names several types at once (or none that exists): no key can be that
		b[1] = []byte{3, 5, 7, 9, 15, 255, 6, 10, 12, 16, 128}[len(b)/2%11]
	} else {
		// (a container body declared as a string would be a valid string payload: containers become other containers)
		switch b[1] {
		case 8:
			b[1] = 2
		default:
			b[1] = 8
		}
	}
	var c uint64
	for _, x := range b {
		c = bits.RotateLeft64(c, 10) ^ uint64(x)
	}
	sum := make([]byte, 8)
	binary.BigEndian.PutUint64(sum, c)
	return string(append(b, sum...))
}

func (d *diffEnv) substDumps(args []string) []string {
	var out []string
	for i, a := range args {
		if strings.HasPrefix(a, "\x00dump-corrupt:") {
			if out == nil {
				out = append([]string{}, args...)
			}
			p, ok := d.dumps[a[len("\x00dump-corrupt:"):]]
			if !ok {
				p = "\x01\x01never-dumped"
			}
			out[i] = corruptPayload(p)
			continue
		}
		if strings.HasPrefix(a, "\x00dump-of:") {
			if out == nil {
				out = append([]string{}, args...)
			}
			p, ok := d.dumps[a[len("\x00dump-of:"):]]
			if !ok {
				p = "\x01\x01never-dumped"
			}
			out[i] = p
		}
	}
	if out == nil {
		return args
	}
	return out
}

// noteDumps remembers DUMP payloads by key name (for the placeholder) and registers them with the model.
func (d *diffEnv) noteDumps(args []string, exp model.Exp, got resp.Value) {
	d.m.RegisterDumps(exp, got)
	if strings.EqualFold(args[0], "DUMP") && len(args) == 2 && (got.Kind == '$' || got.Kind == '=') && !got.Null {
		if d.dumps == nil {
			d.dumps = map[string]string{}
		}
		d.dumps[args[1]] = string(got.Str)
		d.r.Count("dump_payloads_obtained", 1)
	}
	if strings.EqualFold(args[0], "RESTORE") && got.Kind == '+' {
		d.r.Count("values_created_by_restore", 1)
	}
}

// step sends one command, compares reply and state with the model.
// Returns the reply and whether the environment is still usable.
func (d *diffEnv) step(args []string) (resp.Value, bool) { return d.stepOn(0, args) }

// stepOn sends one command on connection ci.
func (d *diffEnv) stepOn(ci int, args []string) (resp.Value, bool) {
	if d.dead {
		return resp.Value{}, false
	}
	cn, sess := d.cn, d.sess
	if ci > 0 || d.cns != nil {
		cn, sess = d.cns[ci], d.sessions[ci]
	}
	r := d.r
	d.steps++
	args = d.substDumps(args)
	tag := cmdTag(args)
	wasMulti := sess.InMulti
	t0 := time.Now().UnixMilli()
	got, err := cn.Do(args...)
	t1 := time.Now().UnixMilli()
	prior := priorTypeOf(d.m, sess.DB, args, t0)
	exp, ambiguous := d.m.ApplyI(sess, args, t0, t1)
	if err == nil {
		d.noteDumps(args, exp, got)
	}
	if err != nil {
		d.dead = true
		d.log = append(d.log, stepRecord{args, "ERROR: " + err.Error(), exp.String()})
		why := fmt.Sprintf("no reply to %s: %v", cmdString(args), err)
		sig := d.monitor + "/" + tag + "/no-reply/" + prior
		d.child.WaitExit(300 * time.Millisecond)
		if !d.child.Alive() {
			cs, msg := host.CrashSignature(d.child.StderrHead(100000))
			sig = d.monitor + "/" + tag + "/crash/" + cs
			why += "\nprocess died: " + msg + "\n" + headLines(d.child.StderrHead(100000), 30)
		} else if err == wire.ErrTimeout {
			// the command hangs: take a goroutine dump (this ends the child)
			why += "\ngoroutines blocked on a mutex:\n" + stallSummary(d.child.SigQuitDump())
		}
		r.Report(sig, why, d.replay(nil))
		return got, false
	}
	d.log = append(d.log, stepRecord{args, got.String(), exp.String()})
	if len(d.log) > 400 {
		d.log = d.log[len(d.log)-400:]
	}
	if ci > 0 {
		d.log[len(d.log)-1].Cmd = append([]string{fmt.Sprintf("[conn %d]", ci)}, args...)
	}
	diverged := false
	stepSig := "" // a recognised defect of this step: its state divergences carry the same signature
	if wasMulti && sess.InMulti && got.IsError() && exp.Err == "" && exp.Val.Text() == "QUEUED" && model.ArgumentError(args) {
		// The emulator parses arguments when a command is queued, Redis only checks the arity and fails the command
		// at EXEC. Rejecting a malformed command at queue time is accepted as long as EXEC then aborts (EXECABORT).
		sess.RejectQueued()
		r.Count("queue_time_argument_rejections", 1)
		exp = model.AnyErr()
	}
	if got.IsError() && strings.Contains(string(got.Str), "internal error while processing") && !(d.collisionBits >= 31) && exp.Err == "" {
		// the emulator's dispatcher turns a panicking handler into this reply: whatever the model thinks of the command
		// (also where it has no opinion), a handler that panicked is not Redis behaviour
		diverged = true
		r.Report(fmt.Sprintf("%s/%s/handler-panicked/%s", d.monitor, tag, prior), fmt.Sprintf("%s (key was %s): the command handler panicked (reply %s)", cmdString(args), prior, got), d.replay(map[string]any{"command": args, "got": got.String()}))
	}
	if ambiguous {
		r.Count("ambiguous_time_steps", 1)
	} else if why := model.Match(exp, got); why != "" {
		diverged = true
		sig := fmt.Sprintf("%s/%s/reply/%s/%s-vs-%s", d.monitor, tag, prior, exp.Class(), model.Class(got))
		var fo *model.Obj
		if i := firstKeyArg(args); i > 0 && i < len(args) {
			fo = d.m.DB[sess.DB][args[i]]
		}
		if s2 := refineReplySig(args, got, fo); s2 != "" {
			sig = "model/" + s2
			stepSig = sig
		}
		if d.collisionBits >= 31 && got.IsError() && strings.Contains(string(got.Str), "internal error") {
			sig = "model/dict/31-low-hash-bits-shared-cannot-be-stored"
			stepSig = sig
		}
		if strings.EqualFold(args[0], "EXEC") && sess.LastAbort != "" && got.Kind == '*' && !got.Null {
			sig = "model/WATCH/" + sess.LastAbort
			stepSig = sig
		}
		r.Report(sig, fmt.Sprintf("%s (key was %s): %s", cmdString(args), prior, why), d.replay(map[string]any{"command": args, "expected": exp.String(), "got": got.String()}))
	}
	if d.cover != nil {
		d.cover(args, prior, model.Class(got))
	}
	if d.noState {
		return got, true
	}
	// state comparison through the observer connection, for every database in use
	if d.dbsSeen == nil {
		d.dbsSeen = map[int]bool{0: true}
		d.prevs = map[int]*dbDump{}
	}
	d.dbsSeen[sess.DB] = true
	for db := range d.m.DB {
		if len(d.m.DB[db]) > 0 {
			d.dbsSeen[db] = true
		}
	}
	name := strings.ToLower(args[0])
	floatOK := strings.Contains(name, "float") || name == "exec"
	resync := (exp.Unspec && !exp.ReadOnly) || ambiguous
	inMultiQueueing := wasMulti || sess.InMulti
	var dbs []int
	for db := range d.dbsSeen {
		dbs = append(dbs, db)
	}
	sort.Ints(dbs)
	for _, db := range dbs {
		if !d.compareDB(db, args, tag, prior, got, sess.DB, floatOK, resync, inMultiQueueing, &diverged, stepSig) {
			return got, false
		}
	}
	d.lastDiverged = diverged
	return got, true
}

// compareDB dumps one database and compares it with the model; false = environment unusable.
func (d *diffEnv) compareDB(db int, args []string, tag, prior string, got resp.Value, cmdDB int, floatOK, resync, inMulti bool, divergedAny *bool, stepSig string) bool {
	r := d.r
	if db != d.obsDB {
		d.obs.Do("SELECT", strconv.Itoa(db))
		d.obsDB = db
	}
	diverged := false
	d0 := time.Now().UnixMilli()
	dump := dumpDB(d.obs, d.universe)
	d1 := time.Now().UnixMilli()
	if dump.Err != "" {
		d.dead = true
		r.Report(d.monitor+"/"+tag+"/dump-failed/"+prior, fmt.Sprintf("after %s the state could not be read: %s", cmdString(args), dump.Err), d.replay(nil))
		return false
	}
	prev := d.prevs[db]
	if db == 0 && prev == nil {
		prev = d.prev
	}
	dbTag := ""
	if db != cmdDB {
		dbTag = "/other-db"
	}
	// M-inert: an error reply must leave the SUT's own state unchanged (not meaningful while queueing in MULTI,
	// and EXEC's own reply is an array)
	if got.IsError() && prev != nil && !inMulti {
		for k, before := range prev.Keys {
			after := dump.Keys[k]
			if strings.Contains(before.Type, "-but-") || (before.PTTL == -2 && before.Type != "none") {
				continue // the previous dump caught this key in the middle of its natural expiry (TYPE, PTTL and EXISTS disagree)
			}
			if after != nil && !sameDump(before, after, prev.T0, prev.T1, dump.T0, dump.T1) {
				// natural expiry between (or during) the dumps is not a mutation
				if before.PTTL >= 0 && before.PTTL < (dump.T1-prev.T0)+1000 {
					continue
				}
				diverged = true
				r.Report(fmt.Sprintf("inert/%s/%s/changed-on-error%s", tag, prior, dbTag),
					fmt.Sprintf("%s failed with %s but key %q (db %d) changed: before %s, after %s", cmdString(args), got, k, db, before, after), d.replay(nil))
			}
			if (after == nil || after.Type == "none") && before.Type != "none" && before.PTTL < 0 && prev.Listed[k] {
				diverged = true
				r.Report(fmt.Sprintf("inert/%s/%s/removed-on-error%s", tag, prior, dbTag),
					fmt.Sprintf("%s failed with %s but key %q (db %d, no TTL) is gone: before %s", cmdString(args), got, k, db, before), d.replay(nil))
			}
		}
		for k, after := range dump.Keys {
			before := prev.Keys[k]
			if after.Type != "none" && dump.Listed[k] && before != nil && before.Type == "none" && !prev.Listed[k] {
				diverged = true
				r.Report(fmt.Sprintf("inert/%s/%s/created-on-error%s", tag, prior, dbTag),
					fmt.Sprintf("%s failed with %s but key %q (db %d) now exists: %s", cmdString(args), got, k, db, after), d.replay(nil))
			}
		}
	}
	// SUT-only invariants, independent of the model (also checked when the model has no opinion on the step)
	for k, kd := range dump.Keys {
		if (kd.Type == "list" && len(kd.List) == 0) || (kd.Type == "hash" && len(kd.Hash) == 0) || (kd.Type == "set" && len(kd.Set) == 0) {
			if kd.PTTL >= 0 && kd.PTTL < (dump.T1-dump.T0)+1000 {
				continue // the key expired between the dump's TYPE and its content read
			}
			if resync { // otherwise compareKey reports it with the model's view
				diverged = true
				r.Report(fmt.Sprintf("%s/%s/state/%s/empty-aggregate-left-behind%s", d.monitor, tag, prior, dbTag),
					fmt.Sprintf("after %s (reply %s): key %q in db %d exists as an empty %s", cmdString(args), got, k, db, kd.Type), d.replay(nil))
			}
		}
	}
	if !resync {
		keys := map[string]bool{}
		for k := range dump.Keys {
			keys[k] = true
		}
		for k := range d.m.DB[db] {
			keys[k] = true
		}
		var ks []string
		for k := range keys {
			ks = append(ks, k)
		}
		sort.Strings(ks)
		fk := ""
		if i := firstKeyArg(args); i > 0 && i < len(args) {
			fk = args[i]
		}
		anyAmbiguous := false
		for _, k := range ks {
			o, amb := d.m.GetI(db, k, d0, d1)
			if amb {
				r.Count("ambiguous_time_keys", 1)
				anyAmbiguous = true
				continue // the deadline falls inside the dump window
			}
			kd := dump.Keys[k]
			if kd == nil {
				if o != nil {
					diverged = true
					r.Report(fmt.Sprintf("%s/%s/state/%s/not-listed%s", d.monitor, tag, prior, dbTag), fmt.Sprintf("after %s the model holds %q = %s in db %d but the SUT neither lists nor reports it", cmdString(args), k, objString(o, d1), db), d.replay(nil))
				}
				continue
			}
			if cls := compareKey(o, kd, d0, d1, floatOK); cls != "" {
				diverged = true
				role := ""
				if k != fk {
					role = "/other-key"
				}
				sig := fmt.Sprintf("%s/%s/state/%s/%s%s%s", d.monitor, tag, prior, cls, role, dbTag)
				if s2 := refineStateSig(args, cls, o, kd, d0, d1); s2 != "" {
					sig = "model/" + s2
				}
				if stepSig != "" {
					sig = stepSig
				}
				r.Report(sig,
					fmt.Sprintf("after %s (reply %s): key %q in db %d is %s, Redis semantics give %s", cmdString(args), got, k, db, kd, objString(o, d1)), d.replay(map[string]any{"command": args, "key": k, "db": db}))
			}
			// keyspace listing consistency (SUT-only invariants)
			exists := kd.Type != "none"
			if exists != dump.Listed[k] {
				diverged = true
				r.Report("invariant/keys-vs-exists", fmt.Sprintf("after %s: key %q has TYPE %s but KEYS * lists it: %v", cmdString(args), k, kd.Type, dump.Listed[k]), d.replay(nil))
			}
		}
		if dump.DBSize != int64(len(dump.Listed)) && !anyAmbiguous {
			diverged = true
			r.Report("invariant/dbsize-vs-keys", fmt.Sprintf("after %s: DBSIZE=%d but KEYS * lists %d keys %v", cmdString(args), dump.DBSize, len(dump.Listed), keysOf(dump.Listed)), d.replay(nil))
		}
	}
	if diverged || resync || *divergedAny {
		// continue from the SUT's state so that one divergence does not cascade
		r.Count("resyncs", 1)
		// a key that the system under test holds differently from the model was modified there by a step the model did
		// not perform (or performed differently): the model's sessions watching it must see it as changed, otherwise the
		// first divergence comes back as a disagreement about somebody's EXEC many steps later
		for k := range d.m.DB[db] {
			if dump.Keys[k] == nil {
				// (an object the model still stores although its deadline has passed is gone for both sides already)
				if o := d.m.DB[db][k]; o.Deadline == 0 || o.Deadline > d1 {
					d.m.Touch(db, k)
				}
				delete(d.m.DB[db], k)
			}
		}
		for k, kd := range dump.Keys {
			if o := d.m.DB[db][k]; !objMatchesDump(o, kd) && (o == nil || o.Deadline == 0 || o.Deadline > d1 || kd.Type != "none") {
				d.m.Touch(db, k)
			}
			resyncKey(d.m, db, k, kd, d0, d1)
		}
	}
	if diverged {
		*divergedAny = true
	}
	d.prevs[db] = dump
	if db == 0 {
		d.prev = dump
	}
	return true
}

func keysOf(m map[string]bool) []string {
	var ks []string
	for k := range m {
		ks = append(ks, k)
	}
	sort.Strings(ks)
	return ks
}

// refineStateSig recognises specific, command-independent defects so that one defect has one signature.
func refineStateSig(args []string, cls string, o *model.Obj, kd *keyDump, d0, d1 int64) string {
	if cls == "ttl-changed" && o != nil && kd != nil && o.Deadline >= year9999Ms {
		return "TTL/deadline-beyond-year-9999-clamped"
	}
	if cls == "ttl-changed" && o != nil && kd != nil {
		// an exact deadline on a whole second can only come from an absolute-seconds option (EXAT)
		wholeSecond := o.Deadline == o.DeadlineHi && o.Deadline%1000 == 0
		late := kd.PTTL - (o.DeadlineHi - d0)
		if wholeSecond && late > 0 && late <= 1000+model.Gran {
			return "EXAT/deadline-late-by-subsecond"
		}
	}
	return ""
}

// year9999Ms: 9999-12-31T23:59:59Z in Unix ms; the emulator marks "no expiry" with that instant and clamps later deadlines.
const year9999Ms = int64(253402300799000)

// refineReplySig recognises specific defects from the reply alone (o: the model's object under the command's first key).
func refineReplySig(args []string, got resp.Value, o *model.Obj) string {
	switch strings.ToUpper(args[0]) {
	case "TTL", "PTTL", "EXPIRETIME", "PEXPIRETIME":
		if o != nil && o.Deadline >= year9999Ms && got.Kind == ':' && got.Int > 0 {
			return "TTL/deadline-beyond-year-9999-clamped"
		}
	}
	if strings.EqualFold(args[0], "COPY") && got.IsError() && strings.Contains(string(got.Str), "database copy not supported") {
		return "COPY+DB/unsupported"
	}
	return ""
}
