package main

import (
	"bytes"
	"encoding/binary"
	"encoding/gob"
	"encoding/hex"
	"fmt"
	"math/bits"
	"math/rand"
	"strconv"
	"strings"
	"sync"
	"sync/atomic"
	"time"

	"verif/harness/host"
	"verif/harness/resp"
	"verif/harness/verdict"
	"verif/harness/wire"
)

func init() { register("C13", "exploration", checkC13) }

type hostileInput struct {
	kind  string     // raw | cmd | seq
	raw   []byte     // raw
	cmds  [][]string // cmd (1) / seq (n)
	label string     // command name / mutation name (used in signatures)
	heavy bool
	cut   int // cmd/seq: > 0 = the request bytes are written in two segments, cut at this offset (negative: from the end)
}

var c13Setup = [][]string{
	{"SELECT", "0"}, {"DEL", "ks", "kn", "kl", "kh", "kset", "kmiss", "ke", "kd"},
	{"SET", "ks", "hello"}, {"SET", "kn", "10"}, {"RPUSH", "kl", "a", "b", "c"},
	{"HSET", "kh", "f1", "v1", "f2", "2"}, {"SADD", "kset", "a", "b", "3"}, {"SET", "ke", ""},
}

var c13Nums = []string{"", "0", "-1", "1", "2", "3", "7", "10", "-2", "100", "2147483647", "2147483648", "4294967295", "4294967296",
	"9223372036854775807", "-9223372036854775808", "9223372036854775808", "4611686018427387904", "nan", "inf", "-inf", "1e400", "0.5", "-0", "1.5",
	"#-1", "#1", "i0", "u64", "i65", "u8", "i8", "i64", "u63", "0x10", " 1", "1 "}
var c13Keys = []string{"ks", "kn", "kl", "kh", "kset", "kmiss", "ke"}
var c13Words = []string{"NX", "XX", "GT", "LT", "EX", "PX", "EXAT", "PXAT", "KEEPTTL", "GET", "PERSIST", "LEFT", "RIGHT", "BEFORE", "AFTER", "COUNT",
	"MATCH", "TYPE", "RANK", "MAXLEN", "LIMIT", "BY", "ASC", "DESC", "ALPHA", "STORE", "WITHVALUES", "REPLACE", "DB", "ABSTTL", "IDLETIME", "FREQ",
	"BYTE", "BIT", "AND", "OR", "XOR", "NOT", "OVERFLOW", "WRAP", "SAT", "FAIL", "SET", "INCRBY", "LEN", "IDX", "MINMATCHLEN", "WITHMATCHLEN",
	"ID", "USER", "ADDR", "LADDR", "SKIPME", "YES", "NO", "TIMEOUT", "ERROR", "ON", "OFF", "LIBNAME", "LIBVER", "SETNAME", "AUTH", "FILTERBY",
	"MODULE", "ACLCAT", "PATTERN", "NORMAL", "MASTER", "REPLICA", "PUBSUB", "default", "string", "list", "hash", "set"}
var c13Misc = []string{"a", "b", "f1", "v1", "*", "k*", "[", "\\", "x\r\ny", "\x00", "\xff\xfe", "->", "#", "*->f1", "nosort", "k?"}
var c13Heavy = map[string]bool{"2147483647": true, "2147483648": true, "4294967295": true, "4294967296": true}

var c13Blocking = map[string]int{"blpop": -1, "brpop": -1, "blmove": -1, "brpoplpush": -1, "blmpop": 0} // index of the timeout arg (-1 = last)

func c13RandArg(rng *rand.Rand, pos int) string {
	p := rng.Intn(100)
	if pos == 0 && p < 65 {
		return c13Keys[rng.Intn(len(c13Keys))]
	}
	switch {
	case p < 40:
		return c13Nums[rng.Intn(len(c13Nums))]
	case p < 65:
		w := c13Words[rng.Intn(len(c13Words))]
		if rng.Intn(3) == 0 {
			w = strings.ToLower(w)
		}
		return w
	case p < 88:
		return c13Keys[rng.Intn(len(c13Keys))]
	default:
		return c13Misc[rng.Intn(len(c13Misc))]
	}
}

func c13CmdInputs(rng *rand.Rand, names []string, reps int) []hostileInput {
	var out []hostileInput
	for _, name := range names {
		toks := strings.Split(name, "|")
		for arity := 0; arity <= 7; arity++ {
			n := reps
			if arity == 0 {
				n = 1
			}
			for k := 0; k < n; k++ {
				args := append([]string{}, toks...)
				if rng.Intn(4) == 0 {
					args[0] = strings.ToUpper(args[0])
				}
				heavy := false
				for i := 0; i < arity; i++ {
					a := c13RandArg(rng, i)
					if c13Heavy[a] {
						heavy = true
					}
					args = append(args, a)
				}
				if idx, ok := c13Blocking[toks[0]]; ok && arity > 0 {
					if idx == -1 {
						args[len(args)-1] = "0.01"
					} else {
						args[len(toks)+idx] = "0.01"
					}
				}
				label := name
				if !c13Real[name] {
					label = "unknown-command"
				}
				out = append(out, hostileInput{kind: "cmd", cmds: [][]string{args}, label: label, heavy: heavy})
			}
		}
	}
	return out
}

var c13Real = map[string]bool{}

// plausible commands: arguments shaped like the real thing, with one field replaced by a hostile value
var c13Templates = [][]string{
	{"SET", "K", "v", "EX", "N"}, {"SET", "K", "v", "PX", "N"}, {"SET", "K", "v", "EXAT", "N"}, {"SET", "K", "v", "PXAT", "N"},
	{"SETEX", "K", "N", "v"}, {"PSETEX", "K", "N", "v"}, {"GETEX", "K", "EX", "N"}, {"GETEX", "K", "PXAT", "N"},
	{"GETRANGE", "K", "N", "N"}, {"SUBSTR", "K", "N", "N"}, {"SETRANGE", "K", "N", "v"}, {"INCRBY", "K", "N"}, {"DECRBY", "K", "N"}, {"INCRBYFLOAT", "K", "N"},
	{"LCS", "K", "K", "MINMATCHLEN", "N", "IDX"}, {"LCS", "K", "K", "LEN"},
	{"LPOP", "K", "N"}, {"RPOP", "K", "N"}, {"LINDEX", "K", "N"}, {"LRANGE", "K", "N", "N"}, {"LSET", "K", "N", "v"}, {"LTRIM", "K", "N", "N"},
	{"LREM", "K", "N", "a"}, {"LPOS", "K", "a", "RANK", "N"}, {"LPOS", "K", "a", "COUNT", "N"}, {"LPOS", "K", "a", "MAXLEN", "N"},
	{"LPOS", "K", "a", "RANK", "N", "COUNT", "N", "MAXLEN", "N"}, {"LINSERT", "K", "BEFORE", "a", "x"},
	{"LMPOP", "N", "K", "LEFT", "COUNT", "N"}, {"LMPOP", "1", "K", "RIGHT", "COUNT", "N"}, {"LMPOP", "2", "K", "K", "LEFT"}, {"LMOVE", "K", "K", "LEFT", "RIGHT"},
	{"BLMPOP", "0.01", "N", "K", "LEFT", "COUNT", "N"}, {"BLPOP", "K", "K", "0.01"}, {"BLMOVE", "K", "K", "LEFT", "LEFT", "0.01"},
	{"HINCRBY", "K", "f2", "N"}, {"HINCRBYFLOAT", "K", "f2", "N"}, {"HRANDFIELD", "K", "N"}, {"HRANDFIELD", "K", "N", "WITHVALUES"},
	{"HSCAN", "K", "N"}, {"HSCAN", "K", "0", "COUNT", "N"}, {"HSCAN", "K", "0", "MATCH", "v", "COUNT", "N"},
	{"SRANDMEMBER", "K", "N"}, {"SSCAN", "K", "N"}, {"SSCAN", "K", "0", "COUNT", "N"}, {"SINTERCARD", "N", "K", "K"}, {"SINTERCARD", "2", "K", "K", "LIMIT", "N"},
	{"SMOVE", "K", "K", "a"}, {"SINTERSTORE", "K", "K", "K"}, {"SUNIONSTORE", "K", "K"}, {"SDIFFSTORE", "K", "K", "K"}, {"SMISMEMBER", "K", "a", "b"},
	{"SCAN", "N"}, {"SCAN", "0", "COUNT", "N"}, {"SCAN", "0", "MATCH", "v", "COUNT", "N", "TYPE", "string"}, {"SCAN", "N", "TYPE", "v"},
	{"EXPIRE", "K", "N"}, {"EXPIRE", "K", "N", "NX"}, {"PEXPIRE", "K", "N", "GT"}, {"EXPIREAT", "K", "N"}, {"PEXPIREAT", "K", "N", "LT"},
	{"COPY", "K", "K"}, {"COPY", "K", "kd"}, {"COPY", "K", "kd", "REPLACE"}, {"COPY", "K", "kd", "DB", "N"}, {"RENAME", "K", "K"}, {"RENAMENX", "K", "kd"},
	{"SORT", "K"}, {"SORT", "K", "ALPHA"}, {"SORT", "K", "LIMIT", "N", "N"}, {"SORT", "K", "BY", "v", "GET", "v", "STORE", "kd"}, {"SORT", "K", "BY", "nosort", "DESC"},
	{"SETBIT", "K", "N", "1"}, {"SETBIT", "K", "7", "N"}, {"GETBIT", "K", "N"}, {"BITCOUNT", "K", "N", "N"}, {"BITCOUNT", "K", "N", "N", "BIT"}, {"BITCOUNT", "K"},
	{"BITPOS", "K", "N"}, {"BITPOS", "K", "1", "N"}, {"BITPOS", "K", "0", "N", "N", "BIT"}, {"BITOP", "NOT", "kd", "K"}, {"BITOP", "AND", "kd", "K", "K"}, {"BITOP", "XOR", "K", "K", "K"},
	{"BITFIELD", "K", "GET", "N", "N"}, {"BITFIELD", "K", "SET", "N", "N", "N"}, {"BITFIELD", "K", "INCRBY", "N", "N", "N"}, {"BITFIELD", "K", "OVERFLOW", "v", "INCRBY", "u8", "0", "N"},
	{"BITFIELD_RO", "K", "GET", "N", "N"}, {"BITFIELD", "K", "GET", "u8", "N", "SET", "i8", "N", "N", "OVERFLOW", "FAIL", "INCRBY", "i64", "N", "N"},
	{"SELECT", "N"}, {"HELLO", "N"}, {"HELLO", "3", "SETNAME", "v"}, {"HELLO", "3", "AUTH", "default", "v"}, {"CLIENT", "UNBLOCK", "N"}, {"CLIENT", "UNBLOCK", "N", "ERROR"},
	{"CLIENT", "KILL", "ID", "N"}, {"CLIENT", "KILL", "v"}, {"CLIENT", "KILL", "ADDR", "v", "SKIPME", "v"}, {"CLIENT", "KILL", "USER", "v"}, {"CLIENT", "LIST", "ID", "N", "N"}, {"CLIENT", "LIST", "TYPE", "v"},
	{"CLIENT", "SETNAME", "v"}, {"CLIENT", "NO-EVICT", "v"}, {"CLIENT", "SETINFO", "LIBNAME", "v"}, {"CLIENT", "INFO"}, {"CLIENT", "GETNAME"},
	{"COMMAND", "GETKEYS", "v", "K", "v"}, {"COMMAND", "GETKEYS", "SET", "K", "v"}, {"COMMAND", "GETKEYS", "LMPOP", "N", "K", "LEFT"}, {"COMMAND", "GETKEYS", "SORT", "K", "STORE", "K"},
	{"COMMAND", "GETKEYS", "GET"}, {"COMMAND", "GETKEYS", "BITOP", "AND"}, {"COMMAND", "GETKEYSANDFLAGS", "v", "K"}, {"COMMAND", "GETKEYSANDFLAGS", "SINTERCARD", "N", "K"},
	{"COMMAND", "GETKEYS", "BLMPOP", "N", "N", "K"}, {"COMMAND", "GETKEYS", "MSET", "K", "v", "K"}, {"COMMAND", "GETKEYS", "LCS", "K"},
	{"COMMAND", "INFO", "v", "get"}, {"COMMAND", "DOCS", "v"}, {"COMMAND", "LIST", "FILTERBY", "PATTERN", "v"}, {"COMMAND", "LIST", "FILTERBY", "ACLCAT", "v"}, {"COMMAND", "COUNT"}, {"COMMAND", "HELP"},
	{"INFO"}, {"INFO", "v"}, {"INFO", "server", "clients"}, {"DUMP", "K"}, {"RESTORE", "kd", "N", "v"}, {"RESTORE", "kd", "0", "v", "REPLACE", "ABSTTL", "IDLETIME", "N"},
	{"OBJECT", "ENCODING", "K"}, {"DEBUG", "SLEEP", "0"}, {"KEYS", "v"}, {"RANDOMKEY"}, {"DBSIZE"}, {"TOUCH", "K", "K"}, {"UNLINK", "K", "K"}, {"TYPE", "K"}, {"EXISTS", "K", "K"},
	{"MSET", "K", "v", "K"}, {"MSETNX", "K", "v", "K", "v"}, {"MGET", "K", "K", "K"}, {"APPEND", "K", "v"}, {"GETSET", "K", "v"}, {"GETDEL", "K"}, {"STRLEN", "K"},
	{"HSET", "K", "f", "v", "g"}, {"HMSET", "K", "f", "v"}, {"HSETNX", "K", "f1", "v"}, {"HDEL", "K", "f1", "f2"}, {"HMGET", "K", "f1", "zz"}, {"HGETALL", "K"}, {"HKEYS", "K"}, {"HVALS", "K"}, {"HSTRLEN", "K", "f1"},
	{"SADD", "K", "a", "a"}, {"SREM", "K", "a", "b", "3"}, {"SMEMBERS", "K"}, {"SCARD", "K"}, {"SUNION", "K", "K"}, {"SDIFF", "K", "K"}, {"SINTER", "K", "K"},
	{"LPUSH", "K", "x"}, {"RPUSHX", "K", "x"}, {"LLEN", "K"}, {"RPOPLPUSH", "K", "K"}, {"BRPOPLPUSH", "K", "K", "0.01"}, {"BRPOP", "K", "0.01"},
	{"TTL", "K"}, {"PTTL", "K"}, {"EXPIRETIME", "K"}, {"PEXPIRETIME", "K"}, {"PERSIST", "K"}, {"WATCH", "K", "K"}, {"UNWATCH"}, {"DISCARD"}, {"EXEC"}, {"MULTI"},
	{"PING"}, {"PING", "v"}, {"ECHO", "v"}, {"QUIT"}, {"FLUSHDB"}, {"FLUSHALL"}, {"FLUSHALL", "v"}, {"FLUSHDB", "v"},
}

func c13TemplateInputs(rng *rand.Rand, reps int) []hostileInput {
	var out []hostileInput
	vpool := append(append([]string{}, c13Misc...), "string", "list", "hash", "set", "zset", "k*", "SET", "GET", "@read", "127.0.0.1:1", "default", "nobody", "server", "everything", "WRAP", "SAT", "FAIL", "bogus", "")
	for _, t := range c13Templates {
		for k := 0; k < reps; k++ {
			args := make([]string, len(t))
			heavy := false
			for i, a := range t {
				switch a {
				case "K":
					args[i] = c13Keys[rng.Intn(len(c13Keys))]
				case "N":
					args[i] = c13Nums[rng.Intn(len(c13Nums))]
					if c13Heavy[args[i]] {
						heavy = true
					}
				case "v":
					args[i] = vpool[rng.Intn(len(vpool))]
				default:
					args[i] = a
				}
			}
			label := strings.ToLower(t[0])
			if label == "object" || label == "debug" {
				label = "unknown-command"
			}
			out = append(out, hostileInput{kind: "cmd", cmds: [][]string{args}, label: label, heavy: heavy})
			if k == 0 {
				// the same command cut short after every word: an option keyword without its value, a missing
				// mandatory argument, a sub-command alone (the argument parser sees the end of input in every state)
				for n := 1; n < len(args); n++ {
					out = append(out, hostileInput{kind: "cmd", cmds: [][]string{append([]string{}, args[:n]...)}, label: label, heavy: heavy})
				}
				// ... and with its last word given twice
				out = append(out, hostileInput{kind: "cmd", cmds: [][]string{append(append([]string{}, args...), args[len(args)-1])}, label: label, heavy: heavy})
			}
		}
	}
	return out
}

func c13SeqInputs(rng *rand.Rand, cmds []hostileInput, n int) []hostileInput {
	var out []hostileInput
	light := make([]hostileInput, 0, len(cmds))
	for _, c := range cmds {
		if !c.heavy {
			light = append(light, c)
		}
	}
	for i := 0; i < n && len(light) > 0; i++ {
		k := 1 + rng.Intn(3)
		seq := [][]string{{"MULTI"}}
		label := "multi"
		for j := 0; j < k; j++ {
			c := light[rng.Intn(len(light))]
			seq = append(seq, c.cmds[0])
			label += "+" + c.label
		}
		seq = append(seq, []string{"EXEC"})
		out = append(out, hostileInput{kind: "seq", cmds: seq, label: label})
	}
	return out
}

// c13MultiEach: every command token of the SUT, in four minimal argument shapes, queued alone inside MULTI..EXEC
// (deterministic: a command that cannot run under the transaction's locks wedges the database whatever its arguments).
func c13MultiEach(names []string) []hostileInput {
	var out []hostileInput
	for _, n := range names {
		base := strings.Split(n, "|")
		for _, extra := range [][]string{{}, {"ks"}, {"ks", "1"}, {"0"}} {
			cmd := append(append([]string{}, base...), extra...)
			out = append(out, hostileInput{kind: "seq", cmds: [][]string{{"MULTI"}, cmd, {"EXEC"}}, label: "multi-each+" + strings.ToLower(n)})
		}
	}
	return out
}

// c13Fragmented: well-formed commands whose bytes reach the emulator in two segments, as the very first input of a
// connection (small commands cut after the first byte, in the middle and before the last byte; values of 8-64 KiB
// that need several reads anyway).
func c13Fragmented() []hostileInput {
	var out []hostileInput
	small := [][]string{{"PING"}, {"SET", "ks", "value"}, {"GET", "ks"}, {"LRANGE", "kl", "0", "-1"}, {"HGETALL", "kh"}, {"ECHO", "hello world"}, {"MSET", "ks", "1", "kn", "2"}}
	for _, c := range small {
		n := len(resp.Cmd(c...))
		for _, cut := range []int{1, 4, n / 2, n - 3, n - 1} {
			out = append(out, hostileInput{kind: "cmd", cmds: [][]string{c}, label: "fragmented+" + strings.ToLower(c[0]), cut: cut})
		}
		out = append(out, hostileInput{kind: "seq", cmds: [][]string{c, {"PING"}, c}, label: "fragmented-pipeline+" + strings.ToLower(c[0]), cut: n + 3})
		out = append(out, hostileInput{kind: "seq", cmds: [][]string{c, {"PING"}, c}, label: "fragmented-pipeline+" + strings.ToLower(c[0]), cut: -2})
	}
	for _, size := range []int{8000, 8192, 9000, 32768, 65536, 200000} {
		big := strings.Repeat("v", size)
		out = append(out, hostileInput{kind: "cmd", cmds: [][]string{{"SET", "kbig", big}}, label: "big-first-command"})
		out = append(out, hostileInput{kind: "cmd", cmds: [][]string{{"SET", "kbig", big}}, label: "big-first-command", cut: 100})
		out = append(out, hostileInput{kind: "seq", cmds: [][]string{{"PING"}, {"SET", "kbig", big}, {"STRLEN", "kbig"}}, label: "big-second-command", cut: 20})
		out = append(out, hostileInput{kind: "cmd", cmds: [][]string{{"ECHO", big}}, label: "big-first-command", cut: -5})
	}
	return out
}

func c13RawInputs(rng *rand.Rand, n int) []hostileInput {
	var out []hostileInput
	add := func(label string, b string) {
		out = append(out, hostileInput{kind: "raw", raw: []byte(b), label: label})
	}
	bigs := []string{"-9223372036854775808", "-2", "-1", "0", "2147483648", "4294967296", "9223372036854775807", "1000000000000000000000000000000", "536870913", "1073741825"}
	add("blank-line", "\r\n")
	add("blank-lines", "\r\n\r\n\r\n")
	add("lf-only", "\n")
	add("cr-only", "\r")
	add("nul", "\x00")
	add("inline-ping", "PING\r\n")
	add("inline-set", "SET a b\r\n")
	add("inline-quote", "SET a \"b c\r\n")
	add("garbage-64k", strings.Repeat("\xde\xad\xbe\xef", 16384))
	add("garbage-crlf", strings.Repeat("zz\r\n", 2000))
	// RESP3 streamed strings and aggregates: "$?" / "*?" ... followed by ";<len>" chunks or elements and a terminator
	for _, b := range append(append([]string{}, bigs...), "3", "5", "-3") {
		add("stream-chunk-len", "*2\r\n$4\r\nECHO\r\n$?\r\n;"+b+"\r\n")
		add("stream-chunk-len", "*2\r\n$4\r\nECHO\r\n$?\r\n;"+b+"\r\nabc\r\n;0\r\n")
		add("stream-chunk-len", "$?\r\n;"+b+"\r\n")
		add("stream-chunk-len", "*2\r\n$4\r\nECHO\r\n!?\r\n;"+b+"\r\n")
		add("stream-chunk-len", "*2\r\n$4\r\nECHO\r\n=?\r\n;"+b+"\r\n")
		add("stream-chunk-len", "*2\r\n$4\r\nECHO\r\n$?\r\n;3\r\nabc\r\n;"+b+"\r\n")
	}
	for _, agg := range []string{"*?", "~?", "%?", ">?", "|?"} {
		add("stream-aggregate", agg+"\r\n$4\r\nPING\r\n.\r\n")
		add("stream-aggregate", agg+"\r\n.\r\n")
		add("stream-aggregate", agg+"\r\n"+agg+"\r\n.\r\n.\r\n")
		add("stream-aggregate", "*2\r\n$4\r\nECHO\r\n"+agg+"\r\n$1\r\na\r\n.\r\n")
		add("stream-aggregate", agg+"\r\n$4\r\nPING\r\n")
		add("stream-aggregate", agg+"\r\n;3\r\nabc\r\n")
	}
	// every RESP3 value as a set member, a map key, a map value and an attribute key, in sized and streamed containers,
	// as an argument of a command and as a frame of its own (containers index their members: not every value can be one)
	{
		values := map[string]string{"blob": "$1\r\na\r\n", "simple": "+x\r\n", "error": "-ERR x\r\n", "int": ":1\r\n", "null": "_\r\n", "double": ",1.5\r\n", "nan": ",nan\r\n", "bool": "#t\r\n", "bignum": "(12345678901234567890\r\n",
			"bloberr": "!5\r\nERR x\r\n", "verbatim": "=5\r\ntxt:a\r\n", "array": "*1\r\n+x\r\n", "empty-array": "*0\r\n", "map": "%1\r\n+k\r\n+v\r\n", "set": "~1\r\n+x\r\n", "push": ">1\r\n+x\r\n", "empty-push": ">0\r\n",
			"attr": "|1\r\n+k\r\n+v\r\n+x\r\n", "null-array": "*-1\r\n", "null-blob": "$-1\r\n", "streamed-blob": "$?\r\n;1\r\na\r\n;0\r\n", "streamed-array": "*?\r\n+x\r\n.\r\n", "nested-push": "*1\r\n>1\r\n+x\r\n"}
		for name, v := range values {
			shapes := map[string]string{
				"set-member":          "~1\r\n" + v,
				"set-member-twice":    "~2\r\n" + v + v,
				"streamed-set-member": "~?\r\n" + v + ".\r\n",
				"map-key":             "%1\r\n" + v + "+v\r\n",
				"map-key-twice":       "%2\r\n" + v + "+v\r\n" + v + "+w\r\n",
				"map-value":           "%1\r\n+k\r\n" + v,
				"streamed-map-key":    "%?\r\n" + v + "+v\r\n.\r\n",
				"attribute-key":       "|1\r\n" + v + "+v\r\n+x\r\n",
				"streamed-attribute":  "|?\r\n" + v + "+v\r\n.\r\n+x\r\n",
				"push-element":        ">2\r\n+pubsub\r\n" + v,
			}
			for shape, frame := range shapes {
				add("nested-"+shape+"/"+name, "*2\r\n$4\r\nECHO\r\n"+frame)
				add("nested-"+shape+"/"+name, frame)
				add("nested-"+shape+"/"+name, "*1\r\n"+frame)
			}
		}
	}
	add("stream-terminator-alone", ".\r\n")
	add("stream-chunk-alone", ";3\r\nabc\r\n")
	for _, t := range []string{"*", "$", "~", "%", "|", ">", "=", "!", "(", ",", "#", "_", ":", "+", "-"} {
		add("type-alone-"+t, t+"\r\n")
		add("type-noline-"+t, t)
		for _, b := range bigs {
			add("count-"+t, t+b+"\r\n")
			add("count-arg-"+t, "*2\r\n$4\r\nECHO\r\n"+t+b+"\r\n")
		}
		// RESP3 types as the top level and as arguments
		add("toplevel-"+t, t+"1\r\n$1\r\na\r\n")
		add("arg-"+t, "*2\r\n$4\r\nECHO\r\n"+t+"1\r\n$1\r\na\r\n")
		add("arg0-"+t, "*1\r\n"+t+"1\r\n$4\r\nPING\r\n")
	}
	add("set-unhashable", "~1\r\n*0\r\n")
	add("map-unhashable", "%1\r\n*0\r\n$1\r\na\r\n")
	add("map-unhashable-arg", "*2\r\n$4\r\nECHO\r\n%1\r\n*1\r\n$1\r\na\r\n$1\r\nb\r\n")
	add("set-unhashable-arg", "*2\r\n$4\r\nECHO\r\n~1\r\n%0\r\n")
	add("map-key-map", "%1\r\n%0\r\n$1\r\na\r\n")
	add("attr-then-cmd", "|1\r\n$1\r\na\r\n$1\r\nb\r\n*1\r\n$4\r\nPING\r\n")
	add("null-cmd", "_\r\n")
	add("bool-cmd", "#t\r\n")
	add("bool-bad", "#x\r\n")
	add("double-bad", ",abc\r\n")
	add("double-inf", ",inf\r\n")
	add("bignum-bad", "(12x\r\n")
	add("verbatim-short", "=2\r\nab\r\n")
	add("verbatim-bad", "=5\r\nabcde\r\n")
	add("bulk-err", "!3\r\nERR\r\n")
	add("chunked-bulk", "$?\r\n;4\r\nHell\r\n;0\r\n")
	add("chunked-array", "*?\r\n$4\r\nPING\r\n.\r\n")
	add("chunked-map", "%?\r\n$1\r\na\r\n:1\r\n.\r\n")
	add("bulk-wrong-term", "*1\r\n$4\r\nPINGxx")
	add("bulk-wrong-term2", "*1\r\n$4\r\nPING\n\r")
	add("bulk-short-len", "*1\r\n$2\r\nPING\r\n")
	add("bulk-long-len", "*1\r\n$9\r\nPING\r\n*1\r\n$4\r\nPING\r\n")
	add("array-of-arrays", "*1\r\n*1\r\n$4\r\nPING\r\n")
	add("array-int-name", "*1\r\n:5\r\n")
	add("array-null-name", "*1\r\n$-1\r\n")
	add("array-nullarray", "*-1\r\n")
	add("array-empty", "*0\r\n")
	add("array-neg2", "*-2\r\n")
	add("bulk-neg2", "*1\r\n$-2\r\n")
	add("int-arg", "*2\r\n$4\r\nECHO\r\n:12\r\n")
	add("int-arg-bad", "*2\r\n$4\r\nECHO\r\n:1x2\r\n")
	add("int-empty", "*2\r\n$4\r\nECHO\r\n:\r\n")
	add("simple-arg", "*2\r\n$4\r\nECHO\r\n+hello\r\n")
	add("error-arg", "*2\r\n$4\r\nECHO\r\n-ERR x\r\n")
	add("null-arg", "*2\r\n$4\r\nECHO\r\n_\r\n")
	add("double-arg", "*3\r\n$3\r\nSET\r\n$1\r\nk\r\n,1.5\r\n")
	add("bool-arg", "*3\r\n$3\r\nSET\r\n$1\r\nk\r\n#t\r\n")
	add("bignum-arg", "*3\r\n$3\r\nSET\r\n$1\r\nk\r\n(123456789012345678901234567890\r\n")
	add("len-plus", "*+1\r\n$4\r\nPING\r\n")
	add("len-space", "* 1\r\n$4\r\nPING\r\n")
	add("len-hex", "*0x1\r\n$4\r\nPING\r\n")
	add("len-empty", "*\r\n$4\r\nPING\r\n")
	add("len-float", "*1.0\r\n$4\r\nPING\r\n")
	add("lf-terminators", "*1\n$4\nPING\n")
	for depth := 1; depth <= 64; depth *= 2 {
		add("nest-"+strconv.Itoa(depth), strings.Repeat("*1\r\n", depth)+"$4\r\nPING\r\n")
		add("nest-set-"+strconv.Itoa(depth), strings.Repeat("~1\r\n", depth)+"$4\r\nPING\r\n")
		add("nest-map-"+strconv.Itoa(depth), strings.Repeat("%1\r\n$1\r\nk\r\n", depth)+"$4\r\nPING\r\n")
	}
	add("nest-10000", strings.Repeat("*1\r\n", 10000)+"$4\r\nPING\r\n")
	// truncation of valid commands at every offset
	valid := [][]string{{"SET", "ks", "value"}, {"LPUSH", "kl", "a", "b"}, {"HELLO", "3"}, {"BITFIELD", "kn", "GET", "u8", "0"}}
	for _, v := range valid {
		b := resp.Cmd(v...)
		for i := 1; i < len(b); i++ {
			out = append(out, hostileInput{kind: "raw", raw: append([]byte{}, b[:i]...), label: "truncate"})
		}
	}
	// seeded byte mutations of valid commands
	corpus := [][]string{{"SET", "ks", "value"}, {"GET", "ks"}, {"LRANGE", "kl", "0", "-1"}, {"HGETALL", "kh"}, {"SADD", "kset", "x"}, {"MULTI"}, {"EXEC"},
		{"HELLO", "3"}, {"CLIENT", "LIST"}, {"BITFIELD", "kn", "SET", "i8", "#1", "-1"}, {"SCAN", "0", "COUNT", "10"}, {"LMPOP", "1", "kl", "LEFT"}}
	special := []string{"\r", "\n", "\r\n", "*", "$", "~", "%", "-1", "0", "9223372036854775807", "\x00", ":", "+", "_", "#t", ",1", "=", "|", ">", "(", "!"}
	for i := 0; i < n; i++ {
		var b []byte
		k := 1 + rng.Intn(3)
		for j := 0; j < k; j++ {
			b = append(b, resp.Cmd(corpus[rng.Intn(len(corpus))]...)...)
		}
		m := 1 + rng.Intn(3)
		for j := 0; j < m && len(b) > 0; j++ {
			pos := rng.Intn(len(b))
			switch rng.Intn(5) {
			case 0: // overwrite a byte
				b[pos] = byte(rng.Intn(256))
			case 1: // delete a span
				end := pos + 1 + rng.Intn(4)
				if end > len(b) {
					end = len(b)
				}
				b = append(b[:pos], b[end:]...)
			case 2: // insert special
				s := special[rng.Intn(len(special))]
				b = append(b[:pos], append([]byte(s), b[pos:]...)...)
			case 3: // replace a digit run with a big number
				for q := pos; q < len(b); q++ {
					if b[q] >= '0' && b[q] <= '9' {
						e := q
						for e < len(b) && b[e] >= '0' && b[e] <= '9' {
							e++
						}
						b = append(b[:q], append([]byte(bigs[rng.Intn(len(bigs))]), b[e:]...)...)
						break
					}
				}
			case 4: // swap type byte
				for q := pos; q < len(b); q++ {
					if b[q] == '$' || b[q] == '*' {
						b[q] = "*$~%|>=!(,#_:+-"[rng.Intn(15)]
						break
					}
				}
			}
		}
		out = append(out, hostileInput{kind: "raw", raw: b, label: "mutated"})
	}
	return out
}

var c13HeavySem = make(chan struct{}, 2)

type c13Shard struct {
	r      *verdict.Run
	child  *host.Child
	emu    *emu
	can    *canary
	nonce  int
	starts int
}

func (s *c13Shard) ensure() bool {
	for tries := 0; tries < 5; tries++ {
		if s.child != nil && s.child.Alive() && s.emu != nil {
			return true
		}
		if s.child != nil {
			s.child.Stop()
			s.child = nil
		}
		if s.can != nil {
			s.can.close()
		}
		c, err := startChildLimited(false, 12*1024*1024)
		if err != nil {
			continue
		}
		e, err := startEmu(c, "")
		if err != nil {
			c.Stop()
			continue
		}
		s.child, s.emu = c, e
		s.can = newCanary(e.port)
		s.starts++
		return true
	}
	return false
}

func (s *c13Shard) stop() {
	if s.can != nil {
		s.can.close()
	}
	if s.child != nil {
		s.child.Stop()
		s.child = nil
	}
}

func (in *hostileInput) replay() map[string]any {
	m := map[string]any{"kind": in.kind, "label": in.label, "setup": c13Setup}
	if in.kind == "raw" {
		m["raw_hex"] = hex.EncodeToString(in.raw)
		m["raw_quoted"] = strconv.Quote(string(truncBytes(in.raw, 400)))
	} else {
		m["commands"] = in.cmds
	}
	return m
}

func truncBytes(b []byte, n int) []byte {
	if len(b) > n {
		return b[:n]
	}
	return b
}

func cmdLabel(args []string) string {
	if len(args) == 0 {
		return "?"
	}
	return strings.ToLower(args[0])
}

type c13Result struct {
	bad     bool
	sig     string
	what    string
	outcome string
}

// run executes one hostile input, minimises a failing MULTI sequence to the single
// queued command that reproduces the failure, and reports.
func (s *c13Shard) run(in *hostileInput) {
	r := s.r
	res := s.execute(in)
	if res.bad && in.kind == "seq" && len(in.cmds) > 3 {
		for i := 1; i < len(in.cmds)-1; i++ {
			single := &hostileInput{kind: "seq", cmds: [][]string{{"MULTI"}, in.cmds[i], {"EXEC"}}, label: "multi+" + cmdLabel(in.cmds[i])}
			if len(in.cmds[i]) > 1 && (cmdLabel(in.cmds[i]) == "client" || cmdLabel(in.cmds[i]) == "command") {
				single.label += "|" + strings.ToLower(in.cmds[i][1])
			}
			r2 := s.execute(single)
			if r2.bad && strings.SplitN(r2.sig, "/", 3)[1] == strings.SplitN(res.sig, "/", 3)[1] {
				in, res = single, r2
				break
			}
		}
	}
	if res.bad {
		r.Report(res.sig, res.what, in.replay())
	}
	if res.outcome != "" {
		r.Distinct(in.kind + "/" + in.label + "/" + res.outcome)
	}
}

// execute runs one hostile input and applies the monitors.
func (s *c13Shard) execute(in *hostileInput) (res c13Result) {
	r := s.r
	if !s.ensure() {
		r.Inconclusive("could not start emulator child")
		return
	}
	if in.heavy {
		c13HeavySem <- struct{}{}
		defer func() { <-c13HeavySem }()
	}
	// state setup on its own connection
	if sc, err := s.emu.dial(); err == nil {
		sc.Timeout = 5 * time.Second
		sc.Pipeline(c13Setup)
		sc.Close()
	}
	r.Eval(1)
	hc, err := s.emu.dial()
	if err != nil {
		return s.afterFailure(in, "connect failed: "+err.Error())
	}
	defer hc.Close()
	hc.Proto = 3 // accept both protocols here; RESP2 purity is C15's business
	problem := ""
	outcome := "ok"
	switch in.kind {
	case "raw":
		hc.Send(in.raw)
		// collect whatever comes back for a short while; nothing is required of the reply to malformed bytes
		hc.Quiet(15 * time.Millisecond)
		if len(hc.Pending()) > 0 {
			outcome = "raw:replied"
		} else {
			outcome = "raw:silent"
		}
	case "cmd", "seq":
		s.nonce++
		nonce := fmt.Sprintf("nonce-%d-%d", s.starts, s.nonce)
		cmds := append(append([][]string{}, in.cmds...), []string{"ECHO", nonce})
		var b []byte
		for _, c := range cmds {
			b = append(b, resp.Cmd(c...)...)
		}
		if cut := in.cut; cut != 0 {
			if cut < 0 {
				cut = len(b) + cut
			}
			if cut > 0 && cut < len(b) {
				hc.Send(b[:cut])
				time.Sleep(2 * time.Millisecond)
				b = b[cut:]
			}
		}
		hc.Send(b)
		wd := 4 * time.Second
		if in.heavy {
			wd = 60 * time.Second
		}
		for i, c := range cmds {
			v, _, err := hc.ReadValue(wd)
			name := cmdLabel(c)
			if err != nil {
				if wire.IsClosedErr(err) && closesConnection(cmds[:min(i+1, len(cmds)-1)]) {
					outcome = "closed-by-command"
					break
				}
				if err == wire.ErrTimeout {
					problem = fmt.Sprintf("unanswered/%s|no reply to command %d (%s) within %v", in.label, i, cmdString(c), wd)
				} else if _, isFrame := err.(*resp.FrameError); isFrame {
					problem = fmt.Sprintf("frame/%s|a reply is not well-formed RESP: %v; bytes %q", in.label, err, truncBytes(hc.Pending(), 200))
				} else {
					problem = fmt.Sprintf("dropped/%s|connection ended instead of a reply to %s: %v", in.label, cmdString(c), err)
				}
				_ = name
				break
			}
			if i == len(cmds)-1 {
				if v.Text() == "QUEUED" && hasCmd(in.cmds, "multi") {
					// the input left the connection inside MULTI: the sentinel was queued, which is its one reply
				} else if v.Text() != nonce {
					problem = fmt.Sprintf("extra-reply/%s|expected the sentinel's echo, got %s (a command produced more or fewer than one reply)", in.label, v)
				}
			} else if in.kind == "cmd" {
				if v.IsError() {
					outcome = "error:" + v.ErrClass()
				} else {
					outcome = "reply:" + string(v.Kind)
				}
				if in.label == "unknown-command" && !v.IsError() {
					problem = fmt.Sprintf("no-error/%s|unknown command %s was answered with %s instead of an error", in.label, cmdString(c), v)
				}
			}
		}
	}
	ok, why := s.can.check(3 * time.Second)
	if !s.child.Alive() {
		ok = false
	}
	if !ok {
		return s.afterFailure(in, why)
	}
	res.outcome = outcome
	if problem != "" {
		parts := strings.SplitN(problem, "|", 2)
		res.bad = true
		res.sig = "c13/" + parts[0]
		res.what = parts[1] + "\ninput: " + in.describe()
		res.outcome = strings.SplitN(parts[0], "/", 2)[0]
		if strings.HasPrefix(parts[0], "unanswered") {
			// the connection goroutine may be wedged; restart to keep later verdicts clean
			s.child.Stop()
			s.child = nil
		}
	}
	if in.heavy && s.child != nil {
		if rs, err := s.child.Do(5*time.Second, "rss"); err == nil {
			kib, _ := strconv.ParseInt(rs, 10, 64)
			if kib > 16*1024*1024 {
				res = c13Result{bad: true, sig: "c13/resource/" + in.label, what: fmt.Sprintf("resident set grew to %d MiB after %s", kib/1024, in.describe()), outcome: "resource"}
				s.child.Stop()
				s.child = nil
			} else if kib > 2*1024*1024 {
				// give memory back before the next heavy input
				s.child.Stop()
				s.child = nil
			}
		}
	}
	return
}

func hasCmd(cmds [][]string, name string) bool {
	for _, c := range cmds {
		if cmdLabel(c) == name {
			return true
		}
	}
	return false
}

func closesConnection(cmds [][]string) bool {
	for _, c := range cmds {
		n := cmdLabel(c)
		if n == "quit" || n == "client" {
			return true
		}
	}
	return false
}

func (in *hostileInput) describe() string {
	if in.kind == "raw" {
		return fmt.Sprintf("raw bytes %s", strconv.Quote(string(truncBytes(in.raw, 300))))
	}
	parts := []string{}
	for _, c := range in.cmds {
		parts = append(parts, cmdString(c))
	}
	return strings.Join(parts, " ; ")
}

// afterFailure classifies a dead or unresponsive emulator.
func (s *c13Shard) afterFailure(in *hostileInput, why string) (res c13Result) {
	r := s.r
	c := s.child
	res.bad = true
	// give a crashing process a moment to finish writing its trace
	c.WaitExit(500 * time.Millisecond)
	if !c.Alive() {
		stderr := c.StderrHead(200000)
		sig, msg := host.CrashSignature(stderr)
		if sig == "" {
			if strings.Contains(c.StdoutTail(2000), "Error listening") {
				r.Inconclusive("bind failed (infrastructure)")
				s.child.Stop()
				s.child = nil
				return c13Result{}
			}
			sig = "exit@" + c.ExitStatus()
		}
		res.sig = "c13/crash/" + sig
		res.what = fmt.Sprintf("the emulator process died (%s): %s\ninput: %s\n%s", c.ExitStatus(), msg, in.describe(), headLines(stderr, 40))
		res.outcome = "crash"
	} else {
		dump := c.SigQuitDump()
		res.sig = "c13/stall/" + in.label
		res.what = fmt.Sprintf("other clients are no longer served (%s) after: %s\n%s", why, in.describe(), stallSummary(dump))
		res.outcome = "stall"
	}
	s.child.Stop()
	s.child = nil
	return
}

func headLines(s string, n int) string {
	lines := strings.Split(s, "\n")
	if len(lines) > n {
		lines = lines[:n]
	}
	return strings.Join(lines, "\n")
}

// stallSummary extracts the repo frames of goroutines blocked on a mutex.
func stallSummary(dump string) string {
	var out []string
	for _, g := range strings.Split(dump, "\n\n") {
		if strings.Contains(g, "sync.(*Mutex).Lock") && strings.Contains(g, "go-redisemu.") {
			lines := strings.Split(g, "\n")
			var fr []string
			for _, l := range lines {
				if strings.HasPrefix(l, "github.com/jimsnab/go-redisemu.") {
					fr = append(fr, strings.TrimPrefix(l, "github.com/jimsnab/go-redisemu."))
				}
			}
			if len(fr) > 6 {
				fr = fr[:6]
			}
			out = append(out, lines[0]+" "+strings.Join(fr, " <- "))
		}
		if len(out) >= 6 {
			break
		}
	}
	return strings.Join(out, "\n")
}

func checkC13(r *verdict.Run) {
	r.Rule = "each hostile input (raw byte string, generated command, random MULTI..EXEC sequence, and every command token of the SUT in four minimal argument shapes queued alone inside MULTI..EXEC) is sent on its own connection; plus RESTORE payloads crafted by a client that knows the format (valid checksum; every type byte x empty / one-element / wrong-type / truncated serializations x exact, short and absurd declared lengths), each followed by the read, random-pick, pop and write commands of every type on the restored key; plus well-formed commands that arrive in two segments or need several reads as the first input of a connection; plus clients parked in every blocking command while others list them repeatedly (CLIENT LIST / CLIENT INFO / CLIENT LIST ID), then unblocked: everybody is answered; plus connection churn (24 goroutines connect, send a fragment or nothing and close or reset, against one emulator, while a steady client sends PING) to a live emulator after a fixed key setup; " +
		"monitors: process exit status, canary SET/GET on another connection (3 s watchdog), strict framing of replies, exactly one reply per well-formed command (sentinel ECHO). " +
		"distinct = (input kind, command or mutation label, outcome class)"
	// discover the command list from the SUT
	names := c13CommandNames(r)
	rng := shardRng(r, 0)
	var inputs []hostileInput
	inputs = append(inputs, c13RawInputs(rng, tierPick(r, 600, 30000))...)
	tmpl := c13TemplateInputs(rng, tierPick(r, 6, 120))
	inputs = append(inputs, tmpl...)
	cmds := c13CmdInputs(rng, names, tierPick(r, 2, 40))
	inputs = append(inputs, cmds...)
	inputs = append(inputs, c13SeqInputs(rng, append(append([]hostileInput{}, tmpl...), cmds...), tierPick(r, 500, 20000))...)
	inputs = append(inputs, c13MultiEach(names)...)
	inputs = append(inputs, c13Fragmented()...)
	inputs = append(inputs, c13CraftedPayloads()...)
	inputs = append(inputs, c13UnknownCommands()...)
	rng.Shuffle(len(inputs), func(i, j int) { inputs[i], inputs[j] = inputs[j], inputs[i] })
	r.Set("inputs_raw_cmd_seq", fmt.Sprintf("%d inputs over %d command tokens", len(inputs), len(names)))
	for i := 0; i < 4 && i < len(inputs); i++ {
		r.Sample(inputs[i*7%len(inputs)].describe())
	}
	nsh := 16
	var next int64 = -1
	var wg sync.WaitGroup
	for sh := 0; sh < nsh; sh++ {
		wg.Add(1)
		go func(sh int) {
			defer wg.Done()
			s := &c13Shard{r: r}
			defer s.stop()
			for {
				i := int(atomic.AddInt64(&next, 1))
				if i >= len(inputs) {
					return
				}
				s.run(&inputs[i])
			}
		}(sh)
	}
	wg.Wait()
	c13Churn(r, tierPick(r, 4, 12))
	c13InspectBlocked(r)
	r.Assume("the canary's 3 s watchdog and the 4 s reply watchdog are generous; the child's address space is limited to 12 GiB so that a client-controlled allocation shows up as a crash of the child instead of exhausting the machine enough that a loaded machine does not look like a stall (a stall verdict additionally requires the process to be alive and is accompanied by a goroutine dump)")
}

// c13Churn: many short-lived connections against ONE emulator at the same time - connect, send a fragment of
// input (or nothing), and leave by close or reset - while a steady client keeps asking PING. Connection set-up and
// tear-down run concurrently with each other and with command processing; the process must survive and the steady
// client must always be answered.
func c13Churn(r *verdict.Run, runs int) {
	fragments := [][]byte{nil, []byte("PING\r\n"), []byte("*1\r\n$4\r\nPING\r\n"), []byte("*2\r\n$3\r\nGET\r\n$1"), []byte("\r\n"), []byte("*1\r\n$4\r\nQUIT\r\n"),
		[]byte("*3\r\n$6\r\nCLIENT\r\n$4\r\nKILL\r\n$9\r\n127.0.0.1\r\n"), []byte("*2\r\n$6\r\nCLIENT\r\n$4\r\nLIST\r\n"), []byte("*1\r\n$5\r\nMULTI\r\n"), []byte("*3\r\n$5\r\nBLPOP\r\n$2\r\ncq\r\n$1\r\n0\r\n"),
		[]byte("*2\r\n$5\r\nHELLO\r\n$1\r\n3\r\n"), []byte("\x00\xff garbage")}
	parallel(runs, 4, func(run int) {
		c, err := startChildLimited(false, 12<<20)
		if err != nil {
			r.Inconclusive("cannot start child")
			return
		}
		defer c.Stop()
		e, err := startEmu(c, "")
		if err != nil {
			r.Inconclusive("infra: " + err.Error())
			return
		}
		var stop atomic.Bool
		var conns, pongs atomic.Int64
		var wg sync.WaitGroup
		for g := 0; g < 24; g++ {
			wg.Add(1)
			go func(g int) {
				defer wg.Done()
				rng := shardRng(r, 4000+run*100+g)
				for !stop.Load() {
					cn, err := wire.Dial(e.port)
					if err != nil {
						time.Sleep(time.Millisecond)
						continue
					}
					conns.Add(1)
					if f := fragments[rng.Intn(len(fragments))]; f != nil {
						cn.Send(f)
					}
					switch rng.Intn(4) {
					case 0:
						cn.CloseRST()
					case 1:
						time.Sleep(time.Duration(rng.Intn(300)) * time.Microsecond)
						cn.Close()
					default:
						cn.Close()
					}
				}
			}(g)
		}
		steady, err := e.dial()
		failure := ""
		if err == nil {
			steady.Timeout = 5 * time.Second
			dur := 1500 * time.Millisecond
			if r.Tier == "thorough" {
				dur = 6 * time.Second
			}
			for t := time.Now(); time.Since(t) < dur; {
				v, err := steady.Do("PING")
				if err != nil || v.Text() != "PONG" {
					failure = fmt.Sprintf("the steady client's PING got %s %v", v, err)
					break
				}
				pongs.Add(1)
			}
			steady.Close()
		}
		stop.Store(true)
		wg.Wait()
		r.Eval(int(conns.Load()))
		r.Count("churn_connections", conns.Load())
		r.Count("churn_steady_pings_answered", pongs.Load())
		if !c.Alive() {
			tail := c.StderrHead(6000)
			sig, msg := host.CrashSignature(tail)
			r.Report("c13/crash/"+sig+"/connection-churn", fmt.Sprintf("the emulator process died during connection churn (%d short connections so far): %s\n%s", conns.Load(), msg, headLines(tail, 25)), map[string]any{"workload": "24 goroutines connect, send a fragment or nothing, close or reset; one steady client sends PING"})
			return
		}
		if failure != "" {
			r.Report("c13/unanswered/connection-churn", failure+" while 24 goroutines connected and disconnected", nil)
		}
		r.Distinct(fmt.Sprintf("churn/run%d", run%4))
	})
}

var c13FallbackNames = []string{"get", "set", "del", "lpush", "lpop", "hset", "sadd", "ping", "echo"}

func c13CommandNames(r *verdict.Run) []string {
	c, err := startChild(false)
	if err != nil {
		return c13FallbackNames
	}
	defer c.Stop()
	e, err := startEmu(c, "")
	if err != nil {
		return c13FallbackNames
	}
	cn, err := e.dial()
	if err != nil {
		return c13FallbackNames
	}
	defer cn.Close()
	v, err := cn.Do("COMMAND", "LIST")
	if err != nil || v.Kind != '*' {
		return c13FallbackNames
	}
	var names []string
	for _, e := range v.Elems {
		names = append(names, e.Text())
	}
	sortStrings(names)
	for _, n := range names {
		c13Real[n] = true
	}
	names = append(names, "nosuchcommand", "", "get\r\nx", "object", "zadd", "publish", "eval")
	r.Set("sut_commands", len(v.Elems))
	return names
}

// c13CraftedPayloads: RESTORE takes bytes that only DUMP is supposed to produce, but a client can produce them too
// (the checksum is no secret). Every payload below is well-formed on the outside: version byte, a type byte, a
// declared length, a body, a valid checksum. Whatever RESTORE makes of it, the commands that follow on that key
// must all be answered.
func c13CraftedPayloads() []hostileInput {
	sum := func(b []byte) []byte {
		var c uint64
		for _, x := range b {
			c = bits.RotateLeft64(c, 10) ^ uint64(x)
		}
		out := make([]byte, 8)
		binary.BigEndian.PutUint64(out, c)
		return out
	}
	enc := func(v any) []byte {
		var buf bytes.Buffer
		gob.NewEncoder(&buf).Encode(v)
		return buf.Bytes()
	}
	bodies := map[string][]byte{
		"nothing":          nil,
		"empty-set-table":  enc(map[string]struct{}{}),
		"empty-hash-table": enc(map[string]string{}),
		"empty-list":       enc([][]byte{}),
		"one-member-set":   enc(map[string]struct{}{"m": {}}),
		"one-field-hash":   enc(map[string]string{"f": "v"}),
		"one-element-list": enc([][]byte{[]byte("e")}),
		"list-of-nil":      enc([][]byte{nil, nil}),
		"empty-names":      enc(map[string]string{"": ""}),
		"a-number":         enc(int64(42)),
		"a-string":         enc("text"),
		"plain-bytes":      []byte("hello"),
		"truncated-gob":    enc(map[string]string{"field": "value"})[:9],
		"two-values":       append(enc(map[string]struct{}{"a": {}}), enc(map[string]struct{}{})...),
	}
	probes := [][]string{{"TYPE", "kd"}, {"EXISTS", "kd"}, {"SRANDMEMBER", "kd"}, {"SRANDMEMBER", "kd", "-3"}, {"SRANDMEMBER", "kd", "2"}, {"SPOP", "kd"}, {"SMEMBERS", "kd"}, {"SCARD", "kd"}, {"SINTER", "kd", "kset"},
		{"HRANDFIELD", "kd"}, {"HRANDFIELD", "kd", "-3", "WITHVALUES"}, {"HGETALL", "kd"}, {"HLEN", "kd"}, {"LPOP", "kd"}, {"RPOP", "kd"}, {"LRANGE", "kd", "0", "-1"}, {"LLEN", "kd"}, {"LINDEX", "kd", "-1"},
		{"GET", "kd"}, {"STRLEN", "kd"}, {"APPEND", "kd", "x"}, {"SADD", "kd", "n"}, {"HSET", "kd", "g", "w"}, {"RPUSH", "kd", "z"}, {"SORT", "kd", "ALPHA"}, {"SCAN", "0"}, {"RANDOMKEY"}, {"DUMP", "kd"}, {"COPY", "kd", "kd2"}, {"RENAME", "kd", "kd3"}, {"DEL", "kd", "kd2", "kd3"}}
	var out []hostileInput
	for name, body := range bodies {
		for _, typ := range []byte{0, 1, 2, 4, 8, 16, 3, 12, 255} {
			for _, declared := range []int{len(body) + 1, 0, 1, len(body), len(body) + 2, 1 << 30, -1} {
				p := []byte{1, typ, 0, 0, 0, 0}
				binary.BigEndian.PutUint32(p[2:], uint32(declared))
				p = append(p, body...)
				p = append(p, sum(p)...)
				cmds := [][]string{{"RESTORE", "kd", "0", string(p), "REPLACE"}}
				cmds = append(cmds, probes...)
				out = append(out, hostileInput{kind: "seq", cmds: cmds, label: "restore-crafted/" + name})
			}
		}
	}
	return out
}

// c13InspectBlocked: clients parked in blocking commands are looked at, again and again, by introspection commands of
// other connections (which read and briefly mark the state of every client): every one of those commands is answered,
// other clients stay served, and the parked clients still end their blocks when asked to.
func c13InspectBlocked(r *verdict.Run) {
	c, err := startChild(false)
	if err != nil {
		r.Inconclusive("cannot start child")
		return
	}
	defer c.Stop()
	e, err := startEmu(c, "")
	if err != nil {
		r.Inconclusive("infra: " + err.Error())
		return
	}
	blockers := [][]string{{"BLPOP", "ib-never", "0"}, {"BRPOP", "ib-never", "ib-never2", "0"}, {"BLMOVE", "ib-never", "ib-dst", "LEFT", "RIGHT", "0"}, {"BRPOPLPUSH", "ib-never", "ib-dst", "0"}, {"BLMPOP", "0", "1", "ib-never", "LEFT"}, {"BLPOP", "ib-never", "30"}}
	var parked []*wire.Conn
	var ids []int64
	for _, b := range blockers {
		cn, err := e.dial()
		if err != nil {
			return
		}
		defer cn.Close()
		id, _ := cn.ClientID()
		cn.SendCmd(b...)
		parked = append(parked, cn)
		ids = append(ids, id)
	}
	time.Sleep(100 * time.Millisecond)
	insp, err := e.dial()
	if err != nil {
		return
	}
	defer insp.Close()
	insp.Timeout = 4 * time.Second
	other, err := e.dial()
	if err != nil {
		return
	}
	defer other.Close()
	other.Timeout = 4 * time.Second
	fail := func(sig, what string) {
		dump := ""
		if c.Alive() {
			dump = stallSummary(c.SigQuitDump())
		}
		r.Report("c13/inspect-blocked/"+sig, what+"\n"+dump, nil)
	}
	for round := 0; round < 6; round++ {
		for _, cmd := range [][]string{{"CLIENT", "LIST"}, {"CLIENT", "LIST", "ID", strconv.FormatInt(ids[round%len(ids)], 10)}, {"CLIENT", "INFO"}, {"CLIENT", "LIST", "TYPE", "normal"}} {
			r.Eval(1)
			v, err := insp.Do(cmd...)
			if err != nil {
				fail("introspection-unanswered", fmt.Sprintf("round %d: %s got no reply within 4 s while %d clients are parked in blocking commands: %v", round, cmdString(cmd), len(parked), err))
				return
			}
			if cmd[len(cmd)-1] == "LIST" && strings.Count(v.Text(), "flags=b") != len(parked) {
				r.Report("c13/inspect-blocked/blocked-flag", fmt.Sprintf("round %d: CLIENT LIST shows %d clients with the blocked flag, %d are parked", round, strings.Count(v.Text(), "flags=b"), len(parked)), nil)
			}
		}
		if v, err := other.Do("INCR", "ib-counter"); err != nil || v.Int != int64(round+1) {
			fail("bystander-unanswered", fmt.Sprintf("round %d: a bystander's INCR got %s %v", round, v, err))
			return
		}
	}
	// the parked clients still react: unblock them one by one
	for i, cn := range parked {
		v, err := insp.Do("CLIENT", "UNBLOCK", strconv.FormatInt(ids[i], 10))
		if err != nil || v.Int != 1 {
			fail("unblock-after-inspection", fmt.Sprintf("CLIENT UNBLOCK of a parked client that was listed several times: %s %v", v, err))
			return
		}
		if rv, _, err := cn.ReadValue(4 * time.Second); err != nil || !rv.Null {
			fail("parked-client-stuck-after-inspection", fmt.Sprintf("%s was unblocked (reply 1) after being listed several times, but its command did not end: %s %v", cmdString(blockers[i]), rv, err))
			return
		}
		if rv, err := cn.Do("PING"); err != nil || rv.Text() != "PONG" {
			fail("parked-client-stuck-after-inspection", fmt.Sprintf("after its block ended the connection answers PING with %s %v", rv, err))
			return
		}
	}
	r.Distinct("inspect-blocked")
}

// c13UnknownCommands: commands the emulator does not know (module commands of a real server, typos), with arguments of
// every length around the sizes at which an error message would cut its quotation, and with more arguments behind a
// long one: each gets exactly one error reply.
func c13UnknownCommands() []hostileInput {
	var out []hostileInput
	for _, name := range []string{"JSON.SET", "nosuchcommand", "FT.SEARCH", "X", strings.Repeat("LONGNAME", 40)} {
		for _, l := range []int{0, 1, 30, 60, 100, 118, 120, 122, 124, 125, 126, 127, 128, 129, 130, 131, 132, 200, 255, 256, 257, 1000, 5000, 70000} {
			for _, behind := range []int{0, 1, 2, 5, 40} {
				args := []string{name, "doc", strings.Repeat("j", l)}
				for k := 0; k < behind; k++ {
					args = append(args, []string{"NX", "", "with space", "a\r\nb", strings.Repeat("z", 64)}[k%5])
				}
				out = append(out, hostileInput{kind: "cmd", cmds: [][]string{args}, label: "unknown-command"})
			}
		}
	}
	return out
}
