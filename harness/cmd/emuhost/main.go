// emuhost hosts the real emulator (built from /repo with -tags verif) in a
// child process and obeys a line protocol: commands "<seq> <verb> args..." on
// stdin, replies "r <seq> ok|err ..." and asynchronous events "e ..." on fd 3.
package main

import (
	"bufio"
	"fmt"
	"math/big"
	"math/rand"
	"net"
	"os"
	"runtime"
	"strconv"
	"strings"
	"sync"
	"sync/atomic"
	"syscall"
	"time"

	"github.com/jimsnab/go-lane"
	redisemu "github.com/jimsnab/go-redisemu"
)

var (
	outMu sync.Mutex
	out   *bufio.Writer
)

func emit(format string, a ...any) {
	outMu.Lock()
	fmt.Fprintf(out, format+"\n", a...)
	out.Flush()
	outMu.Unlock()
}

// ---- hook policy -----------------------------------------------------------

type parkRule struct {
	point string
	id    int64 // -1 = any
	once  bool
}

type parked struct {
	token int64
	ch    chan struct{}
}

type panicRule struct {
	point  string
	id     int64
	substr string
}

type crashRule struct {
	point  string
	nth    int64
	substr string
	seen   int64
}

type yieldRule struct {
	prefix   string
	permille int
	maxUs    int
}

type record struct {
	point  string
	id     int64
	detail string
}

var (
	hookMu     sync.Mutex
	parkRules  []parkRule
	parkedTab  = map[int64]*parked{}
	tokenSeq   int64
	crashes    []*crashRule
	panicRules []panicRule
	yields     []yieldRule
	watches    []string
	recordPfx  []string
	records    []record
	counts     = map[string]int64{}
	rng        = rand.New(rand.NewSource(1))
	hookOn     atomic.Bool
)

// lock-discipline monitor: the data store mutex may be skipped (ds:lock-skipped) only while some command holds that
// data store exclusively (between ds:exclusive-acquired and ds:exclusive-released)
var (
	lockMonitor   atomic.Bool
	lockMu        sync.Mutex
	exclusiveHeld = map[string]int{}
	lockSkips     int64
	lockViolCount int64
	lockViolFirst string
)

func lockMonitorPoint(point string, id int64, detail string) {
	ds := detail
	if i := strings.Index(detail, "/"); i >= 0 {
		ds = detail[:i]
	}
	lockMu.Lock()
	defer lockMu.Unlock()
	switch point {
	case "ds:exclusive-acquired":
		exclusiveHeld[ds]++
	case "ds:exclusive-released":
		exclusiveHeld[ds]--
	case "ds:lock-skipped":
		lockSkips++
		if exclusiveHeld[ds] <= 0 {
			lockViolCount++
			if lockViolFirst == "" {
				buf := make([]byte, 6000)
				buf = buf[:runtime.Stack(buf, false)]
				lockViolFirst = fmt.Sprintf("command id %d skipped the mutex of data store %s while nobody held that data store exclusively; stack: %s", id, ds, strings.ReplaceAll(strings.ReplaceAll(string(buf), "\n", " <- "), "\t", ""))
			}
		}
	}
}

func hook(point string, id int64, detail string) {
	if lockMonitor.Load() && strings.HasPrefix(point, "ds:") && point != "ds:before-lock" && point != "ds:after-unlock" {
		lockMonitorPoint(point, id, detail)
	}
	if !hookOn.Load() {
		return
	}
	var wait chan struct{}
	var sleepUs int
	var token int64
	hookMu.Lock()
	counts[point]++
	for _, p := range recordPfx {
		if strings.HasPrefix(point, p) {
			if len(records) < 2000000 {
				records = append(records, record{point, id, detail})
			}
			break
		}
	}
	for _, c := range crashes {
		if c.point == point && (c.substr == "" || strings.Contains(detail, c.substr)) {
			c.seen++
			if c.seen == c.nth {
				emitLocked := fmt.Sprintf("e crash %s %d %s", point, id, strconv.Quote(detail))
				hookMu.Unlock()
				emit("%s", emitLocked)
				syscall.Kill(os.Getpid(), syscall.SIGKILL)
				select {}
			}
		}
	}
	for i, pr := range panicRules {
		if pr.point == point && (pr.substr == "" || detail == pr.substr) && (pr.id == -1 || pr.id == id) {
			// a fault injected at the hook: the goroutine that reached the point panics (once per rule)
			panicRules = append(panicRules[:i], panicRules[i+1:]...)
			hookMu.Unlock()
			emit("e panicked %s %d %s", point, id, strconv.Quote(detail))
			panic("verif: fault injected at " + point)
		}
	}
	watched := false
	for _, w := range watches {
		if strings.HasPrefix(point, w) {
			watched = true
			break
		}
	}
	for i, r := range parkRules {
		if r.point == point && (r.id == -1 || r.id == id) {
			tokenSeq++
			token = tokenSeq
			wait = make(chan struct{})
			parkedTab[token] = &parked{token, wait}
			if r.once {
				parkRules = append(parkRules[:i], parkRules[i+1:]...)
			}
			break
		}
	}
	if wait == nil {
		for _, y := range yields {
			if strings.HasPrefix(point, y.prefix) {
				if rng.Intn(1000) < y.permille {
					sleepUs = rng.Intn(y.maxUs + 1)
					if sleepUs == 0 {
						sleepUs = -1
					}
				}
				break
			}
		}
	}
	hookMu.Unlock()
	if watched {
		emit("e hit %s %d %s", point, id, strconv.Quote(detail))
	}
	if wait != nil {
		emit("e parked %d %s %d %s", token, point, id, strconv.Quote(detail))
		<-wait
		return
	}
	if sleepUs > 0 {
		time.Sleep(time.Duration(sleepUs) * time.Microsecond)
	} else if sleepUs < 0 {
		runtime.Gosched()
	}
}

// ---- instances ---------------------------------------------------------------

var (
	instMu sync.Mutex
	insts  = map[string]*redisemu.RedisEmu{}
)

func main() {
	ctl := os.NewFile(3, "ctl")
	if ctl == nil {
		fmt.Fprintln(os.Stderr, "emuhost: fd 3 missing")
		os.Exit(2)
	}
	out = bufio.NewWriter(ctl)
	redisemu.VerifSetHook(hook)
	emit("e ready %d", os.Getpid())

	in := bufio.NewReaderSize(os.Stdin, 1<<20)
	for {
		lineStr, err := in.ReadString('\n')
		if err != nil {
			os.Exit(0) // parent went away
		}
		f := strings.Fields(strings.TrimSpace(lineStr))
		if len(f) < 2 {
			continue
		}
		seq, verb, args := f[0], f[1], f[2:]
		// lifecycle verbs may block (WaitForTermination) -> run them on their own goroutine
		go func() {
			res := handle(verb, args)
			emit("r %s %s", seq, res)
		}()
	}
}

func atoi(s string) int {
	n, _ := strconv.Atoi(s)
	return n
}

func handle(verb string, a []string) string {
	defer func() {
		// a panic in the emulator's API on this goroutine must kill the process like it would a user's test
	}()
	switch verb {
	case "ping":
		return "ok"
	case "start": // start <name> <port> [persistBase]
		if len(a) < 2 {
			return "err usage"
		}
		persist := ""
		if len(a) > 2 {
			persist = a[2]
		}
		l := lane.NewNullLane(nil)
		eng, err := redisemu.NewEmulator(l, atoi(a[1]), "", persist, nil)
		if err != nil {
			return "err " + err.Error()
		}
		eng.Start()
		instMu.Lock()
		insts[a[0]] = eng
		instMu.Unlock()
		return "ok"
	case "stormclose": // stormclose <port> <dialers> <sleepUs> : start an emulator, let goroutines of THIS process connect in a storm, Close() it, probe every connection
		// (the clients share the Go scheduler with the emulator, as they do in a user's test binary)
		port := atoi(a[0])
		eng, err := redisemu.NewEmulator(lane.NewNullLane(nil), port, "", "", nil)
		if err != nil {
			return "err " + err.Error()
		}
		eng.Start()
		addr := fmt.Sprintf("127.0.0.1:%d", port)
		var stop atomic.Bool
		var wg sync.WaitGroup
		var mu sync.Mutex
		var conns []net.Conn
		for i := 0; i < atoi(a[1]); i++ {
			wg.Add(1)
			go func() {
				defer wg.Done()
				for !stop.Load() {
					c, err := net.DialTimeout("tcp", addr, time.Second)
					if err != nil {
						return // the listener is gone
					}
					mu.Lock()
					conns = append(conns, c)
					mu.Unlock()
				}
			}()
		}
		// clients that are in the middle of request/reply round trips when the termination comes
		nbusy := 0
		if len(a) > 3 {
			nbusy = atoi(a[3])
		}
		var busyAlive atomic.Int64
		var busyWg sync.WaitGroup
		var closeReturned atomic.Bool
		for i := 0; i < nbusy; i++ {
			c, err := net.DialTimeout("tcp", addr, time.Second)
			if err != nil {
				continue
			}
			busyWg.Add(1)
			go func(c net.Conn) {
				defer busyWg.Done()
				defer c.Close()
				buf := make([]byte, 64)
				servedAfterClose := 0
				for {
					c.SetDeadline(time.Now().Add(400 * time.Millisecond))
					if _, err := c.Write([]byte("*1\r\n$4\r\nPING\r\n")); err != nil {
						return
					}
					if k, err := c.Read(buf); err != nil || k == 0 {
						return
					}
					if closeReturned.Load() {
						// still served although Close() has returned (or hangs): give it a few more rounds, then count it
						servedAfterClose++
						if servedAfterClose > 20 {
							busyAlive.Add(1)
							return
						}
						time.Sleep(5 * time.Millisecond)
					}
				}
			}(c)
		}
		time.Sleep(time.Duration(atoi(a[2])) * time.Microsecond)
		closed := make(chan struct{})
		t0 := time.Now()
		go func() { eng.Close(); close(closed) }()
		hung := false
		select {
		case <-closed:
		case <-time.After(5 * time.Second):
			hung = true
		}
		took := time.Since(t0)
		closeReturned.Store(true)
		stop.Store(true)
		wg.Wait()
		busyWg.Wait()
		survivors := int(busyAlive.Load())
		for _, c := range conns {
			c.SetDeadline(time.Now().Add(300 * time.Millisecond))
			if _, err := c.Write([]byte("*1\r\n$4\r\nPING\r\n")); err == nil {
				buf := make([]byte, 16)
				if k, err := c.Read(buf); err == nil && k > 0 {
					survivors++
				}
			}
		}
		for _, c := range conns {
			c.Close()
		}
		if hung {
			// the surviving connections are gone now: the termination can complete
			select {
			case <-closed:
			case <-time.After(5 * time.Second):
			}
		}
		return fmt.Sprintf("ok conns=%d survivors=%d hung=%v close_us=%d", len(conns), survivors, hung, took.Microseconds())
	case "newserver": // newserver <name> <port>  (test-server-simple.go API)
		eng := redisemu.NewServer(nil, atoi(a[1]))
		instMu.Lock()
		insts[a[0]] = eng
		instMu.Unlock()
		return "ok"
	case "reqterm", "waitterm", "close":
		instMu.Lock()
		eng := insts[a[0]]
		instMu.Unlock()
		if eng == nil {
			return "err no such instance"
		}
		t0 := time.Now()
		switch verb {
		case "reqterm":
			eng.RequestTermination()
		case "waitterm":
			eng.WaitForTermination()
		case "close":
			eng.Close()
		}
		return fmt.Sprintf("ok %d", time.Since(t0).Microseconds())
	case "sethook": // sethook <name> on|off : exercises the public SetHook API (a pass-through dispatch hook)
		instMu.Lock()
		eng := insts[a[0]]
		instMu.Unlock()
		if eng == nil {
			return "err no such instance"
		}
		if len(a) > 1 && a[1] == "on" {
			eng.SetHook(func(cmd string, args map[string]any) (bool, any, error) { return false, nil, nil })
		} else {
			eng.SetHook(nil)
		}
		return "ok"
	case "testclient": // testclient : the in-process test client API - a parent switched to RESP3, then an additional client; reports the Go types of the replies both get for HGETALL
		parent := redisemu.NewRedisTestClientResp2(nil)
		defer parent.Close()
		parent.ProcessCommand("HSET", "h", "f", "v")
		before := parent.AdditionalClient()
		parent.ProcessCommand("HELLO", "3")
		after := parent.AdditionalClient()
		shape := func(c redisemu.RedisTestClient) string {
			v := fmt.Sprintf("%#v", c.ProcessCommand("HGETALL", "h"))
			switch {
			case strings.Contains(v, "respMap"), strings.Contains(v, "respPairs"):
				return "map"
			case strings.Contains(v, "respArray"):
				return "array"
			}
			if len(v) > 60 {
				v = v[:60]
			}
			return "other:" + strings.ReplaceAll(v, " ", "_")
		}
		res := fmt.Sprintf("ok parent=%s made-before=%s made-after=%s", shape(parent), shape(before), shape(after))
		after.ProcessCommand("HELLO", "3")
		res += " made-after-own-hello3=" + shape(after)
		return res
	case "replyhook": // replyhook <name> : a dispatch hook (public SetHook API) that answers ECHO verif:<kind> with a Go value of that kind
		instMu.Lock()
		eng := insts[a[0]]
		instMu.Unlock()
		if eng == nil {
			return "err no such instance"
		}
		eng.SetHook(func(cmd string, args map[string]any) (bool, any, error) {
			if cmd != "echo" {
				return false, nil, nil
			}
			msg, _ := args["message"].(string)
			if !strings.HasPrefix(msg, "verif:") {
				return false, nil, nil
			}
			big1, _ := new(big.Int).SetString("123456789012345678901234567890", 10)
			switch msg[6:] {
			case "set3":
				return true, map[any]struct{}{"alpha": {}, "beta": {}, 7: {}}, nil
			case "set1":
				return true, map[any]struct{}{"only": {}}, nil
			case "set0":
				return true, map[any]struct{}{}, nil
			case "set-many":
				m := map[any]struct{}{}
				for i := 0; i < 40; i++ {
					m[fmt.Sprintf("m%02d", i)] = struct{}{}
				}
				return true, m, nil
			case "map-any":
				return true, map[any]any{"k1": "v1", 2: 2.5, "k3": true}, nil
			case "map-string-any":
				return true, map[string]any{"a": 1, "b": "two", "c": []any{1, "x", 2.25}}, nil
			case "map-string-string":
				return true, map[string]string{"f1": "v1", "f2": "v2", "": "empty"}, nil
			case "array-mixed":
				return true, []any{1, "two", 3.5, true, false, nil, big1, []any{"nested", map[any]struct{}{"s1": {}}}, map[string]any{"k": map[any]struct{}{"deep": {}}}}, nil
			case "double":
				return true, 0.1, nil
			case "double-int":
				return true, 3.0, nil
			case "bool":
				return true, true, nil
			case "bignum":
				return true, big1, nil
			case "ints":
				return true, []int{1, 2, 3}, nil
			case "strings":
				return true, []string{"a", "", "c"}, nil
			case "nil":
				return true, nil, nil
			case "int":
				return true, 42, nil
			case "string":
				return true, "plain", nil
			case "error":
				return false, nil, fmt.Errorf("refused by the hook")
			}
			return false, nil, nil
		})
		return "ok"
	case "forget":
		instMu.Lock()
		delete(insts, a[0])
		instMu.Unlock()
		return "ok"
	case "hookon":
		hookOn.Store(true)
		return "ok"
	case "hookoff":
		hookOn.Store(false)
		return "ok"
	case "seed":
		hookMu.Lock()
		rng = rand.New(rand.NewSource(int64(atoi(a[0]))))
		hookMu.Unlock()
		return "ok"
	case "park": // park <point> <id|-1> [once]
		hookMu.Lock()
		id, _ := strconv.ParseInt(a[1], 10, 64)
		parkRules = append(parkRules, parkRule{a[0], id, len(a) > 2 && a[2] == "once"})
		hookMu.Unlock()
		hookOn.Store(true)
		return "ok"
	case "unpark": // unpark <point> <id|-1>: remove rule (does not release anyone)
		hookMu.Lock()
		id, _ := strconv.ParseInt(a[1], 10, 64)
		n := parkRules[:0]
		for _, r := range parkRules {
			if !(r.point == a[0] && r.id == id) {
				n = append(n, r)
			}
		}
		parkRules = n
		hookMu.Unlock()
		return "ok"
	case "release": // release <token>
		tok, _ := strconv.ParseInt(a[0], 10, 64)
		hookMu.Lock()
		p := parkedTab[tok]
		delete(parkedTab, tok)
		hookMu.Unlock()
		if p == nil {
			return "err no such token"
		}
		close(p.ch)
		return "ok"
	case "releaseall":
		hookMu.Lock()
		parkRules = nil
		n := len(parkedTab)
		for t, p := range parkedTab {
			close(p.ch)
			delete(parkedTab, t)
		}
		hookMu.Unlock()
		return fmt.Sprintf("ok %d", n)
	case "yield": // yield <prefix> <permille> <maxUs>
		hookMu.Lock()
		yields = append(yields, yieldRule{a[0], atoi(a[1]), atoi(a[2])})
		hookMu.Unlock()
		hookOn.Store(true)
		return "ok"
	case "crashat": // crashat <point> <nth> [detail-substring]
		hookMu.Lock()
		c := &crashRule{point: a[0], nth: int64(atoi(a[1]))}
		if len(a) > 2 {
			c.substr = a[2]
		}
		crashes = append(crashes, c)
		hookMu.Unlock()
		hookOn.Store(true)
		return "ok"
	case "panicat": // panicat <point> <client id|-1> <detail> : the next goroutine reaching the point with this detail panics there
		hookMu.Lock()
		panicRules = append(panicRules, panicRule{point: a[0], id: int64(atoi(a[1])), substr: a[2]})
		hookMu.Unlock()
		hookOn.Store(true)
		return "ok"
	case "watch":
		hookMu.Lock()
		watches = append(watches, a[0])
		hookMu.Unlock()
		hookOn.Store(true)
		return "ok"
	case "record":
		hookMu.Lock()
		recordPfx = append(recordPfx, a[0])
		hookMu.Unlock()
		hookOn.Store(true)
		return "ok"
	case "records": // returns and clears recorded hits
		hookMu.Lock()
		rs := records
		records = nil
		hookMu.Unlock()
		var sb strings.Builder
		sb.WriteString("ok")
		for _, r := range rs {
			sb.WriteString(fmt.Sprintf(" %s|%d|%s", r.point, r.id, strings.ReplaceAll(r.detail, " ", "_")))
		}
		return sb.String()
	case "counts":
		hookMu.Lock()
		var sb strings.Builder
		sb.WriteString("ok")
		for k, v := range counts {
			sb.WriteString(fmt.Sprintf(" %s=%d", k, v))
		}
		hookMu.Unlock()
		return sb.String()
	case "clearhooks":
		hookMu.Lock()
		parkRules = nil
		crashes = nil
		yields = nil
		watches = nil
		recordPfx = nil
		records = nil
		for t, p := range parkedTab {
			close(p.ch)
			delete(parkedTab, t)
		}
		hookMu.Unlock()
		return "ok"
	case "goroutines":
		return fmt.Sprintf("ok %d", runtime.NumGoroutine())
	case "lockmonitor": // lockmonitor on|off|report
		switch a[0] {
		case "on":
			lockMonitor.Store(true)
			return "ok"
		case "off":
			lockMonitor.Store(false)
			return "ok"
		}
		lockMu.Lock()
		defer lockMu.Unlock()
		return fmt.Sprintf("ok %d %d %s", lockViolCount, lockSkips, strings.ReplaceAll(lockViolFirst, " ", "_"))
	case "emugoroutines": // goroutines with a frame of the emulator package: "ok <n> <top emulator frame of each, |-separated>"
		buf := make([]byte, 8<<20)
		buf = buf[:runtime.Stack(buf, true)]
		n := 0
		var tops []string
		for _, g := range strings.Split(string(buf), "\n\n") {
			if !strings.Contains(g, "github.com/jimsnab/go-redisemu.") {
				continue
			}
			n++
			for _, line := range strings.Split(g, "\n") {
				if i := strings.Index(line, "github.com/jimsnab/go-redisemu."); i >= 0 {
					f := line[i+len("github.com/jimsnab/go-redisemu."):]
					if j := strings.Index(f, "("); j > 0 && !strings.HasPrefix(f, "(") {
						f = f[:j]
					} else if j := strings.LastIndex(f, "("); j > 0 {
						f = f[:j]
					}
					tops = append(tops, strings.ReplaceAll(f, " ", ""))
					break
				}
			}
		}
		return fmt.Sprintf("ok %d %s", n, strings.Join(tops, "|"))
	case "rss":
		return fmt.Sprintf("ok %d", rssKiB())
	case "quit":
		emit("r 0 ok")
		os.Exit(0)
	}
	return "err unknown verb " + verb
}

func rssKiB() int64 {
	b, err := os.ReadFile("/proc/self/statm")
	if err != nil {
		return -1
	}
	f := strings.Fields(string(b))
	if len(f) < 2 {
		return -1
	}
	n, _ := strconv.ParseInt(f[1], 10, 64)
	return n * int64(os.Getpagesize()) / 1024
}
