// emuhost hosts the real emulator (built from /repo with -tags verif) in a
// child process and obeys a line protocol: commands "<seq> <verb> args..." on
// stdin, replies "r <seq> ok|err ..." and asynchronous events "e ..." on fd 3.
package main

import (
	"bufio"
	"fmt"
	"math/rand"
	"os"
	"runtime"
	"strconv"
	"strings"
	"sync"
	"sync/atomic"
	"syscall"
	"time"

	"github.com/jimsnab/go-lane"
	redisemu "github.com/jimsnab/go-redisemu"
)

var (
	outMu sync.Mutex
	out   *bufio.Writer
)

func emit(format string, a ...any) {
	outMu.Lock()
	fmt.Fprintf(out, format+"\n", a...)
	out.Flush()
	outMu.Unlock()
}

// ---- hook policy -----------------------------------------------------------

type parkRule struct {
	point string
	id    int64 // -1 = any
	once  bool
}

type parked struct {
	token int64
	ch    chan struct{}
}

type crashRule struct {
	point  string
	nth    int64
	substr string
	seen   int64
}

type yieldRule struct {
	prefix   string
	permille int
	maxUs    int
}

type record struct {
	point  string
	id     int64
	detail string
}

var (
	hookMu    sync.Mutex
	parkRules []parkRule
	parkedTab = map[int64]*parked{}
	tokenSeq  int64
	crashes   []*crashRule
	yields    []yieldRule
	watches   []string
	recordPfx []string
	records   []record
	counts    = map[string]int64{}
	rng       = rand.New(rand.NewSource(1))
	hookOn    atomic.Bool
)

// lock-discipline monitor: the data store mutex may be skipped (ds:lock-skipped) only while some command holds that
// data store exclusively (between ds:exclusive-acquired and ds:exclusive-released)
var (
	lockMonitor   atomic.Bool
	lockMu        sync.Mutex
	exclusiveHeld = map[string]int{}
	lockSkips     int64
	lockViolCount int64
	lockViolFirst string
)

func lockMonitorPoint(point string, id int64, detail string) {
	ds := detail
	if i := strings.Index(detail, "/"); i >= 0 {
		ds = detail[:i]
	}
	lockMu.Lock()
	defer lockMu.Unlock()
	switch point {
	case "ds:exclusive-acquired":
		exclusiveHeld[ds]++
	case "ds:exclusive-released":
		exclusiveHeld[ds]--
	case "ds:lock-skipped":
		lockSkips++
		if exclusiveHeld[ds] <= 0 {
			lockViolCount++
			if lockViolFirst == "" {
				buf := make([]byte, 6000)
				buf = buf[:runtime.Stack(buf, false)]
				lockViolFirst = fmt.Sprintf("command id %d skipped the mutex of data store %s while nobody held that data store exclusively; stack: %s", id, ds, strings.ReplaceAll(strings.ReplaceAll(string(buf), "\n", " <- "), "\t", ""))
			}
		}
	}
}

func hook(point string, id int64, detail string) {
	if lockMonitor.Load() && strings.HasPrefix(point, "ds:") && point != "ds:before-lock" && point != "ds:after-unlock" {
		lockMonitorPoint(point, id, detail)
	}
	if !hookOn.Load() {
		return
	}
	var wait chan struct{}
	var sleepUs int
	var token int64
	hookMu.Lock()
	counts[point]++
	for _, p := range recordPfx {
		if strings.HasPrefix(point, p) {
			if len(records) < 2000000 {
				records = append(records, record{point, id, detail})
			}
			break
		}
	}
	for _, c := range crashes {
		if c.point == point && (c.substr == "" || strings.Contains(detail, c.substr)) {
			c.seen++
			if c.seen == c.nth {
				emitLocked := fmt.Sprintf("e crash %s %d %s", point, id, strconv.Quote(detail))
				hookMu.Unlock()
				emit("%s", emitLocked)
				syscall.Kill(os.Getpid(), syscall.SIGKILL)
				select {}
			}
		}
	}
	watched := false
	for _, w := range watches {
		if strings.HasPrefix(point, w) {
			watched = true
			break
		}
	}
	for i, r := range parkRules {
		if r.point == point && (r.id == -1 || r.id == id) {
			tokenSeq++
			token = tokenSeq
			wait = make(chan struct{})
			parkedTab[token] = &parked{token, wait}
			if r.once {
				parkRules = append(parkRules[:i], parkRules[i+1:]...)
			}
			break
		}
	}
	if wait == nil {
		for _, y := range yields {
			if strings.HasPrefix(point, y.prefix) {
				if rng.Intn(1000) < y.permille {
					sleepUs = rng.Intn(y.maxUs + 1)
					if sleepUs == 0 {
						sleepUs = -1
					}
				}
				break
			}
		}
	}
	hookMu.Unlock()
	if watched {
		emit("e hit %s %d %s", point, id, strconv.Quote(detail))
	}
	if wait != nil {
		emit("e parked %d %s %d %s", token, point, id, strconv.Quote(detail))
		<-wait
		return
	}
	if sleepUs > 0 {
		time.Sleep(time.Duration(sleepUs) * time.Microsecond)
	} else if sleepUs < 0 {
		runtime.Gosched()
	}
}

// ---- instances ---------------------------------------------------------------

var (
	instMu sync.Mutex
	insts  = map[string]*redisemu.RedisEmu{}
)

func main() {
	ctl := os.NewFile(3, "ctl")
	if ctl == nil {
		fmt.Fprintln(os.Stderr, "emuhost: fd 3 missing")
		os.Exit(2)
	}
	out = bufio.NewWriter(ctl)
	redisemu.VerifSetHook(hook)
	emit("e ready %d", os.Getpid())

	in := bufio.NewReaderSize(os.Stdin, 1<<20)
	for {
		lineStr, err := in.ReadString('\n')
		if err != nil {
			os.Exit(0) // parent went away
		}
		f := strings.Fields(strings.TrimSpace(lineStr))
		if len(f) < 2 {
			continue
		}
		seq, verb, args := f[0], f[1], f[2:]
		// lifecycle verbs may block (WaitForTermination) -> run them on their own goroutine
		go func() {
			res := handle(verb, args)
			emit("r %s %s", seq, res)
		}()
	}
}

func atoi(s string) int {
	n, _ := strconv.Atoi(s)
	return n
}

func handle(verb string, a []string) string {
	defer func() {
		// a panic in the emulator's API on this goroutine must kill the process like it would a user's test
	}()
	switch verb {
	case "ping":
		return "ok"
	case "start": // start <name> <port> [persistBase]
		if len(a) < 2 {
			return "err usage"
		}
		persist := ""
		if len(a) > 2 {
			persist = a[2]
		}
		l := lane.NewNullLane(nil)
		eng, err := redisemu.NewEmulator(l, atoi(a[1]), "", persist, nil)
		if err != nil {
			return "err " + err.Error()
		}
		eng.Start()
		instMu.Lock()
		insts[a[0]] = eng
		instMu.Unlock()
		return "ok"
	case "newserver": // newserver <name> <port>  (test-server-simple.go API)
		eng := redisemu.NewServer(nil, atoi(a[1]))
		instMu.Lock()
		insts[a[0]] = eng
		instMu.Unlock()
		return "ok"
	case "reqterm", "waitterm", "close":
		instMu.Lock()
		eng := insts[a[0]]
		instMu.Unlock()
		if eng == nil {
			return "err no such instance"
		}
		t0 := time.Now()
		switch verb {
		case "reqterm":
			eng.RequestTermination()
		case "waitterm":
			eng.WaitForTermination()
		case "close":
			eng.Close()
		}
		return fmt.Sprintf("ok %d", time.Since(t0).Microseconds())
	case "sethook": // sethook <name> on|off : exercises the public SetHook API (a pass-through dispatch hook)
		instMu.Lock()
		eng := insts[a[0]]
		instMu.Unlock()
		if eng == nil {
			return "err no such instance"
		}
		if len(a) > 1 && a[1] == "on" {
			eng.SetHook(func(cmd string, args map[string]any) (bool, any, error) { return false, nil, nil })
		} else {
			eng.SetHook(nil)
		}
		return "ok"
	case "forget":
		instMu.Lock()
		delete(insts, a[0])
		instMu.Unlock()
		return "ok"
	case "hookon":
		hookOn.Store(true)
		return "ok"
	case "hookoff":
		hookOn.Store(false)
		return "ok"
	case "seed":
		hookMu.Lock()
		rng = rand.New(rand.NewSource(int64(atoi(a[0]))))
		hookMu.Unlock()
		return "ok"
	case "park": // park <point> <id|-1> [once]
		hookMu.Lock()
		id, _ := strconv.ParseInt(a[1], 10, 64)
		parkRules = append(parkRules, parkRule{a[0], id, len(a) > 2 && a[2] == "once"})
		hookMu.Unlock()
		hookOn.Store(true)
		return "ok"
	case "unpark": // unpark <point> <id|-1>: remove rule (does not release anyone)
		hookMu.Lock()
		id, _ := strconv.ParseInt(a[1], 10, 64)
		n := parkRules[:0]
		for _, r := range parkRules {
			if !(r.point == a[0] && r.id == id) {
				n = append(n, r)
			}
		}
		parkRules = n
		hookMu.Unlock()
		return "ok"
	case "release": // release <token>
		tok, _ := strconv.ParseInt(a[0], 10, 64)
		hookMu.Lock()
		p := parkedTab[tok]
		delete(parkedTab, tok)
		hookMu.Unlock()
		if p == nil {
			return "err no such token"
		}
		close(p.ch)
		return "ok"
	case "releaseall":
		hookMu.Lock()
		parkRules = nil
		n := len(parkedTab)
		for t, p := range parkedTab {
			close(p.ch)
			delete(parkedTab, t)
		}
		hookMu.Unlock()
		return fmt.Sprintf("ok %d", n)
	case "yield": // yield <prefix> <permille> <maxUs>
		hookMu.Lock()
		yields = append(yields, yieldRule{a[0], atoi(a[1]), atoi(a[2])})
		hookMu.Unlock()
		hookOn.Store(true)
		return "ok"
	case "crashat": // crashat <point> <nth> [detail-substring]
		hookMu.Lock()
		c := &crashRule{point: a[0], nth: int64(atoi(a[1]))}
		if len(a) > 2 {
			c.substr = a[2]
		}
		crashes = append(crashes, c)
		hookMu.Unlock()
		hookOn.Store(true)
		return "ok"
	case "watch":
		hookMu.Lock()
		watches = append(watches, a[0])
		hookMu.Unlock()
		hookOn.Store(true)
		return "ok"
	case "record":
		hookMu.Lock()
		recordPfx = append(recordPfx, a[0])
		hookMu.Unlock()
		hookOn.Store(true)
		return "ok"
	case "records": // returns and clears recorded hits
		hookMu.Lock()
		rs := records
		records = nil
		hookMu.Unlock()
		var sb strings.Builder
		sb.WriteString("ok")
		for _, r := range rs {
			sb.WriteString(fmt.Sprintf(" %s|%d|%s", r.point, r.id, strings.ReplaceAll(r.detail, " ", "_")))
		}
		return sb.String()
	case "counts":
		hookMu.Lock()
		var sb strings.Builder
		sb.WriteString("ok")
		for k, v := range counts {
			sb.WriteString(fmt.Sprintf(" %s=%d", k, v))
		}
		hookMu.Unlock()
		return sb.String()
	case "clearhooks":
		hookMu.Lock()
		parkRules = nil
		crashes = nil
		yields = nil
		watches = nil
		recordPfx = nil
		records = nil
		for t, p := range parkedTab {
			close(p.ch)
			delete(parkedTab, t)
		}
		hookMu.Unlock()
		return "ok"
	case "goroutines":
		return fmt.Sprintf("ok %d", runtime.NumGoroutine())
	case "lockmonitor": // lockmonitor on|off|report
		switch a[0] {
		case "on":
			lockMonitor.Store(true)
			return "ok"
		case "off":
			lockMonitor.Store(false)
			return "ok"
		}
		lockMu.Lock()
		defer lockMu.Unlock()
		return fmt.Sprintf("ok %d %d %s", lockViolCount, lockSkips, strings.ReplaceAll(lockViolFirst, " ", "_"))
	case "emugoroutines": // goroutines with a frame of the emulator package: "ok <n> <top emulator frame of each, |-separated>"
		buf := make([]byte, 8<<20)
		buf = buf[:runtime.Stack(buf, true)]
		n := 0
		var tops []string
		for _, g := range strings.Split(string(buf), "\n\n") {
			if !strings.Contains(g, "github.com/jimsnab/go-redisemu.") {
				continue
			}
			n++
			for _, line := range strings.Split(g, "\n") {
				if i := strings.Index(line, "github.com/jimsnab/go-redisemu."); i >= 0 {
					f := line[i+len("github.com/jimsnab/go-redisemu."):]
					if j := strings.Index(f, "("); j > 0 && !strings.HasPrefix(f, "(") {
						f = f[:j]
					} else if j := strings.LastIndex(f, "("); j > 0 {
						f = f[:j]
					}
					tops = append(tops, strings.ReplaceAll(f, " ", ""))
					break
				}
			}
		}
		return fmt.Sprintf("ok %d %s", n, strings.Join(tops, "|"))
	case "rss":
		return fmt.Sprintf("ok %d", rssKiB())
	case "quit":
		emit("r 0 ok")
		os.Exit(0)
	}
	return "err unknown verb " + verb
}

func rssKiB() int64 {
	b, err := os.ReadFile("/proc/self/statm")
	if err != nil {
		return -1
	}
	f := strings.Fields(string(b))
	if len(f) < 2 {
		return -1
	}
	n, _ := strconv.ParseInt(f[1], 10, 64)
	return n * int64(os.Getpagesize()) / 1024
}
