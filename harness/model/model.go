// Package model is an executable, single-threaded reference model of the
// Redis 7 semantics of the commands the emulator implements. It is the oracle
// of the differential checks; corners where Redis behaviour is version
// dependent or uncertain are returned as "unspecified" (no reply verdict).
package model

import (
	"fmt"
	"regexp"
	"sort"
	"strconv"
	"strings"

	"verif/harness/resp"
)

type Type int

const (
	TNone Type = iota
	TString
	TList
	THash
	TSet
)

func (t Type) String() string {
	return [...]string{"none", "string", "list", "hash", "set"}[t]
}

type Obj struct {
	T   Type
	S   []byte
	L   [][]byte
	H   map[string]string
	Set map[string]struct{}
	// The deadline (absolute Unix ms; 0 = none) is known as an interval: a relative TTL is added to the
	// server's clock at some moment between the client's send and receive times of that command.
	Deadline   int64 // earliest possible deadline
	DeadlineHi int64 // latest possible deadline
}

func (o *Obj) clone() *Obj {
	n := &Obj{T: o.T, Deadline: o.Deadline, DeadlineHi: o.DeadlineHi}
	switch o.T {
	case TString:
		n.S = append([]byte{}, o.S...)
	case TList:
		n.L = make([][]byte, len(o.L))
		for i, e := range o.L {
			n.L[i] = append([]byte{}, e...)
		}
	case THash:
		n.H = make(map[string]string, len(o.H))
		for k, v := range o.H {
			n.H[k] = v
		}
	case TSet:
		n.Set = make(map[string]struct{}, len(o.Set))
		for k := range o.Set {
			n.Set[k] = struct{}{}
		}
	}
	return n
}

// Model is the state of one emulator: 16 databases.
type Model struct {
	DB  [16]map[string]*Obj
	Ver [16]map[string]uint64 // modification counters (for WATCH)
	ver uint64
	// Dumps: values by the DUMP payload the system under test produced for them (the payload format is not modelled:
	// the driver registers what DUMP returned, RESTORE looks it up). Shared between clones, entries are never changed.
	Dumps map[string]*Obj
}

func New() *Model {
	m := &Model{Dumps: map[string]*Obj{}}
	for i := range m.DB {
		m.DB[i] = map[string]*Obj{}
		m.Ver[i] = map[string]uint64{}
	}
	return m
}

func (m *Model) Clone() *Model {
	n := &Model{ver: m.ver, Dumps: m.Dumps}
	for i := range m.DB {
		n.DB[i] = make(map[string]*Obj, len(m.DB[i]))
		for k, o := range m.DB[i] {
			n.DB[i][k] = o.clone()
		}
		n.Ver[i] = make(map[string]uint64, len(m.Ver[i]))
		for k, v := range m.Ver[i] {
			n.Ver[i][k] = v
		}
	}
	return n
}

type watchKey struct {
	db  int
	key string
}

// Session is the per-connection state.
type Session struct {
	DB      int
	Proto   int
	Name    string
	InMulti bool
	Queue   [][]string
	Dirty   bool // a command was rejected while queueing
	Watches map[watchKey]uint64
	WatchEx map[watchKey]bool // key existed when watched
	// LastAbort explains the last EXEC abort when every changed watched key was missing both at WATCH and at EXEC
	LastAbort string
}

func NewSession() *Session {
	return &Session{Proto: 2, Watches: map[watchKey]uint64{}, WatchEx: map[watchKey]bool{}}
}

func (s *Session) Clone() *Session {
	n := *s
	n.Queue = append([][]string{}, s.Queue...)
	n.Watches = map[watchKey]uint64{}
	for k, v := range s.Watches {
		n.Watches[k] = v
	}
	n.WatchEx = map[watchKey]bool{}
	for k, v := range s.WatchEx {
		n.WatchEx[k] = v
	}
	return &n
}

// Exp is an expectation about one reply.
type Exp struct {
	Unspec   bool       // no verdict on the reply
	ReadOnly bool       // with Unspec: the command cannot have changed the state (no resync needed)
	Val      resp.Value // expected value in RESP2 shape
	Multiset bool       // Val.Elems compared as a multiset
	Pairs    bool       // Val.Elems is a flat k,v list compared as a set of pairs
	Float    bool       // string reply compared numerically
	Err      string     // expected error class; "*" = any error
	Pred     func(got resp.Value) string
	Note     string
	subExps  []Exp
	// DumpOf: the reply is the DUMP payload of this value (snapshot taken when the command ran)
	DumpOf *Obj
}

// RegisterDumps records the payloads the system under test returned for DUMP commands (also inside an EXEC reply).
func (m *Model) RegisterDumps(e Exp, got resp.Value) {
	if e.DumpOf != nil && (got.Kind == '$' || got.Kind == '=') && !got.Null {
		m.Dumps[string(got.Str)] = e.DumpOf
	}
	if len(e.subExps) > 0 && got.Kind == '*' && len(got.Elems) == len(e.subExps) {
		for i := range e.subExps {
			m.RegisterDumps(e.subExps[i], got.Elems[i])
		}
	}
}

// SubExps returns the per-command expectations of an EXEC reply.
func (e Exp) SubExps() []Exp { return e.subExps }

// ---- expectation constructors -------------------------------------------------

var humanFloatRe = regexp.MustCompile(`^-?(0|[1-9][0-9]*)(\.[0-9]*[1-9])?$`)

// HumanFloat: the form in which Redis prints the result of INCRBYFLOAT / HINCRBYFLOAT (and stores it): plain decimal
// digits, no exponent, no trailing zeros, no trailing point.
func HumanFloat(s string) bool { return humanFloatRe.MatchString(s) }

func Unspecified(note string) Exp { return Exp{Unspec: true, Note: note} }
func UnspecRO(note string) Exp    { return Exp{Unspec: true, ReadOnly: true, Note: note} }
func ErrExp(class string) Exp     { return Exp{Err: class} }
func AnyErr() Exp                 { return Exp{Err: "*"} }
func Val(v resp.Value) Exp        { return Exp{Val: v} }
func OK() Exp                     { return Val(Simple("OK")) }
func IntExp(n int64) Exp          { return Val(Int(n)) }
func NilExp() Exp                 { return Val(Nil()) }
func BulkExp(s string) Exp        { return Val(Bulk(s)) }

func Simple(s string) resp.Value { return resp.Value{Kind: '+', Str: []byte(s)} }
func Bulk(s string) resp.Value   { return resp.Value{Kind: '$', Str: []byte(s)} }
func Int(n int64) resp.Value     { return resp.Value{Kind: ':', Int: n} }
func Nil() resp.Value            { return resp.Value{Kind: '$', Null: true} }
func Arr(e ...resp.Value) resp.Value {
	if e == nil {
		e = []resp.Value{}
	}
	return resp.Value{Kind: '*', Elems: e}
}
func BulkArr(ss []string) resp.Value {
	e := make([]resp.Value, len(ss))
	for i, s := range ss {
		e[i] = Bulk(s)
	}
	return Arr(e...)
}

// Down converts a (possibly RESP3) reply to its canonical RESP2 shape.
func Down(v resp.Value) resp.Value {
	if v.Null {
		return Nil()
	}
	switch v.Kind {
	case '_':
		return Nil()
	case '#':
		return Int(v.Int)
	case ',', '(':
		return Bulk(string(v.Str))
	case '=':
		return Bulk(v.Text())
	case '!':
		return resp.Value{Kind: '-', Str: v.Str}
	case '%', '~', '*', '>':
		out := resp.Value{Kind: '*', Elems: make([]resp.Value, len(v.Elems))}
		for i, e := range v.Elems {
			out.Elems[i] = Down(e)
		}
		return out
	}
	return v
}

// Match compares a reply of the system under test with the expectation.
// Returns "" when it matches, else a description.
func Match(e Exp, got resp.Value) string {
	if e.Unspec {
		return ""
	}
	g := Down(got)
	if e.Err != "" {
		if !g.IsError() {
			return "expected an error (" + e.Err + "), got " + g.String()
		}
		if e.Err != "*" && g.ErrClass() != e.Err {
			return "expected error class " + e.Err + ", got " + g.String()
		}
		return ""
	}
	if e.Pred != nil {
		return e.Pred(g)
	}
	if g.IsError() {
		return "expected " + e.Val.String() + ", got " + g.String()
	}
	if e.Float {
		if !g.IsString() {
			return "expected a number string, got " + g.String()
		}
		a, err1 := strconv.ParseFloat(e.Val.Text(), 64)
		b, err2 := strconv.ParseFloat(g.Text(), 64)
		if err1 != nil || err2 != nil || a != b {
			return "expected number " + e.Val.Text() + ", got " + g.String()
		}
		if !HumanFloat(g.Text()) {
			return "expected the number in Redis's plain decimal form (" + e.Val.Text() + "), got " + g.String()
		}
		return ""
	}
	if e.Multiset || e.Pairs {
		if g.Null || g.Kind != '*' {
			return "expected array " + e.Val.String() + ", got " + g.String()
		}
		a, b := e.Val.Elems, g.Elems
		if len(a) != len(b) {
			return "expected " + strconv.Itoa(len(a)) + " elements " + e.Val.String() + ", got " + g.String()
		}
		var ka, kb []string
		if e.Pairs {
			if len(b)%2 != 0 {
				return "odd number of elements in pair list " + g.String()
			}
			for i := 0; i+1 < len(a); i += 2 {
				ka = append(ka, a[i].Canon()+"="+a[i+1].Canon())
				kb = append(kb, b[i].Canon()+"="+b[i+1].Canon())
			}
		} else {
			for i := range a {
				ka = append(ka, a[i].Canon())
				kb = append(kb, b[i].Canon())
			}
		}
		sort.Strings(ka)
		sort.Strings(kb)
		for i := range ka {
			if ka[i] != kb[i] {
				return "expected (any order) " + e.Val.String() + ", got " + g.String()
			}
		}
		return ""
	}
	if e.Val.Canon() != g.Canon() {
		return "expected " + e.Val.String() + ", got " + g.String()
	}
	// distinguish integer from string (Canon already does) and nil from empty
	return ""
}

// Class is a coarse class of a reply used in divergence signatures.
func Class(v resp.Value) string {
	v = Down(v)
	switch {
	case v.IsError():
		return "err:" + v.ErrClass()
	case v.Null:
		return "nil"
	case v.Kind == ':':
		return "int"
	case v.Kind == '*':
		if len(v.Elems) == 0 {
			return "arr0"
		}
		return "arr"
	case v.Kind == '+':
		return "status"
	}
	return "str"
}

func (e Exp) Class() string {
	switch {
	case e.Unspec:
		return "unspec"
	case e.Err != "":
		return "err:" + e.Err
	case e.Pred != nil:
		return "pred"
	}
	return Class(e.Val)
}

func (e Exp) String() string {
	switch {
	case e.Unspec:
		return "(unspecified: " + e.Note + ")"
	case e.Err != "":
		return "error " + e.Err
	case e.Pred != nil:
		return "(predicate: " + e.Note + ")"
	}
	s := e.Val.String()
	if e.Multiset {
		s += " (any order)"
	}
	if e.Pairs {
		s += " (pairs, any order)"
	}
	return s
}

// ---- state access ---------------------------------------------------------------

// Ctx is the evaluation context of one command.
type Ctx struct {
	M *Model
	S *Session
	// The command executed on the server at some moment in [Now, NowHi] (client send / receive time, Unix ms).
	Now   int64
	NowHi int64
	// Ambig is set when the outcome depends on where in that interval a deadline falls.
	Ambig bool
}

// Gran is the clock granularity (ms) within which a deadline comparison is not decidable. (It was 3 until a quick run
// reported a PTTL 4 ms above what the harness's wall-clock stamps allow: the emulator measures remaining time on the
// monotonic clock, the harness stamps wall-clock milliseconds, and the two drift apart by a few ms when the VM's clock
// is adjusted.)
const Gran = 8

func (c *Ctx) db() map[string]*Obj { return c.M.DB[c.S.DB] }

// get returns the live object (nil when missing or expired; an expired
// object is removed). When the deadline falls inside the command's time
// interval the outcome is ambiguous: Ambig is set and the key is treated as alive.
func (c *Ctx) get(key string) *Obj {
	o, amb := c.M.GetI(c.S.DB, key, c.Now, c.NowHi)
	if amb {
		c.Ambig = true
	}
	return o
}

// GetI looks a key up as seen by an observation made in [lo, hi].
func (m *Model) GetI(db int, key string, lo, hi int64) (o *Obj, ambiguous bool) {
	o = m.DB[db][key]
	if o == nil {
		return nil, false
	}
	if o.Deadline == 0 {
		return o, false
	}
	if o.DeadlineHi+Gran <= lo {
		delete(m.DB[db], key)
		m.touch(db, key)
		return nil, false
	}
	if o.Deadline-Gran > hi {
		return o, false
	}
	return o, true
}

// Get is GetI for a point in time; an ambiguous key is reported as alive.
func (m *Model) Get(db int, key string, now int64) *Obj {
	o, _ := m.GetI(db, key, now, now)
	return o
}

func (m *Model) touch(db int, key string) {
	m.ver++
	m.Ver[db][key] = m.ver
}

func (c *Ctx) touch(key string) { c.M.touch(c.S.DB, key) }

// Touch records a modification of the key that the model did not perform itself (the caller adopted the state of the
// system under test): sessions watching the key must see it as changed.
func (m *Model) Touch(db int, key string) { m.touch(db, key) }

func (c *Ctx) set(key string, o *Obj) {
	c.db()[key] = o
	c.touch(key)
}

func (c *Ctx) del(key string) bool {
	if c.get(key) == nil {
		return false
	}
	delete(c.db(), key)
	c.touch(key)
	return true
}

// dropIfEmpty removes an aggregate that became empty.
func (c *Ctx) dropIfEmpty(key string, o *Obj) {
	empty := false
	switch o.T {
	case TList:
		empty = len(o.L) == 0
	case THash:
		empty = len(o.H) == 0
	case TSet:
		empty = len(o.Set) == 0
	}
	if empty {
		delete(c.db(), key)
	}
}

// Keys returns the live keys of a database, sorted.
func (m *Model) Keys(db int, now int64) []string {
	var ks []string
	for k := range m.DB[db] {
		if m.Get(db, k, now) != nil {
			ks = append(ks, k)
		}
	}
	sort.Strings(ks)
	return ks
}

// ---- argument helpers -------------------------------------------------------------

// parseInt parses a Redis integer argument (canonical decimal int64).
func parseInt(s string) (int64, bool) {
	if s == "" || len(s) > 20 {
		return 0, false
	}
	n, err := strconv.ParseInt(s, 10, 64)
	if err != nil {
		return 0, false
	}
	// Redis string2ll rejects leading '+', leading zeros, spaces
	if strconv.FormatInt(n, 10) != s {
		return 0, false
	}
	return n, true
}

// looseInt reports whether Go would parse s although Redis would not
// ("+1", "01", "-0"): those arguments make the reply unspecified.
func looseInt(s string) bool {
	if _, ok := parseInt(s); ok {
		return false
	}
	_, err := strconv.ParseInt(s, 10, 64)
	return err == nil
}

func upper(s string) string { return strings.ToUpper(s) }

type handler func(c *Ctx, a []string) Exp

var handlers = map[string]handler{}

// arity: positive = exact number of args incl. command name, negative = at least
var arity = map[string]int{}

func reg(name string, ar int, h handler) {
	handlers[name] = h
	arity[name] = ar
}

// Known reports whether the model covers the command.
func Known(name string) bool {
	_, ok := handlers[strings.ToLower(name)]
	return ok
}

// Names returns the covered command names.
func Names() []string {
	var out []string
	for k := range handlers {
		out = append(out, k)
	}
	sort.Strings(out)
	return out
}

// Apply evaluates one command (outside or inside MULTI handling; see tx.go)
// and returns the expectation for its reply.
func (m *Model) Apply(s *Session, args []string, now int64) Exp {
	e, _ := m.ApplyI(s, args, now, now)
	return e
}

// ApplyI evaluates a command that the server executed at some moment in [lo, hi].
// ambiguous reports that the expectation depends on a deadline inside that interval
// (no verdict must be drawn; the caller resynchronises the model).
func (m *Model) ApplyI(s *Session, args []string, lo, hi int64) (e Exp, ambiguous bool) {
	c := &Ctx{M: m, S: s, Now: lo, NowHi: hi}
	defer func() {
		if r := recover(); r != nil {
			// a bug in the model must never look like a verdict about the SUT
			ModelPanics = append(ModelPanics, strings.Join(args, " ")+": "+fmt.Sprint(r))
			e, ambiguous = Unspecified("model panic"), false
		}
	}()
	e = c.dispatch(args)
	return e, c.Ambig
}

// ModelPanics collects panics inside the model (a check that sees any must fail as undecided).
var ModelPanics []string

func (c *Ctx) exec(args []string) Exp {
	name := strings.ToLower(args[0])
	h := handlers[name]
	if h == nil {
		return ErrExp("ERR")
	}
	ar := arity[name]
	if (ar > 0 && len(args) != ar) || (ar < 0 && len(args) < -ar) {
		return ErrExp("ERR")
	}
	return h(c, args[1:])
}

func wrongType() Exp { return ErrExp("WRONGTYPE") }

// EncodeDB returns a canonical string of one database (used as porcupine state; deadlines are not encoded).
func (m *Model) EncodeDB(db int) string {
	keys := make([]string, 0, len(m.DB[db]))
	for k := range m.DB[db] {
		keys = append(keys, k)
	}
	sort.Strings(keys)
	var b strings.Builder
	for _, k := range keys {
		o := m.DB[db][k]
		b.WriteString(fmt.Sprintf("%q:", k))
		switch o.T {
		case TString:
			b.WriteString(fmt.Sprintf("s%q", o.S))
		case TList:
			b.WriteString("l[")
			for _, e := range o.L {
				b.WriteString(fmt.Sprintf("%q,", e))
			}
			b.WriteString("]")
		case THash:
			fs := make([]string, 0, len(o.H))
			for f := range o.H {
				fs = append(fs, f)
			}
			sort.Strings(fs)
			b.WriteString("h{")
			for _, f := range fs {
				b.WriteString(fmt.Sprintf("%q=%q,", f, o.H[f]))
			}
			b.WriteString("}")
		case TSet:
			ms := make([]string, 0, len(o.Set))
			for mm := range o.Set {
				ms = append(ms, mm)
			}
			sort.Strings(ms)
			b.WriteString("t{")
			for _, mm := range ms {
				b.WriteString(fmt.Sprintf("%q,", mm))
			}
			b.WriteString("}")
		}
		b.WriteString(";")
	}
	return b.String()
}
