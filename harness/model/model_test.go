package model

import (
	"strings"
	"testing"

	"verif/harness/resp"
)

type tm struct {
	t *testing.T
	m *Model
	s *Session
}

func newTM(t *testing.T) *tm { return &tm{t, New(), NewSession()} }

// expect runs a command (space separated; use \x00-free args) and matches the literal reply.
func (x *tm) expect(cmd []string, want resp.Value) {
	x.t.Helper()
	e := x.m.Apply(x.s, cmd, 1_700_000_000_000)
	if why := Match(e, want); why != "" {
		x.t.Fatalf("%s: model expects %s; documented reply %s: %s", strings.Join(cmd, " "), e, want, why)
	}
}

func f(s string) []string { return strings.Fields(s) }

func ints(n ...int64) resp.Value {
	e := make([]resp.Value, len(n))
	for i, v := range n {
		e[i] = Int(v)
	}
	return Arr(e...)
}

func TestDocExamplesStrings(t *testing.T) {
	x := newTM(t)
	x.expect([]string{"SET", "mykey", "This is a string"}, Simple("OK"))
	x.expect(f("GETRANGE mykey 0 3"), Bulk("This"))
	x.expect(f("GETRANGE mykey -3 -1"), Bulk("ing"))
	x.expect(f("GETRANGE mykey 0 -1"), Bulk("This is a string"))
	x.expect(f("GETRANGE mykey 10 100"), Bulk("string"))
	x.expect(f("GETRANGE mykey 5 2"), Bulk(""))
	x.expect(f("SETRANGE key2 6 Redis"), Int(11))
	x.expect(f("GET key2"), Bulk("\x00\x00\x00\x00\x00\x00Redis"))
	x.expect([]string{"SET", "key1", "Hello World"}, Simple("OK"))
	x.expect(f("SETRANGE key1 6 Redis"), Int(11))
	x.expect(f("GET key1"), Bulk("Hello Redis"))
	x.expect(f("SET n 10"), Simple("OK"))
	x.expect(f("INCRBY n 5"), Int(15))
	x.expect(f("DECRBY n 20"), Int(-5))
	x.expect(f("SET big 9223372036854775807"), Simple("OK"))
	x.expect(f("INCR big"), resp.Value{Kind: '-', Str: []byte("ERR increment or decrement would overflow")})
	x.expect(f("SET fl 10.50"), Simple("OK"))
	x.expect(f("INCRBYFLOAT fl 0.1"), Bulk("10.6"))
	x.expect(f("INCRBYFLOAT fl -5"), Bulk("5.6"))
	x.expect(f("SET e 5.0e3"), Simple("OK"))
	x.expect(f("INCRBYFLOAT e 2.0e2"), Bulk("5200"))
	x.expect(f("MSETNX a 1 b 2"), Int(1))
	x.expect(f("MSETNX b 3 c 4"), Int(0))
	x.expect(f("MGET a b c"), Arr(Bulk("1"), Bulk("2"), Nil()))
	x.expect(f("SET k1 ohmytext"), Simple("OK"))
	x.expect(f("SET k2 mynewtext"), Simple("OK"))
	x.expect(f("LCS k1 k2"), Bulk("mytext"))
	x.expect(f("LCS k1 k2 LEN"), Int(6))
	x.expect(f("LCS k1 k2 IDX"), Arr(Bulk("matches"), Arr(Arr(ints(4, 7), ints(5, 8)), Arr(ints(2, 3), ints(0, 1))), Bulk("len"), Int(6)))
	x.expect(f("LCS k1 k2 IDX MINMATCHLEN 4"), Arr(Bulk("matches"), Arr(Arr(ints(4, 7), ints(5, 8))), Bulk("len"), Int(6)))
	x.expect(f("LCS k1 k2 IDX MINMATCHLEN 4 WITHMATCHLEN"), Arr(Bulk("matches"), Arr(Arr(ints(4, 7), ints(5, 8), Int(4))), Bulk("len"), Int(6)))
}

func TestDocExamplesLists(t *testing.T) {
	x := newTM(t)
	x.expect(f("RPUSH mylist a b c d 1 2 3 4 3 3 3"), Int(11))
	x.expect(f("LPOS mylist 3"), Int(6))
	x.expect(f("LPOS mylist 3 COUNT 0 RANK 2"), ints(8, 9, 10))
	x.expect(f("LPOS mylist 3 RANK -1"), Int(10))
	x.expect(f("LPOS mylist 3 RANK -1 COUNT 2"), ints(10, 9))
	x.expect(f("LPOS mylist c COUNT 2"), ints(2))
	x.expect(f("LPOS mylist x"), Nil())
	x.expect(f("LPOS mylist 3 MAXLEN 5"), Nil())
	x.expect(f("RPUSH l2 hello hello foo hello"), Int(4))
	x.expect(f("LREM l2 -2 hello"), Int(2))
	x.expect(f("LRANGE l2 0 -1"), BulkArr([]string{"hello", "foo"}))
	x.expect(f("RPUSH l3 one two three"), Int(3))
	x.expect(f("LTRIM l3 1 -1"), Simple("OK"))
	x.expect(f("LRANGE l3 0 -1"), BulkArr([]string{"two", "three"}))
	x.expect(f("LINSERT l3 BEFORE three There"), Int(3))
	x.expect(f("LRANGE l3 -100 100"), BulkArr([]string{"two", "There", "three"}))
	x.expect(f("LPUSH l4 a b c"), Int(3))
	x.expect(f("LRANGE l4 0 -1"), BulkArr([]string{"c", "b", "a"}))
	x.expect(f("LMOVE l4 l4 LEFT RIGHT"), Bulk("c"))
	x.expect(f("LRANGE l4 0 -1"), BulkArr([]string{"b", "a", "c"}))
	x.expect(f("LMPOP 2 non1 l4 LEFT COUNT 10"), Arr(Bulk("l4"), BulkArr([]string{"b", "a", "c"})))
	x.expect(f("EXISTS l4"), Int(0))
	x.expect(f("LPOP l4 2"), resp.Value{Kind: '*', Null: true})
	x.expect(f("RPUSH l5 one two three four five"), Int(5))
	x.expect(f("LPOP l5"), Bulk("one"))
	x.expect(f("LPOP l5 2"), BulkArr([]string{"two", "three"}))
	x.expect(f("LSET l5 -1 x"), Simple("OK"))
	x.expect(f("LINDEX l5 1"), Bulk("x"))
	x.expect(f("LINDEX l5 2"), Nil())
}

func TestDocExamplesBits(t *testing.T) {
	x := newTM(t)
	x.expect(f("SET mykey foobar"), Simple("OK"))
	x.expect(f("BITCOUNT mykey"), Int(26))
	x.expect(f("BITCOUNT mykey 0 0"), Int(4))
	x.expect(f("BITCOUNT mykey 1 1"), Int(6))
	x.expect(f("BITCOUNT mykey 1 1 BYTE"), Int(6))
	x.expect(f("BITCOUNT mykey 5 30 BIT"), Int(17))
	x.expect([]string{"SET", "p1", "\xff\xf0\x00"}, Simple("OK"))
	x.expect(f("BITPOS p1 0"), Int(12))
	x.expect([]string{"SET", "p2", "\x00\xff\xf0"}, Simple("OK"))
	x.expect(f("BITPOS p2 1 0"), Int(8))
	x.expect(f("BITPOS p2 1 2"), Int(16))
	x.expect(f("BITPOS p2 1 2 -1 BYTE"), Int(16))
	x.expect(f("BITPOS p2 1 7 15 BIT"), Int(8))
	x.expect([]string{"SET", "p3", "\x00\x00\x00"}, Simple("OK"))
	x.expect(f("BITPOS p3 1"), Int(-1))
	x.expect(f("BITPOS p3 1 7 -3 BIT"), Int(-1))
	x.expect([]string{"SET", "p4", "\xff\xff\xff"}, Simple("OK"))
	x.expect(f("BITPOS p4 0"), Int(24))
	x.expect(f("BITPOS p4 0 0 -1"), Int(-1))
	x.expect(f("BITFIELD bf INCRBY i5 100 1 GET u4 0"), ints(1, 0))
	x.expect(f("BITFIELD bo incrby u2 100 1 OVERFLOW SAT incrby u2 102 1"), ints(1, 1))
	x.expect(f("BITFIELD bo incrby u2 100 1 OVERFLOW SAT incrby u2 102 1"), ints(2, 2))
	x.expect(f("BITFIELD bo incrby u2 100 1 OVERFLOW SAT incrby u2 102 1"), ints(3, 3))
	x.expect(f("BITFIELD bo incrby u2 100 1 OVERFLOW SAT incrby u2 102 1"), ints(0, 3))
	x.expect(f("BITFIELD bo OVERFLOW FAIL incrby u2 102 1"), Arr(Nil()))
	x.expect(f("SETBIT sb 7 1"), Int(0))
	x.expect(f("SETBIT sb 7 0"), Int(1))
	x.expect(f("GET sb"), Bulk("\x00"))
	x.expect(f("SET k1 foobar"), Simple("OK"))
	x.expect(f("SET k2 abcdef"), Simple("OK"))
	x.expect(f("BITOP AND dest k1 k2"), Int(6))
	x.expect(f("GET dest"), Bulk("`bc`ab"))
	x.expect(f("BITFIELD s8 SET i8 0 200"), ints(0))
	x.expect(f("BITFIELD s8 GET i8 0"), ints(-56))
	x.expect(f("BITFIELD s8 SET u8 0 255 GET i8 0 GET u4 4"), ints(200, -1, 15))
}

func TestDocExamplesSetsHashesKeys(t *testing.T) {
	x := newTM(t)
	x.expect(f("SADD key1 a b c d"), Int(4))
	x.expect(f("SADD key2 c d e"), Int(3))
	x.expect(f("SINTERCARD 2 key1 key2"), Int(2))
	x.expect(f("SINTERCARD 2 key1 key2 LIMIT 1"), Int(1))
	x.expect(f("SMOVE key1 key2 a"), Int(1))
	x.expect(f("SISMEMBER key2 a"), Int(1))
	x.expect(f("SDIFFSTORE dst key1 key2"), Int(1))
	x.expect(f("SMEMBERS dst"), BulkArr([]string{"b"}))
	x.expect(f("SINTERSTORE dst key1 nokey"), Int(0))
	x.expect(f("EXISTS dst"), Int(0))
	x.expect(f("SMISMEMBER key1 b zz"), ints(1, 0))
	x.expect(f("HSET h f1 5 f2 x"), Int(2))
	x.expect(f("HINCRBY h f1 -10"), Int(-5))
	x.expect(f("HINCRBY h f1 3"), Int(-2))
	x.expect(f("HSETNX h f1 zz"), Int(0))
	x.expect(f("HGET h f1"), Bulk("-2"))
	x.expect(f("HSTRLEN h f2"), Int(1))
	x.expect(f("HDEL h f1 f2 f3"), Int(2))
	x.expect(f("EXISTS h"), Int(0))
	x.expect(f("SET mykey Hello"), Simple("OK"))
	x.expect(f("EXPIRE mykey 10 XX"), Int(0))
	x.expect(f("EXPIRE mykey 10 NX"), Int(1))
	x.expect(f("EXPIRE mykey 100 GT"), Int(1))
	x.expect(f("EXPIRE mykey 50 GT"), Int(0))
	x.expect(f("EXPIRE mykey 50 LT"), Int(1))
	x.expect(f("PERSIST mykey"), Int(1))
	x.expect(f("EXPIRE mykey 50 GT"), Int(0))
	x.expect(f("TTL mykey"), Int(-1))
	x.expect(f("TTL nokey"), Int(-2))
	x.expect(f("RENAME mykey other"), Simple("OK"))
	x.expect(f("COPY other other2"), Int(1))
	x.expect(f("COPY other other2"), Int(0))
	x.expect(f("RPUSH sl 3 1 2"), Int(3))
	x.expect(f("SORT sl"), BulkArr([]string{"1", "2", "3"}))
	x.expect(f("SORT sl DESC LIMIT 0 2"), BulkArr([]string{"3", "2"}))
	x.expect(f("SORT sl ALPHA STORE sd"), Int(3))
	x.expect(f("LRANGE sd 0 -1"), BulkArr([]string{"1", "2", "3"}))
	for _, c := range []struct {
		p, s string
		m    bool
	}{{"h?llo", "hello", true}, {"h*llo", "heeeello", true}, {"h[ae]llo", "hillo", false}, {"h[^e]llo", "hallo", true}, {"h[a-b]llo", "hbllo", true}, {"h\\*llo", "h*llo", true}, {"*", "anything", true}, {"a*b*c", "aXbYc", true}, {"a*b*c", "aXbY", false}} {
		if Glob(c.p, c.s) != c.m {
			t.Fatalf("glob %q vs %q: want %v", c.p, c.s, c.m)
		}
	}
}

func TestTransactions(t *testing.T) {
	x := newTM(t)
	x.expect(f("MULTI"), Simple("OK"))
	x.expect(f("INCR foo"), Simple("QUEUED"))
	x.expect(f("LPOP foo"), Simple("QUEUED"))
	x.expect(f("INCR bar"), Simple("QUEUED"))
	x.expect(f("EXEC"), Arr(Int(1), resp.Value{Kind: '-', Str: []byte("WRONGTYPE x")}, Int(1)))
	x.expect(f("MULTI"), Simple("OK"))
	x.expect(f("NOSUCH foo"), resp.Value{Kind: '-', Str: []byte("ERR unknown")})
	x.expect(f("INCR foo"), Simple("QUEUED"))
	x.expect(f("EXEC"), resp.Value{Kind: '-', Str: []byte("EXECABORT Transaction discarded")})
	x.expect(f("GET foo"), Bulk("1"))
	x.expect(f("WATCH foo"), Simple("OK"))
	x.expect(f("INCR foo"), Int(2))
	x.expect(f("MULTI"), Simple("OK"))
	x.expect(f("INCR foo"), Simple("QUEUED"))
	x.expect(f("EXEC"), resp.Value{Kind: '*', Null: true})
	x.expect(f("GET foo"), Bulk("2"))
	x.expect(f("EXEC"), resp.Value{Kind: '-', Str: []byte("ERR EXEC without MULTI")})
}
