package model

import (
	"math"
	"strconv"
	"strings"

	"verif/harness/resp"
)

func init() {
	reg("set", -3, cmdSet)
	reg("setnx", 3, func(c *Ctx, a []string) Exp {
		if c.get(a[0]) != nil {
			return IntExp(0)
		}
		c.set(a[0], &Obj{T: TString, S: []byte(a[1])})
		return IntExp(1)
	})
	reg("setex", 4, func(c *Ctx, a []string) Exp { return setex(c, a[0], a[1], a[2], 1000) })
	reg("psetex", 4, func(c *Ctx, a []string) Exp { return setex(c, a[0], a[1], a[2], 1) })
	reg("get", 2, func(c *Ctx, a []string) Exp {
		o := c.get(a[0])
		if o == nil {
			return NilExp()
		}
		if o.T != TString {
			return wrongType()
		}
		return BulkExp(string(o.S))
	})
	reg("getset", 3, func(c *Ctx, a []string) Exp {
		o := c.get(a[0])
		if o != nil && o.T != TString {
			return wrongType()
		}
		old := NilExp()
		if o != nil {
			old = BulkExp(string(o.S))
		}
		c.set(a[0], &Obj{T: TString, S: []byte(a[1])})
		return old
	})
	reg("getdel", 2, func(c *Ctx, a []string) Exp {
		o := c.get(a[0])
		if o == nil {
			return NilExp()
		}
		if o.T != TString {
			return wrongType()
		}
		c.del(a[0])
		return BulkExp(string(o.S))
	})
	reg("getex", -2, cmdGetEx)
	reg("mget", -2, func(c *Ctx, a []string) Exp {
		out := make([]resp.Value, len(a))
		for i, k := range a {
			o := c.get(k)
			if o == nil || o.T != TString {
				out[i] = Nil()
			} else {
				out[i] = Bulk(string(o.S))
			}
		}
		return Val(Arr(out...))
	})
	reg("mset", -3, func(c *Ctx, a []string) Exp {
		if len(a)%2 != 0 {
			return ErrExp("ERR")
		}
		for i := 0; i < len(a); i += 2 {
			c.set(a[i], &Obj{T: TString, S: []byte(a[i+1])})
		}
		return OK()
	})
	reg("msetnx", -3, func(c *Ctx, a []string) Exp {
		if len(a)%2 != 0 {
			return ErrExp("ERR")
		}
		for i := 0; i < len(a); i += 2 {
			if c.get(a[i]) != nil {
				return IntExp(0)
			}
		}
		for i := 0; i < len(a); i += 2 {
			c.set(a[i], &Obj{T: TString, S: []byte(a[i+1])})
		}
		return IntExp(1)
	})
	reg("append", 3, func(c *Ctx, a []string) Exp {
		o := c.get(a[0])
		if o == nil {
			c.set(a[0], &Obj{T: TString, S: []byte(a[1])})
			return IntExp(int64(len(a[1])))
		}
		if o.T != TString {
			return wrongType()
		}
		o.S = append(o.S, a[1]...)
		c.touch(a[0])
		return IntExp(int64(len(o.S)))
	})
	reg("strlen", 2, func(c *Ctx, a []string) Exp {
		o := c.get(a[0])
		if o == nil {
			return IntExp(0)
		}
		if o.T != TString {
			return wrongType()
		}
		return IntExp(int64(len(o.S)))
	})
	reg("getrange", 4, cmdGetRange)
	reg("substr", 4, cmdGetRange)
	reg("setrange", 4, cmdSetRange)
	reg("incr", 2, func(c *Ctx, a []string) Exp { return incrBy(c, a[0], 1) })
	reg("decr", 2, func(c *Ctx, a []string) Exp { return incrBy(c, a[0], -1) })
	reg("incrby", 3, func(c *Ctx, a []string) Exp {
		n, ok := parseInt(a[1])
		if !ok {
			if looseInt(a[1]) {
				return Unspecified("non-canonical integer argument")
			}
			return argErr(c, a[0], TString)
		}
		return incrBy(c, a[0], n)
	})
	reg("decrby", 3, func(c *Ctx, a []string) Exp {
		n, ok := parseInt(a[1])
		if !ok {
			if looseInt(a[1]) {
				return Unspecified("non-canonical integer argument")
			}
			return argErr(c, a[0], TString)
		}
		if n == math.MinInt64 {
			return Unspecified("DECRBY of -2^63 (rejected outright by newer Redis versions only)")
		}
		return incrBy(c, a[0], -n)
	})
	reg("incrbyfloat", 3, cmdIncrByFloat)
	reg("lcs", -3, cmdLcs)
}

// argErr: an argument error; when the key also has the wrong type Redis'
// order of checks is command specific, so any error class is accepted.
func argErr(c *Ctx, key string, want Type) Exp {
	if o := c.get(key); o != nil && o.T != want {
		return AnyErr()
	}
	return ErrExp("ERR")
}

const maxSafeMs = int64(1) << 53

// bigExpire classifies a positive EX/PX/EXAT/PXAT value the way Redis 7 validates it: seconds that do not fit
// in milliseconds and relative times that overflow when added to the clock are errors ("invalid expire time");
// accepted deadlines beyond 2^53 ms are left unspecified (the clock interval arithmetic is not exact there).
func bigExpire(c *Ctx, n int64, kind string) (isErr, unspec bool) {
	if (kind == "EX" || kind == "EXAT") && n > math.MaxInt64/1000 {
		return true, false
	}
	ms := n
	if kind == "EX" || kind == "EXAT" {
		ms = n * 1000
	}
	if kind == "EX" || kind == "PX" {
		if ms > math.MaxInt64-c.Now {
			return true, false
		}
		if ms > math.MaxInt64-c.NowHi {
			return false, true
		}
		ms += c.NowHi
	}
	return false, ms > maxSafeMs
}

func setex(c *Ctx, key, tstr, val string, unit int64) Exp {
	n, ok := parseInt(tstr)
	if !ok {
		if looseInt(tstr) {
			return Unspecified("non-canonical integer argument")
		}
		return ErrExp("ERR")
	}
	if n <= 0 {
		return ErrExp("ERR")
	}
	kind := "PX"
	if unit == 1000 {
		kind = "EX"
	}
	if isErr, unspec := bigExpire(c, n, kind); isErr {
		return ErrExp("ERR")
	} else if unspec {
		return Unspecified("expire time beyond 2^53 ms")
	}
	c.set(key, &Obj{T: TString, S: []byte(val), Deadline: c.Now + n*unit, DeadlineHi: c.NowHi + n*unit})
	return OK()
}

type expireOpt struct {
	kind    string // "", EX, PX, EXAT, PXAT, KEEPTTL, PERSIST
	val     int64
	unspec  bool
	present bool
}

// deadline returns the interval of the absolute deadline for a command executed in [lo, hi].
func (e *expireOpt) deadline(lo, hi int64) (int64, int64) {
	switch e.kind {
	case "EX":
		return lo + e.val*1000, hi + e.val*1000
	case "PX":
		return lo + e.val, hi + e.val
	case "EXAT":
		return e.val * 1000, e.val * 1000
	case "PXAT":
		return e.val, e.val
	}
	return 0, 0
}

func cmdSet(c *Ctx, a []string) Exp {
	key, val := a[0], a[1]
	nx, xx, get := false, false, false
	var ex expireOpt
	synErr := false
	for i := 2; i < len(a); i++ {
		switch u := upper(a[i]); u {
		case "NX":
			nx = true
		case "XX":
			xx = true
		case "GET":
			get = true
		case "KEEPTTL":
			if ex.present {
				synErr = true
			}
			ex = expireOpt{kind: "KEEPTTL", present: true}
		case "EX", "PX", "EXAT", "PXAT":
			if ex.present || i+1 >= len(a) {
				synErr = true
				break
			}
			n, ok := parseInt(a[i+1])
			if !ok {
				if looseInt(a[i+1]) {
					ex.unspec = true
				} else {
					synErr = true
				}
			} else if n <= 0 {
				synErr = true
			} else if isErr, unspec := bigExpire(c, n, u); isErr {
				synErr = true
			} else if unspec {
				ex.unspec = true
			}
			ex.kind, ex.val, ex.present = u, n, true
			i++
		default:
			synErr = true
		}
		if synErr {
			break
		}
	}
	if nx && xx {
		synErr = true
	}
	o := c.get(key)
	if synErr {
		if get && o != nil && o.T != TString {
			return AnyErr()
		}
		return ErrExp("ERR")
	}
	if ex.unspec {
		return Unspecified("expire argument non-canonical or beyond 2^53")
	}
	if nx && get {
		return Unspecified("SET NX GET is version dependent (allowed from Redis 7.0)")
	}
	if get && o != nil && o.T != TString {
		return wrongType()
	}
	old := NilExp()
	if get && o != nil {
		old = BulkExp(string(o.S))
	}
	if (nx && o != nil) || (xx && o == nil) {
		if get {
			return old
		}
		return NilExp()
	}
	n := &Obj{T: TString, S: []byte(val)}
	switch ex.kind {
	case "KEEPTTL":
		if o != nil {
			n.Deadline, n.DeadlineHi = o.Deadline, o.DeadlineHi
		}
	case "EX", "PX", "EXAT", "PXAT":
		n.Deadline, n.DeadlineHi = ex.deadline(c.Now, c.NowHi)
	}
	c.set(key, n)
	if n.Deadline != 0 {
		// an absolute deadline in the past: the key is logically missing at once
		if n.DeadlineHi+Gran <= c.Now {
			delete(c.db(), key)
		} else if n.Deadline-Gran <= c.NowHi {
			c.Ambig = true
		}
	}
	if get {
		return old
	}
	return OK()
}

func cmdGetEx(c *Ctx, a []string) Exp {
	key := a[0]
	var ex expireOpt
	synErr := false
	for i := 1; i < len(a); i++ {
		switch u := upper(a[i]); u {
		case "PERSIST":
			if ex.present {
				synErr = true
			}
			ex = expireOpt{kind: "PERSIST", present: true}
		case "EX", "PX", "EXAT", "PXAT":
			if ex.present || i+1 >= len(a) {
				synErr = true
				break
			}
			n, ok := parseInt(a[i+1])
			if !ok {
				if looseInt(a[i+1]) {
					ex.unspec = true
				} else {
					synErr = true
				}
			} else if n <= 0 {
				synErr = true
			} else if isErr, unspec := bigExpire(c, n, u); isErr {
				synErr = true
			} else if unspec {
				ex.unspec = true
			}
			ex.kind, ex.val, ex.present = u, n, true
			i++
		default:
			synErr = true
		}
		if synErr {
			break
		}
	}
	o := c.get(key)
	if synErr {
		if o != nil && o.T != TString {
			return AnyErr()
		}
		return ErrExp("ERR")
	}
	if ex.unspec {
		return Unspecified("expire argument non-canonical or beyond 2^53")
	}
	if o == nil {
		return NilExp()
	}
	if o.T != TString {
		return wrongType()
	}
	val := string(o.S)
	switch ex.kind {
	case "PERSIST":
		if o.Deadline != 0 {
			o.Deadline, o.DeadlineHi = 0, 0
			c.touch(key)
		}
	case "EX", "PX", "EXAT", "PXAT":
		o.Deadline, o.DeadlineHi = ex.deadline(c.Now, c.NowHi)
		c.touch(key)
		if o.DeadlineHi+Gran <= c.Now {
			delete(c.db(), key)
		} else if o.Deadline-Gran <= c.NowHi {
			c.Ambig = true
		}
	}
	return BulkExp(val)
}

func cmdGetRange(c *Ctx, a []string) Exp {
	start, ok1 := parseInt(a[1])
	end, ok2 := parseInt(a[2])
	if !ok1 || !ok2 {
		if (ok1 || looseInt(a[1])) && (ok2 || looseInt(a[2])) {
			return Unspecified("non-canonical integer argument")
		}
		return argErr(c, a[0], TString)
	}
	o := c.get(a[0])
	if o == nil {
		return BulkExp("")
	}
	if o.T != TString {
		return wrongType()
	}
	n := int64(len(o.S))
	if start < 0 && end < 0 && start > end {
		return BulkExp("")
	}
	if start < 0 {
		start += n
	}
	if end < 0 {
		end += n
	}
	if start < 0 {
		start = 0
	}
	if end < 0 {
		// Redis 7.0 clamps the end to 0 (returning the first byte); later versions return "": version dependent
		if n > 0 && start == 0 {
			return UnspecRO("GETRANGE with an end before the start of the string")
		}
		end = 0
	}
	if end >= n {
		end = n - 1
	}
	if start > end || n == 0 {
		return BulkExp("")
	}
	return BulkExp(string(o.S[start : end+1]))
}

func cmdSetRange(c *Ctx, a []string) Exp {
	off, ok := parseInt(a[1])
	if !ok {
		if looseInt(a[1]) {
			return Unspecified("non-canonical integer argument")
		}
		return argErr(c, a[0], TString)
	}
	if off < 0 {
		return argErr(c, a[0], TString)
	}
	o := c.get(a[0])
	var wrongTyped *Exp
	if o != nil && o.T != TString {
		val := a[2]
		if len(val) > 0 && (off > 512*1024*1024 || off+int64(len(val)) > 512*1024*1024) {
			return AnyErr() // oversized and wrong type: either error
		}
		return wrongType()
	}
	val := a[2]
	if len(val) == 0 {
		if off > 512*1024*1024 {
			return Unspecified("empty value at an offset beyond 512MB")
		}
		if o == nil {
			return IntExp(0)
		}
		return IntExp(int64(len(o.S)))
	}
	if off > 512*1024*1024 || off+int64(len(val)) > 512*1024*1024 {
		return ErrExp("ERR")
	}
	if wrongTyped != nil {
		return *wrongTyped
	}
	if o == nil {
		o = &Obj{T: TString}
		c.db()[a[0]] = o
	}
	need := int(off) + len(val)
	if len(o.S) < need {
		o.S = append(o.S, make([]byte, need-len(o.S))...)
	}
	copy(o.S[off:], val)
	c.touch(a[0])
	return IntExp(int64(len(o.S)))
}

func incrBy(c *Ctx, key string, delta int64) Exp {
	o := c.get(key)
	if o != nil && o.T != TString {
		return wrongType()
	}
	cur := int64(0)
	if o != nil {
		n, ok := parseInt(string(o.S))
		if !ok {
			if looseInt(string(o.S)) {
				return Unspecified("stored value is a non-canonical integer")
			}
			return ErrExp("ERR")
		}
		cur = n
	}
	if (delta > 0 && cur > math.MaxInt64-delta) || (delta < 0 && cur < math.MinInt64-delta) {
		return ErrExp("ERR")
	}
	cur += delta
	if o == nil {
		c.set(key, &Obj{T: TString, S: []byte(strconv.FormatInt(cur, 10))})
	} else {
		o.S = []byte(strconv.FormatInt(cur, 10))
		c.touch(key)
	}
	return IntExp(cur)
}

// parseFloat: what Redis accepts as a long double argument, restricted to the
// forms whose treatment is certain. ok=false,unspec=true for uncertain forms.
func parseFloat(s string) (f float64, ok bool, unspec bool) {
	if s == "" {
		return 0, false, false
	}
	if strings.ContainsAny(s, " \t\r\n\x00") {
		return 0, false, false
	}
	l := strings.ToLower(s)
	if strings.Contains(l, "x") || strings.Contains(l, "inf") || strings.Contains(l, "nan") || strings.Contains(l, "_") || strings.Contains(l, "p") {
		// hex floats / inf / nan: strtold accepts some of these; Redis then rejects inf/nan results
		return 0, false, true
	}
	f, err := strconv.ParseFloat(s, 64)
	if err != nil {
		if ne, isNum := err.(*strconv.NumError); isNum && ne.Err == strconv.ErrRange {
			return 0, false, true // long double has a wider range than float64
		}
		return 0, false, false
	}
	return f, true, false
}

func fmtFloat(f float64) string { return strconv.FormatFloat(f, 'f', -1, 64) }

// infNaN: the spellings of infinity / NaN; as an increment they are an error in every Redis version
// (either rejected by the parser or by the "would produce NaN or Infinity" check), only the text differs.
func infNaN(s string) bool {
	l := strings.TrimLeft(strings.ToLower(s), "+-")
	return l == "inf" || l == "infinity" || l == "nan"
}

func cmdIncrByFloat(c *Ctx, a []string) Exp {
	if infNaN(a[1]) {
		return AnyErr()
	}
	d, ok, unspec := parseFloat(a[1])
	if unspec {
		return Unspecified("float argument form")
	}
	if !ok {
		return argErr(c, a[0], TString)
	}
	o := c.get(a[0])
	if o != nil && o.T != TString {
		return wrongType()
	}
	cur := 0.0
	if o != nil {
		v, ok, unspec := parseFloat(string(o.S))
		if unspec {
			return Unspecified("stored float form")
		}
		if !ok {
			return ErrExp("ERR")
		}
		cur = v
	}
	res := cur + d
	if math.IsInf(res, 0) || math.IsNaN(res) {
		return Unspecified("float overflow (long double range)")
	}
	s := fmtFloat(res)
	if o == nil {
		c.set(a[0], &Obj{T: TString, S: []byte(s)})
	} else {
		o.S = []byte(s)
		c.touch(a[0])
	}
	return Exp{Val: Bulk(s), Float: true}
}

// ---- LCS ------------------------------------------------------------------------

func lcsTable(x, y []byte) [][]int {
	t := make([][]int, len(x)+1)
	for i := range t {
		t[i] = make([]int, len(y)+1)
	}
	for i := 1; i <= len(x); i++ {
		for j := 1; j <= len(y); j++ {
			if x[i-1] == y[j-1] {
				t[i][j] = t[i-1][j-1] + 1
			} else if t[i-1][j] > t[i][j-1] {
				t[i][j] = t[i-1][j]
			} else {
				t[i][j] = t[i][j-1]
			}
		}
	}
	return t
}

func isSubseq(s, of []byte) bool {
	i := 0
	for j := 0; j < len(of) && i < len(s); j++ {
		if s[i] == of[j] {
			i++
		}
	}
	return i == len(s)
}

func cmdLcs(c *Ctx, a []string) Exp {
	wantLen, idx, withLen := false, false, false
	minLen := int64(0)
	synErr := false
	for i := 2; i < len(a); i++ {
		switch upper(a[i]) {
		case "LEN":
			wantLen = true
		case "IDX":
			idx = true
		case "WITHMATCHLEN":
			withLen = true
		case "MINMATCHLEN":
			if i+1 >= len(a) {
				synErr = true
				break
			}
			n, ok := parseInt(a[i+1])
			if !ok {
				if looseInt(a[i+1]) {
					return Unspecified("non-canonical integer argument")
				}
				synErr = true
			}
			if n < 0 {
				n = 0
			}
			minLen = n
			i++
		default:
			synErr = true
		}
	}
	var xs, ys []byte
	bad := false
	for i, k := range a[:2] {
		o := c.get(k)
		if o == nil {
			continue
		}
		if o.T != TString {
			bad = true
			continue
		}
		if i == 0 {
			xs = o.S
		} else {
			ys = o.S
		}
	}
	if synErr {
		if bad {
			return AnyErr()
		}
		return ErrExp("ERR")
	}
	if bad {
		return wrongType()
	}
	if wantLen && idx {
		return ErrExp("ERR")
	}
	t := lcsTable(xs, ys)
	L := int64(t[len(xs)][len(ys)])
	if wantLen {
		return IntExp(L)
	}
	if !idx {
		x, y := append([]byte{}, xs...), append([]byte{}, ys...)
		return Exp{Note: "a longest common subsequence", Pred: func(g resp.Value) string {
			if !g.IsString() {
				return "expected a string, got " + g.String()
			}
			s := []byte(g.Text())
			if int64(len(s)) != L {
				return "expected a common subsequence of length " + strconv.FormatInt(L, 10) + ", got " + g.String()
			}
			if !isSubseq(s, x) || !isSubseq(s, y) {
				return "reply " + g.String() + " is not a common subsequence"
			}
			return ""
		}}
	}
	x, y := append([]byte{}, xs...), append([]byte{}, ys...)
	return Exp{Note: "LCS IDX structure", Pred: func(g resp.Value) string {
		// ["matches", [...], "len", L]
		if g.Kind != '*' || len(g.Elems) != 4 || g.Elems[0].Text() != "matches" || g.Elems[2].Text() != "len" {
			return "expected [matches [...] len N], got " + g.String()
		}
		if g.Elems[3].Kind != ':' || g.Elems[3].Int != L {
			return "expected len " + strconv.FormatInt(L, 10) + ", got " + g.Elems[3].String()
		}
		ms := g.Elems[1]
		if ms.Kind != '*' {
			return "matches is not an array: " + ms.String()
		}
		total := int64(0)
		prevA, prevB := int64(math.MaxInt64), int64(math.MaxInt64)
		for _, m := range ms.Elems {
			wantN := 2
			if withLen {
				wantN = 3
			}
			if m.Kind != '*' || len(m.Elems) != wantN {
				return "bad match entry " + m.String()
			}
			ra, rb := m.Elems[0], m.Elems[1]
			if len(ra.Elems) != 2 || len(rb.Elems) != 2 {
				return "bad range in " + m.String()
			}
			a0, a1, b0, b1 := ra.Elems[0].Int, ra.Elems[1].Int, rb.Elems[0].Int, rb.Elems[1].Int
			if a0 < 0 || a1 < a0 || a1 >= int64(len(x)) || b0 < 0 || b1 < b0 || b1 >= int64(len(y)) || a1-a0 != b1-b0 {
				return "range out of bounds or unequal lengths in " + m.String()
			}
			if string(x[a0:a1+1]) != string(y[b0:b1+1]) {
				return "ranges denote different substrings in " + m.String()
			}
			n := a1 - a0 + 1
			if withLen && (m.Elems[2].Kind != ':' || m.Elems[2].Int != n) {
				return "wrong match length in " + m.String()
			}
			if n < minLen {
				return "match shorter than MINMATCHLEN in " + m.String()
			}
			if a1 >= prevA || b1 >= prevB {
				return "matches are not ordered from the end of the strings backwards: " + ms.String()
			}
			prevA, prevB = a0, b0
			total += n
		}
		if minLen <= 1 && total != L {
			return "matches add up to " + strconv.FormatInt(total, 10) + ", LCS length is " + strconv.FormatInt(L, 10)
		}
		if total > L {
			return "matches add up to more than the LCS length"
		}
		return ""
	}}
}
