package model

import (
	"math"
	"sort"

	"verif/harness/resp"
)

func (c *Ctx) setObj(key string) (*Obj, *Exp) {
	o := c.get(key)
	if o != nil && o.T != TSet {
		e := wrongType()
		return nil, &e
	}
	return o, nil
}

func sortedMembers(s map[string]struct{}) []string {
	ks := make([]string, 0, len(s))
	for k := range s {
		ks = append(ks, k)
	}
	sort.Strings(ks)
	return ks
}

func membersExp(s map[string]struct{}) Exp {
	return Exp{Val: BulkArr(sortedMembers(s)), Multiset: true}
}

func init() {
	reg("sadd", -3, func(c *Ctx, a []string) Exp {
		o, e := c.setObj(a[0])
		if e != nil {
			return *e
		}
		if o == nil {
			o = &Obj{T: TSet, Set: map[string]struct{}{}}
			c.db()[a[0]] = o
		}
		n := int64(0)
		for _, m := range a[1:] {
			if _, ok := o.Set[m]; !ok {
				o.Set[m] = struct{}{}
				n++
			}
		}
		c.touch(a[0]) // creating the key or adding members; a pure no-op SADD is a WATCH corner (unspecified)
		return IntExp(n)
	})
	reg("srem", -3, func(c *Ctx, a []string) Exp {
		o, e := c.setObj(a[0])
		if e != nil {
			return *e
		}
		if o == nil {
			return IntExp(0)
		}
		n := int64(0)
		for _, m := range a[1:] {
			if _, ok := o.Set[m]; ok {
				delete(o.Set, m)
				n++
			}
		}
		if n > 0 {
			c.touch(a[0])
			c.dropIfEmpty(a[0], o)
		}
		return IntExp(n)
	})
	reg("scard", 2, func(c *Ctx, a []string) Exp {
		o, e := c.setObj(a[0])
		if e != nil {
			return *e
		}
		if o == nil {
			return IntExp(0)
		}
		return IntExp(int64(len(o.Set)))
	})
	reg("sismember", 3, func(c *Ctx, a []string) Exp {
		o, e := c.setObj(a[0])
		if e != nil {
			return *e
		}
		if o != nil {
			if _, ok := o.Set[a[1]]; ok {
				return IntExp(1)
			}
		}
		return IntExp(0)
	})
	reg("smismember", -3, func(c *Ctx, a []string) Exp {
		o, e := c.setObj(a[0])
		if e != nil {
			return *e
		}
		out := make([]resp.Value, len(a)-1)
		for i, m := range a[1:] {
			out[i] = Int(0)
			if o != nil {
				if _, ok := o.Set[m]; ok {
					out[i] = Int(1)
				}
			}
		}
		return Val(Arr(out...))
	})
	reg("smembers", 2, func(c *Ctx, a []string) Exp {
		o, e := c.setObj(a[0])
		if e != nil {
			return *e
		}
		if o == nil {
			return Exp{Val: Arr(), Multiset: true}
		}
		return membersExp(o.Set)
	})
	reg("smove", 4, func(c *Ctx, a []string) Exp {
		src, dst, m := a[0], a[1], a[2]
		so := c.get(src)
		if so == nil {
			return IntExp(0)
		}
		if so.T != TSet {
			return wrongType()
		}
		do := c.get(dst)
		if do != nil && do.T != TSet {
			return wrongType()
		}
		if src == dst {
			if _, ok := so.Set[m]; ok {
				return IntExp(1)
			}
			return IntExp(0)
		}
		if _, ok := so.Set[m]; !ok {
			return IntExp(0)
		}
		delete(so.Set, m)
		c.touch(src)
		c.dropIfEmpty(src, so)
		if do == nil {
			do = &Obj{T: TSet, Set: map[string]struct{}{}}
			c.db()[dst] = do
		}
		do.Set[m] = struct{}{}
		c.touch(dst)
		return IntExp(1)
	})
	reg("srandmember", -2, func(c *Ctx, a []string) Exp {
		if len(a) > 2 {
			return argErr(c, a[0], TSet)
		}
		hasCount := len(a) == 2
		cnt := int64(0)
		if hasCount {
			n, ok := parseInt(a[1])
			if !ok {
				return intArgErr(c, a[0], TSet, a[1])
			}
			cnt = n
			if cnt == math.MinInt64 {
				return AnyErr() // outside -LONG_MAX..LONG_MAX: a range error whatever the key holds
			}
		}
		o, e := c.setObj(a[0])
		if e != nil {
			return *e
		}
		if !hasCount {
			if o == nil {
				return NilExp()
			}
			h := map[string]string{}
			for k := range o.Set {
				h[k] = ""
			}
			return Exp{Note: "an existing member", Pred: func(g resp.Value) string {
				if !g.IsString() {
					return "expected an existing member, got " + g.String()
				}
				if _, ok := h[g.Text()]; !ok {
					return "returned member " + g.String() + " does not exist"
				}
				return ""
			}}
		}
		if o == nil || cnt == 0 {
			return Val(Arr())
		}
		h := map[string]string{}
		for k := range o.Set {
			h[k] = ""
		}
		return Exp{Note: "random members", Pred: func(g resp.Value) string { return checkRandom(g, h, cnt, false) }}
	})
	reg("sinter", -2, func(c *Ctx, a []string) Exp { return algebra(c, "inter", a, "") })
	reg("sunion", -2, func(c *Ctx, a []string) Exp { return algebra(c, "union", a, "") })
	reg("sdiff", -2, func(c *Ctx, a []string) Exp { return algebra(c, "diff", a, "") })
	reg("sinterstore", -3, func(c *Ctx, a []string) Exp { return algebra(c, "inter", a[1:], a[0]) })
	reg("sunionstore", -3, func(c *Ctx, a []string) Exp { return algebra(c, "union", a[1:], a[0]) })
	reg("sdiffstore", -3, func(c *Ctx, a []string) Exp { return algebra(c, "diff", a[1:], a[0]) })
	reg("sintercard", -3, func(c *Ctx, a []string) Exp {
		nk, ok := parseInt(a[0])
		if !ok {
			if looseInt(a[0]) {
				return Unspecified("non-canonical integer argument")
			}
			return AnyErr()
		}
		if nk <= 0 || int64(len(a)) < 1+nk {
			return AnyErr()
		}
		keys := a[1 : 1+nk]
		rest := a[1+nk:]
		limit := int64(0)
		if len(rest) > 0 {
			if len(rest) != 2 || upper(rest[0]) != "LIMIT" {
				return AnyErrIfTyped(c, keys, TSet)
			}
			n, ok := parseInt(rest[1])
			if !ok {
				if looseInt(rest[1]) {
					return Unspecified("non-canonical integer argument")
				}
				return AnyErrIfTyped(c, keys, TSet)
			}
			if n < 0 {
				return AnyErrIfTyped(c, keys, TSet)
			}
			limit = n
		}
		res, exp := algebraSet(c, "inter", keys)
		if exp != nil {
			return *exp
		}
		n := int64(len(res))
		if limit > 0 && n > limit {
			n = limit
		}
		return IntExp(n)
	})
}

// algebraSet computes the result set, or an expectation (error/unspecified).
func algebraSet(c *Ctx, op string, keys []string) (map[string]struct{}, *Exp) {
	sets := make([]map[string]struct{}, len(keys))
	sawMissing := false
	for i, k := range keys {
		o := c.get(k)
		if o == nil {
			sawMissing = true
			sets[i] = map[string]struct{}{}
			continue
		}
		if o.T != TSet {
			if op == "inter" && sawMissing {
				e := Unspecified("SINTER: wrong-typed operand after a missing one (version dependent)")
				e.Unspec = true
				return nil, &e
			}
			e := wrongType()
			return nil, &e
		}
		sets[i] = o.Set
	}
	res := map[string]struct{}{}
	switch op {
	case "union":
		for _, s := range sets {
			for m := range s {
				res[m] = struct{}{}
			}
		}
	case "inter":
		for m := range sets[0] {
			in := true
			for _, s := range sets[1:] {
				if _, ok := s[m]; !ok {
					in = false
					break
				}
			}
			if in {
				res[m] = struct{}{}
			}
		}
	case "diff":
		for m := range sets[0] {
			in := true
			for _, s := range sets[1:] {
				if _, ok := s[m]; ok {
					in = false
					break
				}
			}
			if in {
				res[m] = struct{}{}
			}
		}
	}
	return res, nil
}

func algebra(c *Ctx, op string, keys []string, dest string) Exp {
	res, exp := algebraSet(c, op, keys)
	if exp != nil {
		if exp.Unspec {
			u := UnspecRO(exp.Note)
			if dest != "" {
				return Unspecified(exp.Note)
			}
			return u
		}
		return *exp
	}
	if dest == "" {
		return membersExp(res)
	}
	if len(res) == 0 {
		if c.get(dest) != nil {
			c.del(dest)
		}
		return IntExp(0)
	}
	c.set(dest, &Obj{T: TSet, Set: res})
	return IntExp(int64(len(res)))
}
