package model

import (
	"strings"

	"verif/harness/resp"
)

// queueable reports whether the command is known to the model or to the SUT's
// command table (so that it is accepted into a MULTI queue).
var ExtraKnown = map[string]bool{}

func arityOK(args []string) (known bool, ok bool) {
	name := strings.ToLower(args[0])
	if _, k := handlers[name]; !k {
		if ctlArity[name] != 0 {
			ar := ctlArity[name]
			return true, !((ar > 0 && len(args) != ar) || (ar < 0 && len(args) < -ar))
		}
		return false, false
	}
	ar := arity[name]
	return true, !((ar > 0 && len(args) != ar) || (ar < 0 && len(args) < -ar))
}

var ctlArity = map[string]int{"multi": 1, "exec": 1, "discard": 1, "watch": -2, "unwatch": 1, "select": 2, "flushdb": -1, "flushall": -1, "hello": -1,
	"blpop": -3, "brpop": -3, "blmove": 6, "brpoplpush": 4, "blmpop": -5}

var blocking = map[string]bool{"blpop": true, "brpop": true, "blmove": true, "brpoplpush": true, "blmpop": true}

// dispatch applies transaction handling around exec.
func (c *Ctx) dispatch(args []string) Exp {
	if len(args) == 0 {
		return ErrExp("ERR")
	}
	name := strings.ToLower(args[0])
	s := c.S
	if s.InMulti && name != "multi" && name != "exec" && name != "discard" && name != "watch" {
		known, ok := arityOK(args)
		if !known && name != "client" && name != "command" && name != "info" {
			s.Dirty = true
			return ErrExp("ERR")
		}
		if known && !ok {
			s.Dirty = true
			return ErrExp("ERR")
		}
		if !known {
			// introspection command not covered by the model inside MULTI
			s.Queue = append(s.Queue, args)
			return Val(Simple("QUEUED"))
		}
		s.Queue = append(s.Queue, args)
		return Val(Simple("QUEUED"))
	}
	switch name {
	case "multi":
		if len(args) != 1 {
			if s.InMulti {
				s.Dirty = true
			}
			return ErrExp("ERR")
		}
		if s.InMulti {
			return ErrExp("ERR")
		}
		s.InMulti, s.Queue, s.Dirty = true, nil, false
		return OK()
	case "discard":
		if len(args) != 1 {
			if s.InMulti {
				s.Dirty = true
			}
			return ErrExp("ERR")
		}
		if !s.InMulti {
			return ErrExp("ERR")
		}
		s.InMulti, s.Queue, s.Dirty = false, nil, false
		c.unwatch()
		return OK()
	case "watch":
		if len(args) < 2 {
			if s.InMulti {
				s.Dirty = true
			}
			return ErrExp("ERR")
		}
		if s.InMulti {
			return ErrExp("ERR")
		}
		for _, k := range args[1:] {
			wk := watchKey{s.DB, k}
			if _, dup := s.Watches[wk]; dup {
				continue
			}
			o := c.get(k) // expires the key first if needed
			s.Watches[wk] = c.M.Ver[s.DB][k]
			s.WatchEx[wk] = o != nil
		}
		return OK()
	case "unwatch":
		if len(args) != 1 {
			return ErrExp("ERR")
		}
		c.unwatch()
		return OK()
	case "exec":
		if len(args) != 1 {
			if s.InMulti {
				s.Dirty = true
			}
			return ErrExp("ERR")
		}
		if !s.InMulti {
			return ErrExp("ERR")
		}
		queue, dirty := s.Queue, s.Dirty
		s.InMulti, s.Queue, s.Dirty = false, nil, false
		if dirty {
			c.unwatch()
			return ErrExp("EXECABORT")
		}
		if c.watchedChanged() {
			c.unwatch()
			return Val(resp.Value{Kind: '*', Null: true})
		}
		c.unwatch()
		exps := make([]Exp, len(queue))
		for i, q := range queue {
			exps[i] = c.execOne(q, true)
		}
		return Exp{Note: "EXEC result array", Pred: func(g resp.Value) string {
			if g.Kind != '*' || g.Null {
				return "expected an array of " + itoa(len(exps)) + " replies, got " + g.String()
			}
			if len(g.Elems) != len(exps) {
				return "expected " + itoa(len(exps)) + " replies, got " + itoa(len(g.Elems)) + ": " + g.String()
			}
			for i, e := range exps {
				if why := Match(e, g.Elems[i]); why != "" {
					return "queued command " + itoa(i) + " (" + strings.Join(queue[i], " ") + "): " + why
				}
			}
			return ""
		}, subExps: exps}
	}
	return c.execOne(args, false)
}

func itoa(n int) string { return fmtInt(n) }

func fmtInt(n int) string {
	if n == 0 {
		return "0"
	}
	neg := n < 0
	if neg {
		n = -n
	}
	var b []byte
	for n > 0 {
		b = append([]byte{byte('0' + n%10)}, b...)
		n /= 10
	}
	if neg {
		b = append([]byte{'-'}, b...)
	}
	return string(b)
}

func (c *Ctx) unwatch() {
	c.S.Watches = map[watchKey]uint64{}
	c.S.WatchEx = map[watchKey]bool{}
}

func (c *Ctx) watchedChanged() bool {
	changed := false
	onlyABA := true
	for wk, ver := range c.S.Watches {
		// expiry since WATCH counts as a modification
		o, amb := c.M.GetI(wk.db, wk.key, c.Now, c.NowHi)
		if amb {
			c.Ambig = true
		}
		if c.M.Ver[wk.db][wk.key] != ver {
			changed = true
			// missing when watched and missing again now: created and removed in between
			if c.S.WatchEx[wk] || o != nil {
				onlyABA = false
			}
		}
	}
	c.S.LastAbort = ""
	if changed && onlyABA {
		c.S.LastAbort = "missing-key-created-and-removed"
	}
	return changed
}

// execOne runs session-level commands and data commands.
func (c *Ctx) execOne(args []string, inExec bool) Exp {
	name := strings.ToLower(args[0])
	s := c.S
	switch name {
	case "select":
		if len(args) != 2 {
			return ErrExp("ERR")
		}
		n, ok := parseInt(args[1])
		if !ok {
			if looseInt(args[1]) {
				return UnspecRO("non-canonical integer argument")
			}
			return ErrExp("ERR")
		}
		if n < 0 || n > 15 {
			return ErrExp("ERR")
		}
		s.DB = int(n)
		return OK()
	case "flushdb", "flushall":
		if len(args) > 2 {
			return ErrExp("ERR")
		}
		if len(args) == 2 {
			u := upper(args[1])
			if u != "ASYNC" && u != "SYNC" {
				return ErrExp("ERR")
			}
		}
		for db := range c.M.DB {
			if name == "flushdb" && db != s.DB {
				continue
			}
			for k := range c.M.DB[db] {
				c.M.touch(db, k)
			}
			c.M.DB[db] = map[string]*Obj{}
		}
		return OK()
	case "hello":
		if len(args) == 1 {
			return UnspecRO("HELLO reply map")
		}
		n, ok := parseInt(args[1])
		if !ok {
			return ErrExp("*")
		}
		if n != 2 && n != 3 {
			return ErrExp("NOPROTO")
		}
		if len(args) > 2 {
			// AUTH / SETNAME options: only SETNAME is modelled
			if len(args) == 4 && upper(args[2]) == "SETNAME" {
				s.Name = args[3]
			} else {
				return UnspecRO("HELLO with AUTH or malformed options")
			}
		}
		s.Proto = int(n)
		return UnspecRO("HELLO reply map")
	case "blpop", "brpop":
		// non-blocking path only: the first non-empty list is popped; otherwise (inside EXEC or with a short timeout) nil
		if len(args) < 3 {
			return ErrExp("ERR")
		}
		keys := args[1 : len(args)-1]
		if _, ok, unspec := parseFloat(args[len(args)-1]); !ok || unspec {
			if unspec {
				return Unspecified("timeout form")
			}
			return AnyErrIfTyped(c, keys, TList)
		}
		if strings.HasPrefix(args[len(args)-1], "-") {
			return negativeTimeout()
		}
		for _, k := range keys {
			o := c.get(k)
			if o == nil {
				continue
			}
			if o.T != TList {
				return wrongType()
			}
			v := popOne(c, k, o, name == "blpop")
			return Val(Arr(Bulk(k), Bulk(string(v))))
		}
		return Val(resp.Value{Kind: '*', Null: true})
	case "blmove":
		if len(args) != 6 {
			return ErrExp("ERR")
		}
		if _, ok, unspec := parseFloat(args[5]); !ok || unspec || strings.HasPrefix(args[5], "-") {
			if unspec {
				return Unspecified("timeout form")
			}
			if ok {
				return negativeTimeout()
			}
			return AnyErrIfTyped(c, args[1:3], TList)
		}
		return c.exec([]string{"lmove", args[1], args[2], args[3], args[4]})
	case "brpoplpush":
		if len(args) != 4 {
			return ErrExp("ERR")
		}
		if _, ok, unspec := parseFloat(args[3]); !ok || unspec || strings.HasPrefix(args[3], "-") {
			if unspec {
				return Unspecified("timeout form")
			}
			if ok {
				return negativeTimeout()
			}
			return AnyErrIfTyped(c, args[1:3], TList)
		}
		return c.exec([]string{"rpoplpush", args[1], args[2]})
	case "blmpop":
		if len(args) < 5 {
			return ErrExp("ERR")
		}
		if _, ok, unspec := parseFloat(args[1]); !ok || unspec || strings.HasPrefix(args[1], "-") {
			if unspec {
				return Unspecified("timeout form")
			}
			if ok {
				return negativeTimeout()
			}
			return AnyErr()
		}
		return c.exec(append([]string{"lmpop"}, args[2:]...))
	case "unwatch":
		// queued inside MULTI: a no-op that answers OK (EXEC drops the watches anyway)
		c.unwatch()
		return OK()
	case "client":
		if len(args) >= 2 {
			switch strings.ToLower(args[1]) {
			case "setname":
				if len(args) != 3 {
					return ErrExp("ERR")
				}
				for _, ch := range args[2] {
					if ch < 33 || ch > 126 {
						return ErrExp("ERR")
					}
				}
				s.Name = args[2]
				return OK()
			case "getname":
				if len(args) != 2 {
					return ErrExp("ERR")
				}
				if s.Name == "" {
					return NilExp()
				}
				return BulkExp(s.Name)
			case "list", "info", "id", "kill", "unblock", "no-evict", "reply", "pause", "unpause", "caching", "getredir", "tracking", "trackinginfo", "setinfo", "help", "no-touch":
				return UnspecRO("introspection command not modelled")
			}
			return ErrExp("ERR") // unknown subcommand
		}
		return ErrExp("ERR") // CLIENT without a subcommand
	case "command":
		if len(args) >= 2 {
			switch strings.ToLower(args[1]) {
			case "count", "docs", "getkeys", "getkeysandflags", "info", "list", "help":
				return UnspecRO("introspection command not modelled")
			}
			return ErrExp("ERR") // unknown subcommand
		}
		return UnspecRO("introspection command not modelled")
	case "info":
		return UnspecRO("introspection command not modelled")
	}
	return c.exec(args)
}

// ArgumentError reports whether the command fails with a plain error on an empty database, i.e. (for
// the commands the emulator implements) because of its arguments and not because of the data.
func ArgumentError(args []string) bool {
	e := New().Apply(NewSession(), args, 1_700_000_000_000)
	return e.Err == "ERR" || e.Err == "*"
}

// RejectQueued undoes the queueing of the last command and marks the transaction as failed at queue time.
// negativeTimeout: Redis rejects a negative timeout ("timeout is negative"); the emulator documents and tests it
// as "poll once, do not block". No property covers negative timeouts, so the step is unspecified.
func negativeTimeout() Exp { return Unspecified("negative timeout") }

func (s *Session) RejectQueued() {
	if s.InMulti && len(s.Queue) > 0 {
		s.Queue = s.Queue[:len(s.Queue)-1]
		s.Dirty = true
	}
}
