package model

import (
	"math"
	"verif/harness/resp"
)

func init() {
	reg("lpush", -3, func(c *Ctx, a []string) Exp { return push(c, a[0], a[1:], true, false) })
	reg("rpush", -3, func(c *Ctx, a []string) Exp { return push(c, a[0], a[1:], false, false) })
	reg("lpushx", -3, func(c *Ctx, a []string) Exp { return push(c, a[0], a[1:], true, true) })
	reg("rpushx", -3, func(c *Ctx, a []string) Exp { return push(c, a[0], a[1:], false, true) })
	reg("lpop", -2, func(c *Ctx, a []string) Exp { return pop(c, a, true) })
	reg("rpop", -2, func(c *Ctx, a []string) Exp { return pop(c, a, false) })
	reg("llen", 2, func(c *Ctx, a []string) Exp {
		o, e := c.list(a[0])
		if e != nil {
			return *e
		}
		if o == nil {
			return IntExp(0)
		}
		return IntExp(int64(len(o.L)))
	})
	reg("lindex", 3, func(c *Ctx, a []string) Exp {
		i, ok := parseInt(a[1])
		if !ok {
			return intArgErr(c, a[0], TList, a[1])
		}
		o, e := c.list(a[0])
		if e != nil {
			return *e
		}
		if o == nil {
			return NilExp()
		}
		n := int64(len(o.L))
		if i < 0 {
			i += n
		}
		if i < 0 || i >= n {
			return NilExp()
		}
		return BulkExp(string(o.L[i]))
	})
	reg("lrange", 4, func(c *Ctx, a []string) Exp {
		s, ok1 := parseInt(a[1])
		e, ok2 := parseInt(a[2])
		if !ok1 || !ok2 {
			return intArgErr2(c, a[0], TList, a[1], a[2])
		}
		o, er := c.list(a[0])
		if er != nil {
			return *er
		}
		if o == nil {
			return Val(Arr())
		}
		lo, hi, empty := clampRange(s, e, int64(len(o.L)))
		if empty {
			return Val(Arr())
		}
		out := []resp.Value{}
		for i := lo; i <= hi; i++ {
			out = append(out, Bulk(string(o.L[i])))
		}
		return Val(Arr(out...))
	})
	reg("lset", 4, func(c *Ctx, a []string) Exp {
		i, ok := parseInt(a[1])
		if !ok {
			return intArgErr(c, a[0], TList, a[1])
		}
		o, e := c.list(a[0])
		if e != nil {
			return *e
		}
		if o == nil {
			return ErrExp("ERR")
		}
		n := int64(len(o.L))
		if i < 0 {
			i += n
		}
		if i < 0 || i >= n {
			return ErrExp("ERR")
		}
		o.L[i] = []byte(a[2])
		c.touch(a[0])
		return OK()
	})
	reg("linsert", 5, func(c *Ctx, a []string) Exp {
		w := upper(a[1])
		if w != "BEFORE" && w != "AFTER" {
			return argErr(c, a[0], TList)
		}
		o, e := c.list(a[0])
		if e != nil {
			return *e
		}
		if o == nil {
			return IntExp(0)
		}
		for i, el := range o.L {
			if string(el) == a[2] {
				at := i
				if w == "AFTER" {
					at = i + 1
				}
				o.L = append(o.L, nil)
				copy(o.L[at+1:], o.L[at:])
				o.L[at] = []byte(a[3])
				c.touch(a[0])
				return IntExp(int64(len(o.L)))
			}
		}
		return IntExp(-1)
	})
	reg("lrem", 4, func(c *Ctx, a []string) Exp {
		cnt, ok := parseInt(a[1])
		if !ok {
			return intArgErr(c, a[0], TList, a[1])
		}
		o, e := c.list(a[0])
		if e != nil {
			return *e
		}
		if o == nil {
			return IntExp(0)
		}
		if cnt == math.MinInt64 {
			return Unspecified("LREM count -2^63 (its negation overflows in Redis)")
		}
		removed := int64(0)
		var out [][]byte
		if cnt >= 0 {
			for _, el := range o.L {
				if string(el) == a[2] && (cnt == 0 || removed < cnt) {
					removed++
					continue
				}
				out = append(out, el)
			}
		} else {
			limit := -cnt
			if cnt == -cnt { // MinInt64
				limit = 1<<63 - 1
			}
			for i := len(o.L) - 1; i >= 0; i-- {
				el := o.L[i]
				if string(el) == a[2] && removed < limit {
					removed++
					continue
				}
				out = append([][]byte{el}, out...)
			}
		}
		if removed > 0 {
			o.L = out
			c.touch(a[0])
			c.dropIfEmpty(a[0], o)
		}
		return IntExp(removed)
	})
	reg("ltrim", 4, func(c *Ctx, a []string) Exp {
		s, ok1 := parseInt(a[1])
		e, ok2 := parseInt(a[2])
		if !ok1 || !ok2 {
			return intArgErr2(c, a[0], TList, a[1], a[2])
		}
		o, er := c.list(a[0])
		if er != nil {
			return *er
		}
		if o == nil {
			return OK()
		}
		lo, hi, empty := clampRange(s, e, int64(len(o.L)))
		if empty {
			c.del(a[0])
			return OK()
		}
		if lo != 0 || hi != int64(len(o.L))-1 {
			o.L = append([][]byte{}, o.L[lo:hi+1]...)
			c.touch(a[0])
		}
		return OK()
	})
	reg("lpos", -3, cmdLpos)
	reg("lmove", 5, func(c *Ctx, a []string) Exp {
		f, t := upper(a[2]), upper(a[3])
		if (f != "LEFT" && f != "RIGHT") || (t != "LEFT" && t != "RIGHT") {
			return AnyErrIfTyped(c, []string{a[0], a[1]}, TList)
		}
		return lmove(c, a[0], a[1], f == "LEFT", t == "LEFT")
	})
	reg("rpoplpush", 3, func(c *Ctx, a []string) Exp { return lmove(c, a[0], a[1], false, true) })
	reg("lmpop", -4, func(c *Ctx, a []string) Exp { return lmpop(c, a) })
}

// AnyErrIfTyped: syntax error; any error class if one of the keys has a wrong type.
func AnyErrIfTyped(c *Ctx, keys []string, want Type) Exp {
	for _, k := range keys {
		if o := c.get(k); o != nil && o.T != want {
			return AnyErr()
		}
	}
	return ErrExp("ERR")
}

func intArgErr(c *Ctx, key string, want Type, arg string) Exp {
	if looseInt(arg) {
		return Unspecified("non-canonical integer argument")
	}
	return argErr(c, key, want)
}

func intArgErr2(c *Ctx, key string, want Type, a1, a2 string) Exp {
	_, ok1 := parseInt(a1)
	_, ok2 := parseInt(a2)
	if (ok1 || looseInt(a1)) && (ok2 || looseInt(a2)) {
		return Unspecified("non-canonical integer argument")
	}
	return argErr(c, key, want)
}

// clampRange converts Redis start/stop (inclusive, negative from the end) to
// valid indexes; empty reports an empty range.
func clampRange(s, e, n int64) (lo, hi int64, empty bool) {
	if s < 0 {
		s += n
		if s < 0 {
			s = 0
		}
	}
	if e < 0 {
		e += n
	}
	if e >= n {
		e = n - 1
	}
	if s > e || s >= n || e < 0 {
		return 0, 0, true
	}
	return s, e, false
}

func (c *Ctx) list(key string) (*Obj, *Exp) {
	o := c.get(key)
	if o != nil && o.T != TList {
		e := wrongType()
		return nil, &e
	}
	return o, nil
}

func push(c *Ctx, key string, vals []string, left, onlyIfExists bool) Exp {
	o, e := c.list(key)
	if e != nil {
		return *e
	}
	if o == nil {
		if onlyIfExists {
			return IntExp(0)
		}
		o = &Obj{T: TList}
		c.db()[key] = o
	}
	for _, v := range vals {
		if left {
			o.L = append([][]byte{[]byte(v)}, o.L...)
		} else {
			o.L = append(o.L, []byte(v))
		}
	}
	c.touch(key)
	return IntExp(int64(len(o.L)))
}

func pop(c *Ctx, a []string, left bool) Exp {
	if len(a) > 2 {
		return ErrExp("ERR")
	}
	hasCount := len(a) == 2
	cnt := int64(1)
	if hasCount {
		n, ok := parseInt(a[1])
		if !ok {
			return intArgErr(c, a[0], TList, a[1])
		}
		if n < 0 {
			return argErr(c, a[0], TList)
		}
		cnt = n
	}
	o, e := c.list(a[0])
	if e != nil {
		return *e
	}
	if o == nil {
		if hasCount {
			return Val(resp.Value{Kind: '*', Null: true})
		}
		return NilExp()
	}
	if !hasCount {
		v := popOne(c, a[0], o, left)
		return BulkExp(string(v))
	}
	out := []resp.Value{}
	for i := int64(0); i < cnt && len(o.L) > 0; i++ {
		out = append(out, Bulk(string(popOne(c, a[0], o, left))))
	}
	return Val(Arr(out...))
}

func popOne(c *Ctx, key string, o *Obj, left bool) []byte {
	var v []byte
	if left {
		v = o.L[0]
		o.L = o.L[1:]
	} else {
		v = o.L[len(o.L)-1]
		o.L = o.L[:len(o.L)-1]
	}
	c.touch(key)
	c.dropIfEmpty(key, o)
	return v
}

func lmove(c *Ctx, src, dst string, fromLeft, toLeft bool) Exp {
	so := c.get(src)
	if so == nil {
		// Redis checks the source first; a missing source answers nil even if dst has another type
		return NilExp()
	}
	if so.T != TList {
		return wrongType()
	}
	do := c.get(dst)
	if do != nil && do.T != TList {
		return wrongType()
	}
	if src == dst {
		// rotation in place: the key (and its expiry) survives even with one element
		var v []byte
		if fromLeft {
			v, so.L = so.L[0], so.L[1:]
		} else {
			v, so.L = so.L[len(so.L)-1], so.L[:len(so.L)-1]
		}
		if toLeft {
			so.L = append([][]byte{v}, so.L...)
		} else {
			so.L = append(so.L, v)
		}
		c.touch(src)
		return BulkExp(string(v))
	}
	v := popOne(c, src, so, fromLeft)
	do = c.get(dst)
	if do == nil {
		do = &Obj{T: TList}
		c.db()[dst] = do
	}
	if toLeft {
		do.L = append([][]byte{v}, do.L...)
	} else {
		do.L = append(do.L, v)
	}
	c.touch(dst)
	return BulkExp(string(v))
}

func lmpop(c *Ctx, a []string) Exp {
	nk, ok := parseInt(a[0])
	if !ok {
		if looseInt(a[0]) {
			return Unspecified("non-canonical integer argument")
		}
		return AnyErr()
	}
	if nk <= 0 || int64(len(a)) < 1+nk+1 {
		return AnyErr()
	}
	keys := a[1 : 1+nk]
	rest := a[1+nk:]
	w := upper(rest[0])
	if w != "LEFT" && w != "RIGHT" {
		return AnyErrIfTyped(c, keys, TList)
	}
	cnt := int64(1)
	if len(rest) > 1 {
		if len(rest) != 3 || upper(rest[1]) != "COUNT" {
			return AnyErrIfTyped(c, keys, TList)
		}
		n, ok := parseInt(rest[2])
		if !ok {
			if looseInt(rest[2]) {
				return Unspecified("non-canonical integer argument")
			}
			return AnyErrIfTyped(c, keys, TList)
		}
		if n <= 0 {
			return AnyErrIfTyped(c, keys, TList)
		}
		cnt = n
	}
	for _, k := range keys {
		o := c.get(k)
		if o == nil {
			continue
		}
		if o.T != TList {
			return wrongType()
		}
		out := []resp.Value{}
		for i := int64(0); i < cnt && len(o.L) > 0; i++ {
			out = append(out, Bulk(string(popOne(c, k, o, w == "LEFT"))))
		}
		return Val(Arr(Bulk(k), Arr(out...)))
	}
	return Val(resp.Value{Kind: '*', Null: true})
}

func cmdLpos(c *Ctx, a []string) Exp {
	key, el := a[0], a[1]
	rank, count, maxlen := int64(1), int64(-1), int64(0)
	syn := false
	for i := 2; i < len(a); i++ {
		if i+1 >= len(a) {
			syn = true
			break
		}
		n, ok := parseInt(a[i+1])
		if !ok {
			if looseInt(a[i+1]) {
				return Unspecified("non-canonical integer argument")
			}
			syn = true
			break
		}
		switch upper(a[i]) {
		case "RANK":
			rank = n
			if n == 0 {
				syn = true
			}
			if n == -n && n != 0 { // MinInt64
				syn = true
			}
		case "COUNT":
			count = n
			if n < 0 {
				syn = true
			}
		case "MAXLEN":
			maxlen = n
			if n < 0 {
				syn = true
			}
		default:
			syn = true
		}
		i++
	}
	if syn {
		return argErr(c, key, TList)
	}
	o, e := c.list(key)
	if e != nil {
		return *e
	}
	hasCount := count >= 0
	if o == nil {
		if hasCount {
			return Val(Arr())
		}
		return NilExp()
	}
	want := int64(1)
	if hasCount {
		want = count // 0 = all
	}
	var found []resp.Value
	n := int64(len(o.L))
	skip := rank
	if skip < 0 {
		skip = -skip
	}
	skip--
	compared := int64(0)
	for step := int64(0); step < n; step++ {
		if maxlen > 0 && compared >= maxlen {
			break
		}
		idx := step
		if rank < 0 {
			idx = n - 1 - step
		}
		compared++
		if string(o.L[idx]) == el {
			if skip > 0 {
				skip--
				continue
			}
			found = append(found, Int(idx))
			if want != 0 && int64(len(found)) >= want {
				break
			}
		}
	}
	if hasCount {
		return Val(Arr(found...))
	}
	if len(found) == 0 {
		return NilExp()
	}
	return Val(found[0])
}
