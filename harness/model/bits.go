package model

import (
	"math/big"
	"strconv"

	"verif/harness/resp"
)

func getBit(b []byte, i int64) int {
	if i>>3 >= int64(len(b)) {
		return 0
	}
	return int(b[i>>3]>>(7-uint(i&7))) & 1
}

func setBitIn(b []byte, i int64, v int) {
	mask := byte(1) << (7 - uint(i&7))
	if v != 0 {
		b[i>>3] |= mask
	} else {
		b[i>>3] &^= mask
	}
}

func getUint(b []byte, off int64, bits int) uint64 {
	var v uint64
	for i := 0; i < bits; i++ {
		v = v<<1 | uint64(getBit(b, off+int64(i)))
	}
	return v
}

func setUint(b []byte, off int64, bits int, v uint64) {
	for i := 0; i < bits; i++ {
		setBitIn(b, off+int64(i), int(v>>uint(bits-1-i))&1)
	}
}

func (c *Ctx) str(key string) (*Obj, *Exp) {
	o := c.get(key)
	if o != nil && o.T != TString {
		e := wrongType()
		return nil, &e
	}
	return o, nil
}

const maxBitOffset = int64(1) << 32

func init() {
	reg("setbit", 4, func(c *Ctx, a []string) Exp {
		off, ok := parseInt(a[1])
		if !ok {
			return intArgErr(c, a[0], TString, a[1])
		}
		if off < 0 || off >= maxBitOffset {
			return argErr(c, a[0], TString)
		}
		if a[2] != "0" && a[2] != "1" {
			if looseInt(a[2]) {
				return Unspecified("non-canonical integer argument")
			}
			return argErr(c, a[0], TString)
		}
		o, e := c.str(a[0])
		if e != nil {
			return *e
		}
		if o == nil {
			o = &Obj{T: TString}
			c.db()[a[0]] = o
		}
		need := int(off>>3) + 1
		if len(o.S) < need {
			o.S = append(o.S, make([]byte, need-len(o.S))...)
		}
		old := getBit(o.S, off)
		setBitIn(o.S, off, int(a[2][0]-'0'))
		c.touch(a[0])
		return IntExp(int64(old))
	})
	reg("getbit", 3, func(c *Ctx, a []string) Exp {
		off, ok := parseInt(a[1])
		if !ok {
			return intArgErr(c, a[0], TString, a[1])
		}
		if off < 0 || off >= maxBitOffset {
			return argErr(c, a[0], TString)
		}
		o, e := c.str(a[0])
		if e != nil {
			return *e
		}
		if o == nil {
			return IntExp(0)
		}
		return IntExp(int64(getBit(o.S, off)))
	})
	reg("bitcount", -2, func(c *Ctx, a []string) Exp {
		if len(a) == 2 || len(a) > 4 {
			return argErr(c, a[0], TString)
		}
		var start, end int64
		isBit := false
		if len(a) >= 3 {
			s, ok1 := parseInt(a[1])
			e, ok2 := parseInt(a[2])
			if !ok1 || !ok2 {
				return intArgErr2(c, a[0], TString, a[1], a[2])
			}
			start, end = s, e
			if len(a) == 4 {
				switch upper(a[3]) {
				case "BIT":
					isBit = true
				case "BYTE":
				default:
					return argErr(c, a[0], TString)
				}
			}
		}
		o, e := c.str(a[0])
		if e != nil {
			return *e
		}
		if o == nil {
			return IntExp(0)
		}
		n := int64(len(o.S))
		if len(a) == 1 {
			start, end = 0, n-1
			if n == 0 {
				return IntExp(0)
			}
		} else {
			if start < 0 && end < 0 && start > end {
				return IntExp(0)
			}
			tot := n
			if isBit {
				tot = n * 8
			}
			if start < 0 {
				start += tot
			}
			if end < 0 {
				end += tot
			}
			if start < 0 {
				start = 0
			}
			if end < 0 {
				if tot > 0 && start == 0 {
					return UnspecRO("BITCOUNT with an end before the start of the string (version dependent clamp)")
				}
				end = 0
			}
			if end >= tot {
				end = tot - 1
			}
			if start > end {
				return IntExp(0)
			}
		}
		sb, eb := start, end
		if !isBit {
			sb, eb = start*8, end*8+7
		}
		cnt := int64(0)
		for i := sb; i <= eb; i++ {
			cnt += int64(getBit(o.S, i))
		}
		return IntExp(cnt)
	})
	reg("bitpos", -3, func(c *Ctx, a []string) Exp {
		if len(a) > 5 {
			return argErr(c, a[0], TString)
		}
		if a[1] != "0" && a[1] != "1" {
			if looseInt(a[1]) {
				return Unspecified("non-canonical integer argument")
			}
			return argErr(c, a[0], TString)
		}
		bit := int(a[1][0] - '0')
		// argument validity (Redis looks the key up before parsing the range)
		argsOK := true
		var start, end int64
		endGiven, isBit := false, false
		if len(a) >= 3 {
			s, ok := parseInt(a[2])
			if !ok {
				if looseInt(a[2]) {
					return UnspecRO("non-canonical integer argument")
				}
				argsOK = false
			}
			start = s
		}
		if len(a) >= 4 {
			e, ok := parseInt(a[3])
			if !ok {
				if looseInt(a[3]) {
					return UnspecRO("non-canonical integer argument")
				}
				argsOK = false
			}
			end, endGiven = e, true
		}
		if len(a) == 5 {
			switch upper(a[4]) {
			case "BIT":
				isBit = true
			case "BYTE":
			default:
				argsOK = false
			}
		}
		o := c.get(a[0])
		if o == nil {
			if !argsOK {
				return UnspecRO("BITPOS on a missing key with invalid range arguments")
			}
			if bit == 1 {
				return IntExp(-1)
			}
			return IntExp(0)
		}
		if o.T != TString {
			if !argsOK {
				return AnyErr()
			}
			return wrongType()
		}
		if !argsOK {
			return ErrExp("ERR")
		}
		n := int64(len(o.S))
		tot := n
		if isBit {
			tot = n * 8
		}
		if len(a) == 2 {
			start, end = 0, n-1
		} else {
			if !endGiven {
				end = tot - 1
			}
			if start < 0 {
				start += tot
			}
			if end < 0 {
				end += tot
			}
			if start < 0 {
				start = 0
			}
			if end < 0 {
				if tot > 0 && start == 0 {
					return UnspecRO("BITPOS with an end before the start of the string (version dependent clamp)")
				}
				end = 0
			}
			if end >= tot {
				end = tot - 1
			}
		}
		if start > end {
			return IntExp(-1)
		}
		sb, eb := start, end
		if !isBit {
			sb, eb = start*8, end*8+7
		}
		for i := sb; i <= eb; i++ {
			if getBit(o.S, i) == bit {
				return IntExp(i)
			}
		}
		if bit == 0 && !endGiven {
			return IntExp(eb + 1)
		}
		return IntExp(-1)
	})
	reg("bitop", -4, func(c *Ctx, a []string) Exp {
		op := upper(a[0])
		dest, srcs := a[1], a[2:]
		if op != "AND" && op != "OR" && op != "XOR" && op != "NOT" {
			return AnyErrIfTyped(c, srcs, TString)
		}
		if op == "NOT" && len(srcs) != 1 {
			return AnyErrIfTyped(c, srcs, TString)
		}
		var strs [][]byte
		maxLen := 0
		for _, k := range srcs {
			o := c.get(k)
			if o == nil {
				strs = append(strs, nil)
				continue
			}
			if o.T != TString {
				return wrongType()
			}
			strs = append(strs, o.S)
			if len(o.S) > maxLen {
				maxLen = len(o.S)
			}
		}
		res := make([]byte, maxLen)
		for i := 0; i < maxLen; i++ {
			at := func(s []byte) byte {
				if i < len(s) {
					return s[i]
				}
				return 0
			}
			v := at(strs[0])
			if op == "NOT" {
				v = ^v
			}
			for _, s := range strs[1:] {
				switch op {
				case "AND":
					v &= at(s)
				case "OR":
					v |= at(s)
				case "XOR":
					v ^= at(s)
				}
			}
			res[i] = v
		}
		if maxLen == 0 {
			if c.get(dest) != nil {
				c.del(dest)
			}
			return IntExp(0)
		}
		c.set(dest, &Obj{T: TString, S: res})
		return IntExp(int64(maxLen))
	})
	reg("bitfield", -2, func(c *Ctx, a []string) Exp { return bitfield(c, a, false) })
	reg("bitfield_ro", -2, func(c *Ctx, a []string) Exp { return bitfield(c, a, true) })
}

type bfOp struct {
	op     string // GET SET INCRBY
	signed bool
	bits   int
	off    int64
	val    int64
	ovf    string
}

func parseBfType(s string) (signed bool, bits int, ok bool) {
	if len(s) < 2 {
		return
	}
	switch s[0] {
	case 'i', 'I':
		signed = true
	case 'u', 'U':
	default:
		return
	}
	n, good := parseInt(s[1:])
	if !good || n < 1 || (signed && n > 64) || (!signed && n > 63) {
		return
	}
	return signed, int(n), true
}

func bitfield(c *Ctx, a []string, ro bool) Exp {
	key := a[0]
	var ops []bfOp
	ovf := "WRAP"
	syn := false
	unspec := false
	hasWrite := false
	standaloneOverflow := false
	highest := int64(-1)
	for i := 1; i < len(a) && !syn; {
		u := upper(a[i])
		need := 0
		switch u {
		case "GET":
			need = 2
		case "SET", "INCRBY":
			need = 3
		case "OVERFLOW":
			need = 1
		default:
			syn = true
			continue
		}
		if i+need >= len(a) {
			syn = true
			break
		}
		if u == "OVERFLOW" {
			m := upper(a[i+1])
			if m != "WRAP" && m != "SAT" && m != "FAIL" {
				syn = true
				break
			}
			ovf = m
			if ro {
				syn = true
			}
			i += 2
			// Redis accepts an OVERFLOW that is not followed by SET/INCRBY (it has no effect); the documented
			// grammar does not: leave that form unspecified
			if i >= len(a) || (upper(a[i]) != "SET" && upper(a[i]) != "INCRBY") {
				standaloneOverflow = true
			}
			continue
		}
		signed, bits, ok := parseBfType(a[i+1])
		if !ok {
			syn = true
			break
		}
		offS := a[i+2]
		mult := int64(1)
		if len(offS) > 0 && offS[0] == '#' {
			offS = offS[1:]
			mult = int64(bits)
		}
		off, ok := parseInt(offS)
		if !ok {
			if looseInt(offS) {
				unspec = true
			} else {
				syn = true
				break
			}
		}
		if off < 0 || (mult > 1 && off > maxBitOffset) {
			syn = true
			break
		}
		off *= mult
		if off+int64(bits) > maxBitOffset {
			syn = true
			break
		}
		op := bfOp{op: u, signed: signed, bits: bits, off: off, ovf: ovf}
		if u != "GET" {
			if ro {
				syn = true
				break
			}
			v, ok := parseInt(a[i+3])
			if !ok {
				if looseInt(a[i+3]) {
					unspec = true
				} else {
					syn = true
					break
				}
			}
			op.val = v
			hasWrite = true
			if off+int64(bits)-1 > highest {
				highest = off + int64(bits) - 1
			}
		}
		ops = append(ops, op)
		i += need + 1
	}
	if syn {
		return argErr(c, key, TString)
	}
	if unspec {
		return Unspecified("non-canonical integer argument")
	}
	if standaloneOverflow {
		return Unspecified("OVERFLOW not followed by SET/INCRBY")
	}
	o, e := c.str(key)
	if e != nil {
		return *e
	}
	var buf []byte
	if o != nil {
		buf = o.S
	}
	grew := false
	if hasWrite {
		if o == nil {
			o = &Obj{T: TString}
			c.db()[key] = o
			grew = true
		}
		need := int(highest>>3) + 1
		if len(o.S) < need {
			o.S = append(o.S, make([]byte, need-len(o.S))...)
			grew = true
		}
		buf = o.S
		c.touch(key)
	}
	failed := false
	out := make([]resp.Value, 0, len(ops))
	for _, op := range ops {
		raw := getUint(buf, op.off, op.bits)
		cur := new(big.Int)
		if op.signed {
			if op.bits < 64 && raw&(1<<uint(op.bits-1)) != 0 {
				cur.SetInt64(int64(raw | ^uint64(0)<<uint(op.bits)))
			} else {
				cur.SetInt64(int64(raw))
			}
		} else {
			cur.SetUint64(raw)
		}
		if op.op == "GET" {
			out = append(out, Int(cur.Int64()))
			continue
		}
		// target value before overflow handling
		var target *big.Int
		if op.op == "SET" {
			if op.signed {
				target = big.NewInt(op.val)
			} else {
				target = new(big.Int).SetUint64(uint64(op.val))
			}
		} else {
			target = new(big.Int).Add(cur, big.NewInt(op.val))
		}
		var min, max *big.Int
		if op.signed {
			max = new(big.Int).Sub(new(big.Int).Lsh(big.NewInt(1), uint(op.bits-1)), big.NewInt(1))
			min = new(big.Int).Neg(new(big.Int).Lsh(big.NewInt(1), uint(op.bits-1)))
		} else {
			max = new(big.Int).Sub(new(big.Int).Lsh(big.NewInt(1), uint(op.bits)), big.NewInt(1))
			min = big.NewInt(0)
		}
		over := target.Cmp(max) > 0
		under := target.Cmp(min) < 0
		if over || under {
			switch op.ovf {
			case "FAIL":
				out = append(out, Nil())
				failed = true
				continue
			case "SAT":
				if over {
					target = max
				} else {
					target = min
				}
			case "WRAP":
				mod := new(big.Int).Lsh(big.NewInt(1), uint(op.bits))
				target = new(big.Int).Mod(target, mod) // non-negative remainder
				if op.signed && target.Cmp(max) > 0 {
					target.Sub(target, mod)
				}
			}
		}
		var bitsVal uint64
		if target.Sign() < 0 {
			bitsVal = uint64(target.Int64())
		} else {
			bitsVal = target.Uint64()
		}
		setUint(buf, op.off, op.bits, bitsVal)
		if op.op == "SET" {
			out = append(out, Int(cur.Int64()))
		} else {
			out = append(out, Int(target.Int64()))
		}
	}
	if failed && grew {
		// Redis zero-extends (or creates) the string for the farthest write before executing, even when that
		// write then FAILs; whether a failed write may extend the string is left unspecified
		return Unspecified("OVERFLOW FAIL on a write beyond the end of the string")
	}
	return Val(Arr(out...))
}

var _ = strconv.Itoa
