package model

import (
	"math"
	"sort"
	"strconv"

	"verif/harness/resp"
)

func (c *Ctx) hash(key string) (*Obj, *Exp) {
	o := c.get(key)
	if o != nil && o.T != THash {
		e := wrongType()
		return nil, &e
	}
	return o, nil
}

func sortedFields(o *Obj) []string {
	ks := make([]string, 0, len(o.H))
	for k := range o.H {
		ks = append(ks, k)
	}
	sort.Strings(ks)
	return ks
}

func init() {
	hset := func(c *Ctx, a []string, okReply bool) Exp {
		if len(a)%2 != 1 {
			return argErr(c, a[0], THash)
		}
		o, e := c.hash(a[0])
		if e != nil {
			return *e
		}
		if o == nil {
			o = &Obj{T: THash, H: map[string]string{}}
			c.db()[a[0]] = o
		}
		added := int64(0)
		for i := 1; i < len(a); i += 2 {
			if _, ok := o.H[a[i]]; !ok {
				added++
			}
			o.H[a[i]] = a[i+1]
		}
		c.touch(a[0])
		if okReply {
			return OK()
		}
		return IntExp(added)
	}
	reg("hset", -4, func(c *Ctx, a []string) Exp { return hset(c, a, false) })
	reg("hmset", -4, func(c *Ctx, a []string) Exp { return hset(c, a, true) })
	reg("hsetnx", 4, func(c *Ctx, a []string) Exp {
		o, e := c.hash(a[0])
		if e != nil {
			return *e
		}
		if o != nil {
			if _, ok := o.H[a[1]]; ok {
				return IntExp(0)
			}
		} else {
			o = &Obj{T: THash, H: map[string]string{}}
			c.db()[a[0]] = o
		}
		o.H[a[1]] = a[2]
		c.touch(a[0])
		return IntExp(1)
	})
	reg("hget", 3, func(c *Ctx, a []string) Exp {
		o, e := c.hash(a[0])
		if e != nil {
			return *e
		}
		if o == nil {
			return NilExp()
		}
		v, ok := o.H[a[1]]
		if !ok {
			return NilExp()
		}
		return BulkExp(v)
	})
	reg("hmget", -3, func(c *Ctx, a []string) Exp {
		o, e := c.hash(a[0])
		if e != nil {
			return *e
		}
		out := make([]resp.Value, len(a)-1)
		for i, f := range a[1:] {
			out[i] = Nil()
			if o != nil {
				if v, ok := o.H[f]; ok {
					out[i] = Bulk(v)
				}
			}
		}
		return Val(Arr(out...))
	})
	reg("hgetall", 2, func(c *Ctx, a []string) Exp {
		o, e := c.hash(a[0])
		if e != nil {
			return *e
		}
		out := []resp.Value{}
		if o != nil {
			for _, k := range sortedFields(o) {
				out = append(out, Bulk(k), Bulk(o.H[k]))
			}
		}
		return Exp{Val: Arr(out...), Pairs: true}
	})
	reg("hkeys", 2, func(c *Ctx, a []string) Exp {
		o, e := c.hash(a[0])
		if e != nil {
			return *e
		}
		out := []resp.Value{}
		if o != nil {
			for _, k := range sortedFields(o) {
				out = append(out, Bulk(k))
			}
		}
		return Exp{Val: Arr(out...), Multiset: true}
	})
	reg("hvals", 2, func(c *Ctx, a []string) Exp {
		o, e := c.hash(a[0])
		if e != nil {
			return *e
		}
		out := []resp.Value{}
		if o != nil {
			for _, k := range sortedFields(o) {
				out = append(out, Bulk(o.H[k]))
			}
		}
		return Exp{Val: Arr(out...), Multiset: true}
	})
	reg("hlen", 2, func(c *Ctx, a []string) Exp {
		o, e := c.hash(a[0])
		if e != nil {
			return *e
		}
		if o == nil {
			return IntExp(0)
		}
		return IntExp(int64(len(o.H)))
	})
	reg("hexists", 3, func(c *Ctx, a []string) Exp {
		o, e := c.hash(a[0])
		if e != nil {
			return *e
		}
		if o == nil {
			return IntExp(0)
		}
		if _, ok := o.H[a[1]]; ok {
			return IntExp(1)
		}
		return IntExp(0)
	})
	reg("hstrlen", 3, func(c *Ctx, a []string) Exp {
		o, e := c.hash(a[0])
		if e != nil {
			return *e
		}
		if o == nil {
			return IntExp(0)
		}
		return IntExp(int64(len(o.H[a[1]])))
	})
	reg("hdel", -3, func(c *Ctx, a []string) Exp {
		o, e := c.hash(a[0])
		if e != nil {
			return *e
		}
		if o == nil {
			return IntExp(0)
		}
		n := int64(0)
		for _, f := range a[1:] {
			if _, ok := o.H[f]; ok {
				delete(o.H, f)
				n++
			}
		}
		if n > 0 {
			c.touch(a[0])
			c.dropIfEmpty(a[0], o)
		}
		return IntExp(n)
	})
	reg("hincrby", 4, func(c *Ctx, a []string) Exp {
		d, ok := parseInt(a[2])
		if !ok {
			return intArgErr(c, a[0], THash, a[2])
		}
		o, e := c.hash(a[0])
		if e != nil {
			return *e
		}
		cur := int64(0)
		if o != nil {
			if v, ok := o.H[a[1]]; ok {
				n, ok := parseInt(v)
				if !ok {
					if looseInt(v) {
						return Unspecified("stored value is a non-canonical integer")
					}
					return ErrExp("ERR")
				}
				cur = n
			}
		}
		if (d > 0 && cur > math.MaxInt64-d) || (d < 0 && cur < math.MinInt64-d) {
			return ErrExp("ERR")
		}
		cur += d
		if o == nil {
			o = &Obj{T: THash, H: map[string]string{}}
			c.db()[a[0]] = o
		}
		o.H[a[1]] = strconv.FormatInt(cur, 10)
		c.touch(a[0])
		return IntExp(cur)
	})
	reg("hincrbyfloat", 4, func(c *Ctx, a []string) Exp {
		if infNaN(a[2]) {
			return AnyErr()
		}
		d, ok, unspec := parseFloat(a[2])
		if unspec {
			return Unspecified("float argument form")
		}
		if !ok {
			return argErr(c, a[0], THash)
		}
		o, e := c.hash(a[0])
		if e != nil {
			return *e
		}
		cur := 0.0
		if o != nil {
			if v, ok := o.H[a[1]]; ok {
				f, ok, unspec := parseFloat(v)
				if unspec {
					return Unspecified("stored float form")
				}
				if !ok {
					return ErrExp("ERR")
				}
				cur = f
			}
		}
		res := cur + d
		if math.IsInf(res, 0) || math.IsNaN(res) {
			return Unspecified("float overflow")
		}
		if o == nil {
			o = &Obj{T: THash, H: map[string]string{}}
			c.db()[a[0]] = o
		}
		o.H[a[1]] = fmtFloat(res)
		c.touch(a[0])
		return Exp{Val: Bulk(fmtFloat(res)), Float: true}
	})
	reg("hrandfield", -2, func(c *Ctx, a []string) Exp {
		if len(a) > 3 {
			return argErr(c, a[0], THash)
		}
		hasCount := len(a) >= 2
		cnt := int64(0)
		withValues := false
		if hasCount {
			n, ok := parseInt(a[1])
			if !ok {
				return intArgErr(c, a[0], THash, a[1])
			}
			cnt = n
			if cnt == math.MinInt64 {
				return AnyErr() // outside -LONG_MAX..LONG_MAX: a range error whatever the key holds
			}
			if len(a) == 3 {
				if upper(a[2]) != "WITHVALUES" {
					return argErr(c, a[0], THash)
				}
				withValues = true
			}
		}
		o, e := c.hash(a[0])
		if e != nil {
			return *e
		}
		if !hasCount {
			if o == nil {
				return NilExp()
			}
			h := copyMap(o.H)
			return Exp{Note: "an existing field", Pred: func(g resp.Value) string {
				if !g.IsString() {
					return "expected an existing field, got " + g.String()
				}
				if _, ok := h[g.Text()]; !ok {
					return "returned field " + g.String() + " does not exist"
				}
				return ""
			}}
		}
		if o == nil || cnt == 0 {
			return Val(Arr())
		}
		h := copyMap(o.H)
		return Exp{Note: "random fields", Pred: func(g resp.Value) string {
			return checkRandom(g, h, cnt, withValues)
		}}
	})
}

func copyMap(m map[string]string) map[string]string {
	n := make(map[string]string, len(m))
	for k, v := range m {
		n[k] = v
	}
	return n
}

// checkRandom validates HRANDFIELD/SRANDMEMBER replies: positive count =>
// min(count, n) distinct existing elements; negative => exactly |count|.
// In RESP2 WITHVALUES replies are flat; RESP3 nested pairs are flattened by Down.
func checkRandom(g resp.Value, h map[string]string, cnt int64, withValues bool) string {
	if g.Kind != '*' || g.Null {
		return "expected an array, got " + g.String()
	}
	var fields, values []string
	el := g.Elems
	if withValues {
		// accept flat [f v f v] or nested [[f v] ...]
		if len(el) > 0 && el[0].Kind == '*' {
			for _, p := range el {
				if len(p.Elems) != 2 {
					return "bad pair " + p.String()
				}
				fields = append(fields, p.Elems[0].Text())
				values = append(values, p.Elems[1].Text())
			}
		} else {
			if len(el)%2 != 0 {
				return "odd number of elements with WITHVALUES: " + g.String()
			}
			for i := 0; i+1 < len(el); i += 2 {
				fields = append(fields, el[i].Text())
				values = append(values, el[i+1].Text())
			}
		}
	} else {
		for _, e := range el {
			if !e.IsString() {
				return "non-string element in " + g.String()
			}
			fields = append(fields, e.Text())
		}
	}
	want := cnt
	if cnt > 0 {
		if int64(len(h)) < cnt {
			want = int64(len(h))
		}
	} else {
		want = -cnt
	}
	if int64(len(fields)) != want {
		return "expected " + strconv.FormatInt(want, 10) + " elements, got " + strconv.Itoa(len(fields)) + ": " + g.String()
	}
	seen := map[string]bool{}
	for i, f := range fields {
		v, ok := h[f]
		if !ok {
			return "returned element " + strconv.Quote(f) + " does not exist"
		}
		if withValues && values[i] != v {
			return "value of " + strconv.Quote(f) + " is " + strconv.Quote(v) + ", reply has " + strconv.Quote(values[i])
		}
		if cnt > 0 && seen[f] {
			return "element " + strconv.Quote(f) + " repeated although count is positive"
		}
		seen[f] = true
	}
	return ""
}
