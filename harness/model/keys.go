package model

import (
	"math"
	"sort"
	"strconv"
	"strings"

	"verif/harness/resp"
)

// Glob is a port of Redis' stringmatchlen (case sensitive).
func Glob(pattern, str string) bool { return globMatch([]byte(pattern), []byte(str)) }

func globMatch(p, s []byte) bool {
	for len(p) > 0 {
		switch p[0] {
		case '*':
			for len(p) > 1 && p[1] == '*' {
				p = p[1:]
			}
			if len(p) == 1 {
				return true
			}
			for i := 0; i <= len(s); i++ {
				if globMatch(p[1:], s[i:]) {
					return true
				}
			}
			return false
		case '?':
			if len(s) == 0 {
				return false
			}
			s = s[1:]
		case '[':
			if len(s) == 0 {
				return false
			}
			p = p[1:]
			not := len(p) > 0 && p[0] == '^'
			if not {
				p = p[1:]
			}
			match := false
			for {
				if len(p) == 0 {
					// unterminated class: Redis backs up one char; treat the class as ended
					break
				}
				if p[0] == '\\' && len(p) >= 2 {
					p = p[1:]
					if p[0] == s[0] {
						match = true
					}
				} else if p[0] == ']' {
					break
				} else if len(p) >= 3 && p[1] == '-' {
					lo, hi := p[0], p[2]
					if lo > hi {
						lo, hi = hi, lo
					}
					p = p[2:]
					if s[0] >= lo && s[0] <= hi {
						match = true
					}
				} else if p[0] == s[0] {
					match = true
				}
				p = p[1:]
			}
			if not {
				match = !match
			}
			if !match {
				return false
			}
			s = s[1:]
			if len(p) == 0 {
				// pattern ended inside the class
				return len(s) == 0
			}
		case '\\':
			if len(p) >= 2 {
				p = p[1:]
			}
			fallthrough
		default:
			if len(s) == 0 || p[0] != s[0] {
				return false
			}
			s = s[1:]
		}
		p = p[1:]
		if len(s) == 0 {
			for len(p) > 0 && p[0] == '*' {
				p = p[1:]
			}
			break
		}
	}
	return len(p) == 0 && len(s) == 0
}

// GlobUncertain reports patterns whose treatment differs between Redis
// versions / is an edge of the C implementation (unterminated class, trailing backslash).
func GlobUncertain(p string) bool {
	depth := false
	for i := 0; i < len(p); i++ {
		switch p[i] {
		case '\\':
			if i == len(p)-1 {
				return true
			}
			i++
		case '[':
			if !depth {
				depth = true
				if i+1 < len(p) && p[i+1] == '^' {
					i++
				}
				if i+1 < len(p) && p[i+1] == ']' {
					return true // empty class
				}
			}
		case ']':
			depth = false
		}
	}
	return depth
}

func init() {
	del := func(c *Ctx, a []string) Exp {
		n := int64(0)
		for _, k := range a {
			if c.del(k) {
				n++
			}
		}
		return IntExp(n)
	}
	reg("del", -2, del)
	reg("unlink", -2, del)
	reg("exists", -2, func(c *Ctx, a []string) Exp {
		n := int64(0)
		for _, k := range a {
			if c.get(k) != nil {
				n++
			}
		}
		return IntExp(n)
	})
	reg("touch", -2, func(c *Ctx, a []string) Exp {
		n := int64(0)
		for _, k := range a {
			if c.get(k) != nil {
				n++
			}
		}
		return IntExp(n)
	})
	reg("type", 2, func(c *Ctx, a []string) Exp {
		o := c.get(a[0])
		if o == nil {
			return Val(Simple("none"))
		}
		return Val(Simple(o.T.String()))
	})
	reg("rename", 3, func(c *Ctx, a []string) Exp { return rename(c, a[0], a[1], false) })
	reg("renamenx", 3, func(c *Ctx, a []string) Exp { return rename(c, a[0], a[1], true) })
	reg("copy", -3, cmdCopy)
	reg("dump", 2, func(c *Ctx, a []string) Exp {
		o := c.get(a[0])
		if o == nil {
			return NilExp()
		}
		snap := o.clone()
		snap.Deadline, snap.DeadlineHi = 0, 0
		return Exp{DumpOf: snap, Pred: func(got resp.Value) string {
			if (got.Kind != '$' && got.Kind != '=') || got.Null || len(got.Str) == 0 {
				return "expected a non-empty bulk string (the serialized value)"
			}
			return ""
		}}
	})
	reg("restore", -4, cmdRestore)
	reg("keys", 2, func(c *Ctx, a []string) Exp {
		if GlobUncertain(a[0]) {
			return UnspecRO("glob pattern with unterminated class or trailing backslash")
		}
		var out []string
		for _, k := range c.liveKeys() {
			if k == "" && a[0] != "*" {
				return UnspecRO("glob against an empty key name")
			}
			if Glob(a[0], k) {
				out = append(out, k)
			}
		}
		return Exp{Val: BulkArr(out), Multiset: true}
	})
	reg("randomkey", 1, func(c *Ctx, a []string) Exp {
		ks := c.liveKeys()
		if len(ks) == 0 {
			return NilExp()
		}
		set := map[string]bool{}
		for _, k := range ks {
			set[k] = true
		}
		return Exp{Note: "an existing key", Pred: func(g resp.Value) string {
			if !g.IsString() || !set[g.Text()] {
				return "expected an existing key, got " + g.String()
			}
			return ""
		}}
	})
	reg("dbsize", 1, func(c *Ctx, a []string) Exp { return IntExp(int64(len(c.liveKeys()))) })
	reg("ping", -1, func(c *Ctx, a []string) Exp {
		if len(a) > 1 {
			return ErrExp("ERR")
		}
		if len(a) == 1 {
			return BulkExp(a[0])
		}
		return Val(Simple("PONG"))
	})
	reg("echo", 2, func(c *Ctx, a []string) Exp { return BulkExp(a[0]) })

	// ---- expiry ----
	reg("expire", -3, func(c *Ctx, a []string) Exp { return expire(c, a, 1000, false) })
	reg("pexpire", -3, func(c *Ctx, a []string) Exp { return expire(c, a, 1, false) })
	reg("expireat", -3, func(c *Ctx, a []string) Exp { return expire(c, a, 1000, true) })
	reg("pexpireat", -3, func(c *Ctx, a []string) Exp { return expire(c, a, 1, true) })
	reg("persist", 2, func(c *Ctx, a []string) Exp {
		o := c.get(a[0])
		if o == nil || o.Deadline == 0 {
			return IntExp(0)
		}
		o.Deadline, o.DeadlineHi = 0, 0
		c.touch(a[0])
		return IntExp(1)
	})
	ttl := func(unit int64, abs bool) handler {
		return func(c *Ctx, a []string) Exp {
			o := c.get(a[0])
			if o == nil {
				return IntExp(-2)
			}
			if o.Deadline == 0 {
				return IntExp(-1)
			}
			lo, hi := o.Deadline, o.DeadlineHi
			if !abs {
				lo, hi = o.Deadline-c.NowHi, o.DeadlineHi-c.Now
			}
			lo, hi = lo-Gran, hi+Gran
			return Exp{Note: "ttl in [" + strconv.FormatInt(lo, 10) + "," + strconv.FormatInt(hi, 10) + "] ms", Pred: func(g resp.Value) string {
				if g.Kind != ':' {
					return "expected an integer, got " + g.String()
				}
				// seconds may be rounded either way (TTL rounds to nearest, EXPIRETIME truncates): allow one unit
				slack := int64(0)
				if unit > 1 {
					slack = unit
				}
				got := g.Int * unit
				if got < lo-slack || got > hi+slack {
					return "expected a value in [" + strconv.FormatInt((lo-slack)/unit, 10) + "," + strconv.FormatInt((hi+slack)/unit, 10) + "], got " + g.String()
				}
				return ""
			}}
		}
	}
	reg("ttl", 2, ttl(1000, false))
	reg("pttl", 2, ttl(1, false))
	reg("expiretime", 2, ttl(1000, true))
	reg("pexpiretime", 2, ttl(1, true))
	reg("sort", -2, cmdSort)
	scan := func(c *Ctx, a []string) Exp { return UnspecRO("SCAN family is decided by C17") }
	reg("scan", -2, scan)
	reg("hscan", -3, scan)
	reg("sscan", -3, scan)
}

// liveKeys returns the sorted live keys of the selected database as seen by this command.
func (c *Ctx) liveKeys() []string {
	var ks []string
	for k := range c.db() {
		o, amb := c.M.GetI(c.S.DB, k, c.Now, c.NowHi)
		if amb {
			c.Ambig = true
		}
		if o != nil {
			ks = append(ks, k)
		}
	}
	sort.Strings(ks)
	return ks
}

func rename(c *Ctx, src, dst string, nx bool) Exp {
	so := c.get(src)
	if so == nil {
		return ErrExp("ERR")
	}
	if src == dst {
		if nx {
			return IntExp(0)
		}
		return OK()
	}
	if nx && c.get(dst) != nil {
		return IntExp(0)
	}
	delete(c.db(), src)
	c.touch(src)
	c.set(dst, so)
	if nx {
		return IntExp(1)
	}
	return OK()
}

func cmdCopy(c *Ctx, a []string) Exp {
	src, dst := a[0], a[1]
	db := c.S.DB
	replace := false
	for i := 2; i < len(a); i++ {
		switch upper(a[i]) {
		case "REPLACE":
			replace = true
		case "DB":
			if i+1 >= len(a) {
				return ErrExp("ERR")
			}
			n, ok := parseInt(a[i+1])
			if !ok {
				if looseInt(a[i+1]) {
					return Unspecified("non-canonical integer argument")
				}
				return ErrExp("ERR")
			}
			if n < 0 || n > 15 {
				return ErrExp("ERR")
			}
			db = int(n)
			i++
		default:
			return ErrExp("ERR")
		}
	}
	if db == c.S.DB && src == dst {
		return ErrExp("ERR")
	}
	so := c.get(src)
	if so == nil {
		return IntExp(0)
	}
	dobj, amb := c.M.GetI(db, dst, c.Now, c.NowHi)
	if amb {
		c.Ambig = true
	}
	if dobj != nil && !replace {
		return IntExp(0)
	}
	c.M.DB[db][dst] = so.clone()
	c.M.touch(db, dst)
	return IntExp(1)
}

func expire(c *Ctx, a []string, unit int64, abs bool) Exp {
	n, ok := parseInt(a[1])
	if !ok {
		if looseInt(a[1]) {
			return Unspecified("non-canonical integer argument")
		}
		return ErrExp("ERR")
	}
	flags := map[string]bool{}
	for _, f := range a[2:] {
		u := upper(f)
		if u != "NX" && u != "XX" && u != "GT" && u != "LT" {
			return ErrExp("ERR")
		}
		flags[u] = true
	}
	if len(flags) > 1 {
		return Unspecified("several of NX/XX/GT/LT at once")
	}
	// overflow of the conversion to ms
	if unit == 1000 && (n > math.MaxInt64/1000 || n < math.MinInt64/1000) {
		return ErrExp("ERR")
	}
	when := n * unit
	whenHi := when
	if !abs {
		if when > 0 && when > math.MaxInt64-c.NowHi {
			return ErrExp("ERR")
		}
		when, whenHi = when+c.Now, when+c.NowHi
	}
	if when > maxSafeMs && when > c.NowHi {
		return Unspecified("deadline beyond 2^53 ms")
	}
	o := c.get(a[0])
	if o == nil {
		return IntExp(0)
	}
	// conditions compare deadlines; they are decidable only when the intervals do not overlap
	later := func() (bool, bool) { // new deadline later than the current one? (value, decidable)
		if when > o.DeadlineHi {
			return true, true
		}
		if whenHi <= o.Deadline {
			return false, true
		}
		if when == whenHi && o.Deadline == o.DeadlineHi {
			return when > o.Deadline, true
		}
		return false, false
	}
	earlier := func() (bool, bool) {
		if whenHi < o.Deadline {
			return true, true
		}
		if when >= o.DeadlineHi {
			return false, true
		}
		if when == whenHi && o.Deadline == o.DeadlineHi {
			return when < o.Deadline, true
		}
		return false, false
	}
	has := o.Deadline != 0
	switch {
	case flags["NX"] && has:
		return IntExp(0)
	case flags["XX"] && !has:
		return IntExp(0)
	case flags["GT"]:
		if !has {
			return IntExp(0)
		}
		v, ok := later()
		if !ok {
			c.Ambig = true
		}
		if !v {
			return IntExp(0)
		}
	case flags["LT"] && has:
		v, ok := earlier()
		if !ok {
			c.Ambig = true
		}
		if !v {
			return IntExp(0)
		}
	}
	if whenHi+Gran <= c.Now {
		c.del(a[0])
		return IntExp(1)
	}
	if when-Gran <= c.NowHi {
		c.Ambig = true
	}
	o.Deadline, o.DeadlineHi = when, whenHi
	c.touch(a[0])
	return IntExp(1)
}

// ---- SORT -----------------------------------------------------------------------

func cmdSort(c *Ctx, a []string) Exp {
	key := a[0]
	var by string
	hasBy, desc, alpha, hasLimit := false, false, false, false
	var off, cnt int64
	var gets []string
	store := ""
	for i := 1; i < len(a); i++ {
		switch upper(a[i]) {
		case "ASC":
			desc = false
		case "DESC":
			desc = true
		case "ALPHA":
			alpha = true
		case "LIMIT":
			if i+2 >= len(a) {
				return argErr(c, key, TList)
			}
			o1, ok1 := parseInt(a[i+1])
			o2, ok2 := parseInt(a[i+2])
			if !ok1 || !ok2 {
				if (ok1 || looseInt(a[i+1])) && (ok2 || looseInt(a[i+2])) {
					return Unspecified("non-canonical integer argument")
				}
				return AnyErr()
			}
			off, cnt, hasLimit = o1, o2, true
			i += 2
		case "BY":
			if i+1 >= len(a) {
				return AnyErr()
			}
			by, hasBy = a[i+1], true
			i++
		case "GET":
			if i+1 >= len(a) {
				return AnyErr()
			}
			gets = append(gets, a[i+1])
			i++
		case "STORE":
			if i+1 >= len(a) {
				return AnyErr()
			}
			store = a[i+1]
			i++
		default:
			return AnyErr()
		}
	}
	o := c.get(key)
	if o != nil && o.T != TList && o.T != TSet {
		return wrongType()
	}
	var elems []string
	isSet := false
	if o != nil {
		if o.T == TList {
			for _, e := range o.L {
				elems = append(elems, string(e))
			}
		} else {
			isSet = true
			elems = sortedMembers(o.Set)
		}
	}
	noSort := hasBy && !strings.Contains(by, "*")
	if strings.Contains(by, "->") {
		if store != "" {
			return Unspecified("SORT BY hash field")
		}
		return UnspecRO("SORT BY hash field")
	}
	for _, g := range gets {
		if strings.Contains(g, "->") {
			if store != "" {
				return Unspecified("SORT GET hash field")
			}
			return UnspecRO("SORT GET hash field")
		}
	}
	if isSet && noSort {
		// set order without sorting is arbitrary (Redis sorts sets lexicographically only when STORE/scripts need determinism)
		if store != "" {
			return Unspecified("SORT of a set BY nosort")
		}
		return UnspecRO("SORT of a set BY nosort")
	}
	type item struct {
		el  string
		w   float64
		ws  string
		has bool
	}
	items := make([]item, len(elems))
	for i, e := range elems {
		items[i] = item{el: e, ws: e, has: true}
	}
	lookup := func(pat, el string) (string, bool) {
		k := strings.Replace(pat, "*", el, 1)
		ko := c.get(k)
		if ko == nil || ko.T != TString {
			return "", false
		}
		return string(ko.S), true
	}
	if !noSort {
		if hasBy {
			for i := range items {
				v, ok := lookup(by, items[i].el)
				if !ok {
					if store != "" {
						return Unspecified("SORT BY with a missing weight key")
					}
					return UnspecRO("SORT BY with a missing weight key")
				}
				items[i].ws = v
			}
		}
		if !alpha {
			for i := range items {
				f, ok, unspec := parseFloat(items[i].ws)
				if unspec {
					return UnspecRO("SORT numeric form")
				}
				if !ok {
					return ErrExp("ERR")
				}
				items[i].w = f
			}
		}
		// equal weights: Redis compares the elements themselves as a tie-break only when BY is used
		// with ALPHA ...; to stay safe, ties make the order unspecified unless the elements are equal too
		sort.SliceStable(items, func(i, j int) bool {
			if alpha {
				if items[i].ws != items[j].ws {
					return items[i].ws < items[j].ws
				}
			} else if items[i].w != items[j].w {
				return items[i].w < items[j].w
			}
			return items[i].el < items[j].el
		})
		// ALPHA with BY has no tie-break in Redis (unstable sort): ties between different elements are unspecified
		for i := 1; i < len(items); i++ {
			if alpha && hasBy && items[i].ws == items[i-1].ws && items[i].el != items[i-1].el {
				if store != "" {
					return Unspecified("SORT BY ... ALPHA with tied weights")
				}
				return UnspecRO("SORT BY ... ALPHA with tied weights")
			}
		}
		if desc {
			for i, j := 0, len(items)-1; i < j; i, j = i+1, j-1 {
				items[i], items[j] = items[j], items[i]
			}
		}
	} else if desc && !isSet {
		// BY nosort + DESC on a list: Redis reverses the range selection only with LIMIT; leave unspecified
		if store != "" {
			return Unspecified("SORT BY nosort DESC")
		}
		return UnspecRO("SORT BY nosort DESC")
	}
	if hasLimit {
		n := int64(len(items))
		if off < 0 {
			off = 0
		}
		if off > n {
			off = n
		}
		end := n
		if cnt >= 0 && off+cnt < n {
			end = off + cnt
		}
		items = items[off:end]
	}
	var out []resp.Value
	for _, it := range items {
		if len(gets) == 0 {
			out = append(out, Bulk(it.el))
			continue
		}
		for _, g := range gets {
			if g == "#" {
				out = append(out, Bulk(it.el))
			} else if v, ok := lookup(g, it.el); ok {
				out = append(out, Bulk(v))
			} else {
				out = append(out, Nil())
			}
		}
	}
	if store == "" {
		return Val(Arr(out...))
	}
	if len(out) == 0 {
		if c.get(store) != nil {
			c.del(store)
		}
		return IntExp(0)
	}
	l := &Obj{T: TList}
	for _, v := range out {
		if v.Null {
			l.L = append(l.L, []byte{})
		} else {
			l.L = append(l.L, v.Str)
		}
	}
	c.set(store, l)
	return IntExp(int64(len(out)))
}

// RESTORE key ttl serialized-value [REPLACE] [ABSTTL] [IDLETIME seconds] [FREQ frequency]
func cmdRestore(c *Ctx, a []string) Exp {
	key := a[0]
	ttl, ok := parseInt(a[1])
	if !ok {
		if looseInt(a[1]) {
			return Unspecified("non-canonical integer argument")
		}
		return ErrExp("ERR")
	}
	replace, abs := false, false
	for i := 3; i < len(a); i++ {
		switch upper(a[i]) {
		case "REPLACE":
			replace = true
		case "ABSTTL":
			abs = true
		case "IDLETIME", "FREQ":
			if i+1 >= len(a) {
				return ErrExp("ERR")
			}
			n, ok := parseInt(a[i+1])
			if !ok || n < 0 || (upper(a[i]) == "FREQ" && n > 255) {
				return AnyErr()
			}
			i++
		default:
			return ErrExp("ERR")
		}
	}
	snap := c.M.Dumps[a[2]]
	busy := c.get(key) != nil && !replace
	nerr := 0
	for _, b := range []bool{snap == nil, busy, ttl < 0} {
		if b {
			nerr++
		}
	}
	switch {
	case nerr > 1:
		return AnyErr() // which of several errors is reported is not pinned down
	case busy:
		return ErrExp("BUSYKEY")
	case snap == nil, ttl < 0:
		return ErrExp("ERR")
	}
	o := snap.clone()
	if ttl != 0 {
		if ttl > maxSafeMs {
			return Unspecified("deadline beyond 2^53 ms")
		}
		if abs {
			o.Deadline, o.DeadlineHi = ttl, ttl
		} else {
			o.Deadline, o.DeadlineHi = ttl+c.Now, ttl+c.NowHi
		}
	}
	c.set(key, o)
	return OK()
}
