// Package verdict collects what a check observed and turns it into the
// three-valued outcome, the evidence file, replay files and the exit code.
package verdict

import (
	"bufio"
	"encoding/json"
	"fmt"
	"os"
	"path/filepath"
	"regexp"
	"sort"
	"strconv"
	"strings"
	"sync"
	"time"
)

type known struct {
	Prop string
	Sig  string
	Text string
}

type Run struct {
	Prop  string
	Tier  string
	Seed  int64
	Level string
	Root  string
	Rule  string

	start time.Time
	mu    sync.Mutex

	evals        int64
	distinct     map[string]struct{}
	samples      []any
	extra        map[string]any
	counters     map[string]int64
	assumptions  []string
	violSigs     map[string]int
	violOrder    []string
	violReplay   map[string]string
	knownSeen    map[string]int
	knownText    map[string]string
	knownList    []known
	inconclusive map[string]int
	replayN      int
	exhaustive   bool
	MaxSamples   int
}

func Root() string {
	if r := os.Getenv("VERIF_ROOT"); r != "" {
		return r
	}
	return "/verif"
}

func NewRun(prop, tier, level string) *Run {
	seed := int64(1)
	if s := os.Getenv("VERIF_SEED"); s != "" {
		if n, err := strconv.ParseInt(s, 10, 64); err == nil {
			seed = n
		}
	}
	r := &Run{Prop: prop, Tier: tier, Seed: seed, Level: level, Root: Root(), start: time.Now(),
		distinct: map[string]struct{}{}, extra: map[string]any{}, counters: map[string]int64{},
		violSigs: map[string]int{}, violReplay: map[string]string{}, knownSeen: map[string]int{}, knownText: map[string]string{},
		inconclusive: map[string]int{}, MaxSamples: 6}
	r.loadKnown()
	// replay files of earlier runs of this property and seed are stale
	if old, err := filepath.Glob(filepath.Join(r.Root, "replay", fmt.Sprintf("%s-%d-*.json", prop, seed))); err == nil {
		for _, f := range old {
			os.Remove(f)
		}
	}
	return r
}

var reKnown = regexp.MustCompile(`^known:\s+property=(\S+)\s+sig=(\S+)\s*(.*)$`)

func (r *Run) loadKnown() {
	f, err := os.Open(filepath.Join(r.Root, "known-findings.txt"))
	if err != nil {
		return
	}
	defer f.Close()
	sc := bufio.NewScanner(f)
	sc.Buffer(make([]byte, 1<<20), 1<<20)
	for sc.Scan() {
		m := reKnown.FindStringSubmatch(strings.TrimSpace(sc.Text()))
		if m != nil {
			r.knownList = append(r.knownList, known{m[1], m[2], m[3]})
		}
	}
}

// IsKnown reports whether sig is a listed known finding for this property.
func (r *Run) IsKnown(sig string) bool {
	for _, k := range r.knownList {
		if k.Prop == r.Prop && k.Sig == sig {
			return true
		}
	}
	return false
}

// KnownSigs returns the signatures listed for this property.
func (r *Run) KnownSigs() []string {
	var out []string
	for _, k := range r.knownList {
		if k.Prop == r.Prop {
			out = append(out, k.Sig)
		}
	}
	return out
}

// KnownAnyProp reports whether sig is listed under any property (used by
// workloads that must avoid inputs known to crash the process).
func (r *Run) KnownAnyProp(sig string) bool {
	for _, k := range r.knownList {
		if k.Sig == sig {
			return true
		}
	}
	return false
}

func (r *Run) Eval(n int) {
	r.mu.Lock()
	r.evals += int64(n)
	r.mu.Unlock()
}

func (r *Run) Distinct(key string) {
	r.mu.Lock()
	r.distinct[key] = struct{}{}
	r.mu.Unlock()
}

func (r *Run) DistinctCount() int {
	r.mu.Lock()
	defer r.mu.Unlock()
	return len(r.distinct)
}

func (r *Run) Count(name string, n int64) {
	r.mu.Lock()
	r.counters[name] += n
	r.mu.Unlock()
}

func (r *Run) Counter(name string) int64 {
	r.mu.Lock()
	defer r.mu.Unlock()
	return r.counters[name]
}

func (r *Run) Set(name string, v any) {
	r.mu.Lock()
	r.extra[name] = v
	r.mu.Unlock()
}

func (r *Run) Sample(v any) {
	r.mu.Lock()
	if len(r.samples) < r.MaxSamples {
		r.samples = append(r.samples, v)
	}
	r.mu.Unlock()
}

func (r *Run) Assume(s string) {
	r.mu.Lock()
	for _, a := range r.assumptions {
		if a == s {
			r.mu.Unlock()
			return
		}
	}
	r.assumptions = append(r.assumptions, s)
	r.mu.Unlock()
}

func (r *Run) SetExhaustive(b bool) { r.exhaustive = b }

func (r *Run) Inconclusive(why string) {
	r.mu.Lock()
	r.inconclusive[why]++
	r.mu.Unlock()
}

func slug(s string) string {
	s = regexp.MustCompile(`[^A-Za-z0-9._-]+`).ReplaceAllString(s, "_")
	if len(s) > 80 {
		s = s[:80]
	}
	return s
}

// Report records an oracle failure with signature sig. If sig is a listed
// known finding it is counted and printed once as KNOWN-FINDING; otherwise it
// is a violation and a replay file is written (first occurrence per sig).
// Returns true when the failure is a known finding.
func (r *Run) Report(sig string, what string, replay any) bool {
	r.mu.Lock()
	defer r.mu.Unlock()
	for _, k := range r.knownList {
		if k.Prop == r.Prop && k.Sig == sig {
			r.knownSeen[sig]++
			if r.knownSeen[sig] == 1 {
				r.knownText[sig] = k.Text
				r.writeReplay(filepath.Join(r.Root, "replay", "known", r.Prop+"-"+slug(sig)+".json"), sig, what, replay)
			}
			return true
		}
	}
	r.violSigs[sig]++
	if r.violSigs[sig] == 1 {
		r.violOrder = append(r.violOrder, sig)
		r.replayN++
		p := filepath.Join(r.Root, "replay", fmt.Sprintf("%s-%d-%d.json", r.Prop, r.Seed, r.replayN))
		r.writeReplay(p, sig, what, replay)
		r.violReplay[sig] = p
		fmt.Printf("VIOLATION property=%s replay=%s\n", r.Prop, p)
		fmt.Printf("  sig=%s\n  %s\n", sig, firstLines(what, 12))
	}
	return false
}

func firstLines(s string, n int) string {
	lines := strings.Split(s, "\n")
	if len(lines) > n {
		lines = append(lines[:n], "...")
	}
	return strings.Join(lines, "\n  ")
}

func (r *Run) writeReplay(path, sig, what string, replay any) {
	os.MkdirAll(filepath.Dir(path), 0o755)
	doc := map[string]any{"property": r.Prop, "tier": r.Tier, "seed": r.Seed, "sig": sig, "what": what, "replay": replay}
	b, err := json.MarshalIndent(doc, "", " ")
	if err != nil {
		b = []byte(fmt.Sprintf(`{"property":%q,"sig":%q,"what":%q,"marshal_error":%q}`, r.Prop, sig, what, err.Error()))
	}
	os.WriteFile(path, b, 0o644)
}

// Violations returns the number of distinct unlisted violation signatures.
func (r *Run) Violations() int {
	r.mu.Lock()
	defer r.mu.Unlock()
	return len(r.violSigs)
}

// Finish writes the evidence file, prints the summary and returns the exit
// code: 0 held, 1 violation(s), 2 the check could not decide anything.
func (r *Run) Finish() int {
	r.mu.Lock()
	defer r.mu.Unlock()
	wall := time.Since(r.start).Seconds()
	cov := map[string]any{
		"evaluations":         r.evals,
		"distinct_nontrivial": len(r.distinct),
		"rule":                r.Rule,
		"samples":             r.samples,
	}
	if r.exhaustive {
		cov["exhaustive"] = true
	}
	for k, v := range r.extra {
		cov[k] = v
	}
	for k, v := range r.counters {
		cov[k] = v
	}
	ks := map[string]int{}
	for s, n := range r.knownSeen {
		ks[s] = n
	}
	cov["known_findings_seen"] = ks
	if len(r.inconclusive) > 0 {
		cov["inconclusive"] = r.inconclusive
	}
	if len(r.violSigs) > 0 {
		cov["violation_signatures"] = r.violSigs
	}
	if len(r.samples) == 0 {
		cov["samples"] = []any{"(no case was executed)"}
	}
	ev := map[string]any{
		"property_id": r.Prop,
		"tier":        r.Tier,
		"seed":        r.Seed,
		"level":       r.Level,
		"coverage":    cov,
		"assumptions": r.assumptions,
		"wall_s":      wall,
		"violations":  len(r.violSigs),
	}
	if r.assumptions == nil {
		ev["assumptions"] = []string{}
	}
	b, _ := json.MarshalIndent(ev, "", " ")
	os.MkdirAll(filepath.Join(r.Root, "evidence"), 0o755)
	os.WriteFile(filepath.Join(r.Root, "evidence", r.Prop+".json"), b, 0o644)

	var ksigs []string
	for s := range r.knownSeen {
		ksigs = append(ksigs, s)
	}
	sort.Strings(ksigs)
	for _, s := range ksigs {
		fmt.Printf("KNOWN-FINDING: property=%s sig=%s (seen %d×) %s\n", r.Prop, s, r.knownSeen[s], r.knownText[s])
	}
	for why, n := range r.inconclusive {
		fmt.Printf("INCONCLUSIVE property=%s %d× %s\n", r.Prop, n, why)
	}
	status := "held on everything explored"
	code := 0
	if len(r.violSigs) > 0 {
		status = fmt.Sprintf("VIOLATED (%d distinct signatures)", len(r.violSigs))
		code = 1
	} else if r.evals == 0 || len(r.distinct) < 2 {
		status = "NOTHING OBSERVED - check could not decide"
		code = 2
	}
	fmt.Printf("%s %s seed=%d: %s; evaluations=%d distinct=%d known=%d wall=%.1fs\n",
		r.Prop, r.Tier, r.Seed, status, r.evals, len(r.distinct), len(r.knownSeen), wall)
	return code
}
