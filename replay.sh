#!/bin/bash
# replay.sh <replay file> : re-executes a recorded sequential witness against a fresh emulator built from /repo
export GOFLAGS=-mod=mod GOPROXY=off GOSUMDB=off GOTOOLCHAIN=local
ROOT="$(cd "$(dirname "$0")" && pwd)"
mkdir -p "$ROOT/bin/probe" && cd "$ROOT/harness" && go build -tags verif -o "$ROOT/bin/probe/emuhost" ./cmd/emuhost && go build -o "$ROOT/bin/probe/check" ./cmd/check && VERIF_BIN="$ROOT/bin/probe" "$ROOT/bin/probe/check" replay "$1"
