#!/bin/bash
# Builds the framework offline from files on disk: harness unit tests + a warm build of the binaries.
set -e
export GOFLAGS=-mod=mod GOPROXY=off GOSUMDB=off GOTOOLCHAIN=local
cd "$(dirname "$0")/harness"
go vet -tags verif ./...
go test -tags verif -count=1 ./... 2>&1 | tail -20
go build -tags verif -o /dev/null ./cmd/emuhost
go build -tags verif -race -o /dev/null ./cmd/emuhost
go build -o /dev/null ./cmd/check
echo "setup ok"
