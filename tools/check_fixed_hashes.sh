#!/bin/bash
# every "fixed:" line of known-findings.txt must name a commit of /repo whose subject starts with "fix:"
rc=0
grep '^fixed:' /verif/known-findings.txt | while read -r _ _ h _; do
  s=$(git -C /repo log -1 --format=%s "$h" 2>/dev/null) || { echo "MISSING $h"; rc=1; continue; }
  case "$s" in fix:*) ;; *) echo "NOT A fix: COMMIT $h $s";; esac
done
echo "fix commits in /repo: $(git -C /repo log --format=%s | grep -c '^fix:'), fixed lines: $(grep -c '^fixed:' /verif/known-findings.txt)"
