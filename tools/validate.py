#!/usr/bin/env python3-vt
import json, sys, glob, jsonschema
m = json.load(open('/verif/MANIFEST.json'))
jsonschema.validate(m, json.load(open('/root/.vp/MANIFEST.schema.json')))
print('MANIFEST ok:', len(m['checks']), 'checks,', len(m.get('not_applicable', [])), 'not applicable')
es = json.load(open('/root/.vp/EVIDENCE.schema.json'))
for f in sorted(glob.glob('/verif/evidence/*.json')):
    try:
        jsonschema.validate(json.load(open(f)), es)
        print('evidence ok:', f)
    except Exception as e:
        print('EVIDENCE INVALID:', f, str(e)[:300]); sys.exit(1)
