#!/usr/bin/env python3
# Rewrites the generated part of DESIGN.md section 8 (between the GENERATED markers) from known-findings.txt and /repo's git log.
import re, subprocess
kf=open('/verif/known-findings.txt').read().splitlines()
fixed=[]; known=[]
for l in kf:
    m=re.match(r'^fixed:\s+property=(\S+)\s+(\S+)\s+(.*)$',l)
    if m:
        h=m.group(2)
        subj=subprocess.run(['git','-C','/repo','log','-1','--format=%s',h],capture_output=True,text=True).stdout.strip()
        fixed.append((m.group(1),h,m.group(3),subj))
    m=re.match(r'^known:\s+property=(\S+)\s+sig=(\S+)\s+(.*)$',l)
    if m: known.append(m.groups())
out=[]
out.append('### 8.1 Genuine defects repaired (`fix:` commits in `/repo`)\n')
out.append('Each was first produced by a check as a concrete failing input/schedule against the real code (the "what failed" column), then repaired by a minimal unguarded commit; the pinned 68 tests pass after every one of them. %d commits.\n' % len(fixed))
out.append('| property | commit | what failed (witness) | repair (commit subject) |')
out.append('|---|---|---|---|')
for p,h,what,subj in fixed:
    out.append('| %s | `%s` | %s | %s |' % (p,h,what.replace('|','\\|'),subj.replace('fix: ','').replace('|','\\|')))
out.append('')
out.append('### 8.2 Known findings (genuine defects recorded, not repaired)\n')
out.append('| property | signature | what fails / why not repaired |')
out.append('|---|---|---|')
for p,sig,what in known:
    out.append('| %s | `%s` | %s |' % (p,sig,what.replace('|','\\|')))
out.append('')
gen='\n'.join(out)
d=open('/verif/DESIGN.md').read()
a='<!-- GENERATED:findings:begin -->'; b='<!-- GENERATED:findings:end -->'
assert a in d and b in d
d=d[:d.index(a)+len(a)]+'\n'+gen+'\n'+d[d.index(b):]
open('/verif/DESIGN.md','w').write(d)
print(len(fixed),'fixed,',len(known),'known')
