#!/bin/bash
# confirm_seed.sh <out-dir> <ID> [tier] [more IDs...]: confirms a seeded change (patch.diff + demo_test.go in <out-dir>) in a scratch worktree
# and runs the given checks against it. Prints a summary; leaves nothing behind.
out=$1; id=$2; tier=${3:-quick}; shift; shift; shift
export GOFLAGS=-mod=mod GOPROXY=off GOSUMDB=off GOTOOLCHAIN=local
wt=/tmp/confirm_$$
git -C /repo worktree add -q $wt HEAD || exit 2
trap 'git -C /repo worktree remove --force '$wt' >/dev/null 2>&1' EXIT
demo=$(ls $out/*_test.go 2>/dev/null | head -1)
run_demo() { # name
  if [ -n "$demo" ]; then
    cp "$demo" $wt/zz_seed_demo_test.go
    tn=$(grep -o 'func Test[A-Za-z0-9_]*' $wt/zz_seed_demo_test.go | sed 's/func //' | paste -sd'|')
    (cd $wt && timeout 300 go test -vet=off -count=1 -run "^($tn)\$" . >/tmp/confirm_demo_$$.txt 2>&1); rc=$?
    rm -f $wt/zz_seed_demo_test.go
    echo "demo ($1): exit=$rc $(grep -c '^--- FAIL' /tmp/confirm_demo_$$.txt) failing tests; $(grep -m1 '^--- FAIL\|^ok\|^FAIL\|panic' /tmp/confirm_demo_$$.txt | cut -c1-100)"
    rm -f /tmp/confirm_demo_$$.txt
  else echo "demo ($1): no *_test.go in $out"; fi
}
run_demo "unchanged tree, must pass"
if ! git -C $wt apply $out/patch.diff; then echo "PATCH DOES NOT APPLY"; exit 1; fi
(cd $wt && go build ./... && go build -tags verif ./...) || { echo "DOES NOT BUILD"; exit 1; }
(cd $wt && go test -vet=off -count=1 -run "$(cat /tmp/pinned_tests_regex.txt)" . 2>&1 | tail -1)
run_demo "with the change, must fail"
for cid in $id "$@"; do
  o=$(cd /verif && VERIF_REPO=$wt VERIF_ROOT=/tmp/revert_root ./vcheck $cid $tier 2>&1); rc=$?
  echo "check $cid $tier: rc=$rc $(echo "$o" | grep "^$cid $tier" | tail -1 | cut -c1-110)"
  echo "$o" | grep "sig=" | grep -v KNOWN | sed 's/^ *//' | sort -u | head -5
done
