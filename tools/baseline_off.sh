#!/bin/bash
# Runs the 68 pinned baseline tests of /repo with the verif guard OFF.
set -u
export GOFLAGS=-mod=mod GOPROXY=off GOSUMDB=off GOTOOLCHAIN=local
HERE="$(cd "$(dirname "$0")" && pwd)"
REPO="${VERIF_REPO:-/repo}"
pat="^($(paste -sd'|' "$HERE/baseline_tests.txt"))\$"
cd "$REPO" && go test -json -vet=off -count=1 -timeout 25m -run "$pat" ./... > /tmp/baseline_off.$$.json
rc=$?
pass=$(grep -c '"Action":"pass","Package":"[^"]*","Test":"[^"/]*"' /tmp/baseline_off.$$.json)
fail=$(grep -c '"Action":"fail","Package":"[^"]*","Test":"[^"/]*"' /tmp/baseline_off.$$.json)
cat /tmp/baseline_off.$$.json
echo "baseline (guard off): top-level tests passed=$pass failed=$fail go-test-exit=$rc"
rm -f /tmp/baseline_off.$$.json
[ "$rc" = 0 ] && [ "$pass" = 68 ] && [ "$fail" = 0 ]
