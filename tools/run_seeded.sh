#!/bin/bash
# run_seeded.sh <patch.diff> <tier> <ID...> : applies a seeded change to /repo, runs the given checks, restores /repo.
patch=$1; tier=$2; shift; shift
cd /verif
if ! git -C /repo diff --quiet; then echo "/repo has uncommitted changes"; exit 2; fi
trap 'git -C /repo checkout -- . ; git -C /repo clean -fdq' EXIT
git -C /repo apply "$patch" || { echo "patch does not apply"; exit 2; }
for id in "$@"; do
  out=$(./vcheck $id $tier 2>&1); rc=$?
  echo "== $id $tier rc=$rc $(echo "$out" | grep "^$id $tier" | tail -1 | cut -c1-160)"
  echo "$out" | grep "sig=" | sort | uniq -c | head -8
done
