#!/bin/bash
# revert_check.sh <commit-grep> <ID> [tier] : reverts one fix commit in a scratch worktree and runs a check against it (must raise an alarm)
pat=$1; id=$2; tier=${3:-quick}
h=$(git -C /repo log --format=%h --grep="$pat" -1)
[ -z "$h" ] && { echo "no commit matches $pat"; exit 2; }
wt=/tmp/revert_$h
git -C /repo worktree add -q $wt HEAD || exit 2
if ! git -C $wt revert --no-commit $h >/dev/null 2>&1; then echo "revert of $h conflicts"; git -C /repo worktree remove --force $wt; exit 2; fi
out=$(cd /verif && VERIF_REPO=$wt ./vcheck $id $tier 2>&1); rc=$?
echo "revert $h ($pat) -> $id $tier rc=$rc $(echo "$out" | grep "^$id $tier" | tail -1 | cut -c1-120)"
echo "$out" | grep "sig=" | sort | uniq -c | head -4
git -C /repo worktree remove --force $wt
