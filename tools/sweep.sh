#!/bin/bash
# sweep.sh <tier> <seed...> : runs every check once per seed, prints the summary line and any non-zero exit
tier=${1:-quick}; shift
cd "$(dirname "$0")/.."
for seed in "$@"; do
  for id in C01 C02 C03 C04 C05 C06 C07 C08 C09 C10 C11 C12 C13 C14 C15 C16 C17 C18 C19 C20; do
    out=$(VERIF_SEED=$seed ./vcheck $id $tier 2>&1); rc=$?
    line=$(echo "$out" | grep "^$id $tier" | tail -1)
    echo "rc=$rc $line"
    if [ $rc -ne 0 ]; then echo "$out" | grep -A6 "sig=\|INCONCLUSIVE" | cut -c1-400 | head -40; fi
  done
done
