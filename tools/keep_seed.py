#!/usr/bin/env python3
# keep_seed.py <out-dir> <seed-name> <caught-by (comma list or 'none')> <notes>: stores a confirmed seeded change under /verif/seeded/<seed-name>/
import sys, os, json, shutil, glob
out, name, caught, notes = sys.argv[1:5]
dst = '/verif/seeded/' + name
os.makedirs(dst, exist_ok=True)
shutil.copy(out + '/patch.diff', dst + '/patch.diff')
for f in glob.glob(out + '/*_test.go') + glob.glob(out + '/demo*'):
    if os.path.isfile(f):
        base = os.path.basename(f)
        if base.endswith('_test.go'):
            base = base + '.txt'  # not compiled as part of anything under /verif
        shutil.copy(f, dst + '/' + base)
meta = {}
try:
    meta = json.load(open(out + '/meta.json'))
except Exception as e:
    meta = {'note': 'agent meta.json unreadable: %s' % e}
meta['confirmed_by_me'] = 'tools/confirm_seed.sh: demo passes on the unchanged tree, patch applies, builds with and without -tags verif, 68 pinned tests pass, demo fails with the change'
meta['checks_run'] = notes
meta['caught_by'] = [] if caught == 'none' else caught.split(',')
json.dump(meta, open(dst + '/meta.json', 'w'), indent=1)
print('kept', dst)
