#!/usr/bin/env python3
# Regenerates /verif/MANIFEST.json from the table below (claimed checks) + properties.jsonl (everything else -> not_applicable).
import json, subprocess
props=[json.loads(l) for l in open('/verif/properties.jsonl')]
MODEL_NOTE="Trusts the reference model in harness/model (written from the Redis 7 command reference, unit-tested against documented examples; uncertain corners are 'unspecified' and get no verdict), the harness's strict RESP parser and the observer connection's dump commands (TYPE/GET/LRANGE/HGETALL/SMEMBERS/PTTL/KEYS/DBSIZE)."
C={
"C01":("exploration","Generated command sequences are sent to fresh emulators command-by-command and again with the same bytes cut 7 different ways (every byte, inside CRLF, inside headers, around 8192, random, mid-command, one pipeline); replies must be byte-identical and strictly well-formed, hostile byte strings must round-trip in 13 roles, error replies must stay on one line. The cxn:read hook proves the requests really arrived split. Sampling over sequences; every split offset is covered for requests <= 2 KiB.",
  "Loopback writes with TCP_NODELAY stand in for TCP segmentation; trusts the harness's strict RESP parser.","runtime monitoring: metamorphic cut-independence + strict framing monitor + byte round-trip oracle over live TCP"),
"C02":("exploration","Random string/counter command sequences (boundary offsets around the current length, boundary and near integers, floats, every SET option subset in any order/case, all prior key types) run against the live emulator in lock step with an executable reference model: every reply, the full observable state after every step and inertness of failed commands are compared. Sampling of sequences.",
  MODEL_NOTE,"runtime monitoring: differential testing against an executable reference model (reply + state + inertness oracle per step)"),
"C03":("exploration","Random list command sequences (indexes/counts/ranks in [-len-2,len+2] and extremes, duplicates, source = destination moves, LMPOP over several keys, LPOS option combinations, wrong-typed and missing keys) run against the live emulator in lock step with the reference model: replies, element order of every list after every step, key removal when empty and inertness of failures are compared. Sampling of sequences.",
  MODEL_NOTE,"runtime monitoring: differential testing against an executable reference model (reply + state + inertness oracle per step)"),
"C04":("exploration","Random hash command sequences, the exhaustive HINCRBY old-value x increment sign table (12 x 9 incl. +-2^63 boundaries and non-integers) and large hashes grown over several table doublings, shrunk and regrown run in lock step with the reference model: replies (HRANDFIELD by predicate: existing, distinct, exact count), the whole field/value mapping after every step and inertness of failures are compared.",
  MODEL_NOTE+" Hash sizes are capped at 800 fields (the emulator's collision-free table is quadratic).","runtime monitoring: differential testing against an executable reference model (reply + state + inertness oracle per step)"),
"C05":("exploration","Random set command sequences over a 6-member universe (operands drawn with replacement incl. missing and wrong-typed ones, STORE destination among the operands half of the time, SMOVE with source = destination, all SRANDMEMBER counts and SINTERCARD limits) run in lock step with the reference model: replies equal the exact mathematical result, every operand and destination is re-read after every step, failures are inert.",
  MODEL_NOTE,"runtime monitoring: differential testing against an executable reference model (reply + state + inertness oracle per step)"),
"C06":("exploration","Exhaustive command x key-type matrix (about 180 command templates x 5 key types, 9 with TTL variants in thorough) on fresh emulators, 30 ways of removing the last element of an aggregate followed by EXISTS/TYPE/KEYS/SCAN/DBSIZE probes, and random keyspace sequences (RENAME/COPY/KEYS globs/SORT options ...) - all in lock step with the reference model; every error reply is checked for inertness against the SUT's own previous dump and every dump for empty aggregates and KEYS/EXISTS/DBSIZE consistency.",
  MODEL_NOTE,"runtime monitoring: differential testing against an executable reference model + SUT-only invariants (inertness on error, no empty aggregates, KEYS/EXISTS/DBSIZE agreement)"),
"C18":("exploration","Bitmap commands against a bit-array model: BITFIELD GET/SET/INCRBY over every type i1..i64/u1..u63 x 11 bit offsets x boundary values x overflow modes x 3 base strings, BITCOUNT/BITPOS over all (start,end) pairs in byte and bit units for every string of length <= 3 over a 5-byte alphabet plus the missing key, SETBIT/GETBIT offsets 0..40 and extremes, BITOP with 1-4 operands (missing, wrong-typed, destination among sources), random multi-op BITFIELD; the string is re-read after every command. thorough enumerates the tables completely, quick a seeded 1/8 slice.",
  MODEL_NOTE+" The bit-array model is unit-tested against the documented BITCOUNT/BITPOS/BITFIELD examples.","runtime monitoring: differential testing against an executable bit-array reference model (small-scope exhaustive tables + random)"),
"C13":("exploration","Hostile byte strings, generated commands (every command token x arity 0..7 x boundary arguments x key types) and MULTI sequences are sent to the live emulator over TCP; exit status, a canary connection, strict reply framing and a sentinel ECHO decide crash / stall / unanswered / mis-framed. Sampling, not enumeration.",
  "Trusts the harness's strict RESP parser, the 3-4 s watchdogs on a loaded machine, and the 12 GiB address-space limit as the definition of 'resource exhaustion'.","runtime monitoring: liveness/canary monitor + framing monitor over generated hostile inputs (child process per shard)"),
}
checks=[]
for p in props:
    pid=p['id']
    if pid not in C: continue
    level,text,note,tech=C[pid]
    checks.append({"property_id":pid,"quick_cmd":f"./vcheck {pid} quick","thorough_cmd":f"./vcheck {pid} thorough","evidence_file":f"/verif/evidence/{pid}.json",
        "engine":"harness","level_claimed":{"category":level,"text":text,"design_ref":f"DESIGN.md section 4, {pid}"},"level_note":note,"technique":tech})
hooks=subprocess.run("git -C /repo log --format=%h --grep='^verif hooks' --reverse",shell=True,capture_output=True,text=True).stdout.split()
m={"version":1,"setup_cmd":"./setup.sh",
 "hooks":{"guard":"verif","enable":"go build -tags verif (vcheck builds harness/cmd/emuhost against /repo with the tag on)","baseline_off_cmd":"/verif/tools/baseline_off.sh","source_commits":hooks,"add_only":True},
 "engines":[{"name":"harness","path":"/verif/harness","serves_properties":[p['id'] for p in props],"kind_free_text":"Go monitor/driver (cmd/check) + child processes hosting the real emulator built from /repo with -tags verif (cmd/emuhost); strict RESP codec, reference model, porcupine, race detector"}],
 "checks":checks,
 "not_applicable":[{"property_id":p['id'],"reason":"check under construction in this round (runtime monitoring applies; see DESIGN.md section 4) - not claimed until its command exists and is silent on the unchanged tree"} for p in props if p['id'] not in C],
 "notes":"Technique family: runtime monitoring and sanitizers. Every check is ./vcheck <ID> <tier>; exit 0 held / 1 VIOLATION / 2 could not decide. Known findings: /verif/known-findings.txt."}
json.dump(m,open('/verif/MANIFEST.json','w'),indent=1)
print("checks:",[c['property_id'] for c in checks])
