#!/bin/bash
# reverts every fix commit listed in known-findings.txt (one at a time, scratch worktree) and runs the check of its property
grep '^fixed:' /verif/known-findings.txt | while read -r _ prop h rest; do
  id=${prop#property=}
  wt=/tmp/revert_$h
  git -C /repo worktree add -q $wt HEAD 2>/dev/null || continue
  if ! git -C $wt revert --no-commit $h >/dev/null 2>&1; then echo "SKIP $h $id revert conflicts"; git -C /repo worktree remove --force $wt; continue; fi
  if ! (cd $wt && GOFLAGS=-mod=mod GOPROXY=off GOSUMDB=off GOTOOLCHAIN=local go build -tags verif ./... >/dev/null 2>&1); then echo "SKIP $h $id reverted tree does not build"; git -C /repo worktree remove --force $wt; continue; fi
  out=$(cd /verif && VERIF_REPO=$wt VERIF_ROOT=/tmp/revert_root ./vcheck $id quick 2>&1); rc=$?
  sigs=$(echo "$out" | grep "sig=" | grep -v KNOWN | sed 's/.*sig=//' | sort -u | head -3 | tr '\n' ' ')
  echo "rc=$rc $h $id :: $sigs"
  git -C /repo worktree remove --force $wt
done
