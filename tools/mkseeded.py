#!/usr/bin/env python3
# mkseeded.py: regenerates DESIGN.md section 10.1 (between the GENERATED:seeded markers) from /verif/seeded/*/meta.json
import json, glob, os, re
rows = []
for d in sorted(glob.glob('/verif/seeded/*/')):
    mp = d + 'meta.json'
    if not os.path.exists(mp):
        continue
    m = json.load(open(mp))
    name = os.path.basename(d.rstrip('/'))
    def cell(s, n=420):
        s = re.sub(r'\s+', ' ', str(s)).replace('|', '\\|')
        return s if len(s) <= n else s[:n - 1] + '…'
    caught = ', '.join(m.get('caught_by', [])) or '**none**'
    rows.append('| `%s` | %s | %s | %s | %s |' % (name, m.get('property', '?'), cell(m.get('needs_to_manifest', m.get('summary', ''))), caught, cell(m.get('checks_run', ''), 600)))
out = ['| seeded change | property | what it needs to manifest | caught by (quick tier unless stated) | what I ran / what had to be strengthened |', '|---|---|---|---|---|'] + rows
p = '/verif/DESIGN.md'
s = open(p).read()
b, e = '<!-- GENERATED:seeded:begin -->', '<!-- GENERATED:seeded:end -->'
i, j = s.index(b), s.index(e)
s = s[:i + len(b)] + '\n' + '\n'.join(out) + '\n' + s[j:]
open(p, 'w').write(s)
print(len(rows), 'seeded changes')
